"""C23 / C27 (part): engine/base.py::RootTransaction — however a root transaction ends (rollback / close / commit, with the DBAPI
call failing or not), it is deactivated and detached from its connection: `connection._transaction is not self` and
`not is_active` hold on EVERY exit, so a connection never keeps a dead transaction.  DESIGN §5 C23, C27.
"""
from pyvc.contract import fn, cls

R = "engine/base.py::RootTransaction."
cls("NestedTx", fields={"is_active": "bool"}, methods={"_cancel": "engine/base.py::NestedTransaction._cancel@root"})
cls("ConnT", fields={"_transaction": "RootTx", "_nested_transaction": "NestedTx"},
    methods={"_invalid_transaction": "engine/base.py::Connection._invalid_transaction"})
cls("RootTx", fields={"connection": "ConnT", "is_active": "bool"},
    rep=["implies(self.is_active, self.connection._transaction is self)", "self.connection is not None"],
    methods={n: R + n for n in ["_deactivate_from_connection", "_connection_rollback_impl", "_connection_commit_impl", "_close_impl", "_do_commit"]})

fn("engine/base.py::NestedTransaction._cancel@root", abstract=True, cls="NestedTx", params=["self"], returns="none",
   modifies=["self.is_active", "any._nested_transaction"], notes="cancels the savepoint handles; does not touch the root transaction link")
fn(R + "_connection_rollback_impl", abstract=True, cls="RootTx", params=["self"], returns="none", modifies=[], may_raise={"BaseException": "True"},
   notes="Connection._rollback_impl: DBAPI rollback; may raise (e.g. a disconnect)")
fn(R + "_connection_commit_impl", abstract=True, cls="RootTx", params=["self"], returns="none", modifies=[], may_raise={"BaseException": "True"})
fn("engine/base.py::Connection._invalid_transaction", abstract=True, cls="ConnT", params=["self"], returns="none", raises={"PendingRollbackError": "True"})

fn(R + "_deactivate_from_connection", cls="RootTx", props=["C23", "C27"], returns="none", callees={"util.warn": "noop"},
   ensures=["not self.is_active"], modifies=["self.is_active"])

ENDED = ["implies(not old(self.is_active), not self.is_active)", "self.connection._transaction is not self",
         "implies(old(self.is_active) or try_deactivate, not self.is_active)".replace("try_deactivate", "TD")]
fn(R + "_close_impl", cls="RootTx", props=["C23", "C27"], types={"try_deactivate": "bool"}, returns="none",
   ensures=[c.replace("TD", "try_deactivate") for c in ENDED] + ["not self.is_active"],
   may_raise={"BaseException": "True"},
   # also when the DBAPI rollback itself fails (a disconnect): the dead transaction must not stay attached to the connection
   exc_ensures={"BaseException": [c.replace("TD", "try_deactivate") for c in ENDED]},
   modifies=["self.is_active", "self.connection._transaction", "any._nested_transaction", "self.connection._nested_transaction.is_active"])

fn(R + "_do_commit", cls="RootTx", props=["C23", "C27"], returns="none",
   raises={"InvalidRequestError": "not self.is_active and self.connection._transaction is not self",
           "PendingRollbackError": "not self.is_active and self.connection._transaction is self"},
   may_raise={"BaseException": "self.is_active"},
   ensures=["not self.is_active", "self.connection._transaction is not self"],
   exc_ensures={"BaseException": ["implies(old(self.is_active), not self.is_active)"]},
   modifies=["self.is_active", "self.connection._transaction", "any._nested_transaction", "self.connection._nested_transaction.is_active"])

# construction: a root transaction comes into being attached to its connection, or (BEGIN failed) not at all
import pyvc.contract as _pc  # noqa: E402
_pc.CLASSES["ConnT"].fields["_trans_context_manager"] = "v"
_pc.CLASSES["RootTx"].methods["_connection_begin_impl"] = R + "_connection_begin_impl"
fn(R + "_connection_begin_impl", abstract=True, cls="RootTx", params=["self"], returns="none", modifies=[], may_raise={"BaseException": "True"},
   notes="Connection._begin_impl: emits BEGIN (dialect.do_begin); may raise")
fn(R + "__init__", cls="RootTx", props=["C23", "C27"], returns="none", assume_rep=False,
   types={"connection": "ConnT"}, callees={"TransactionalContext._trans_ctx_check": "noop"},
   requires=["connection is not None", "connection._transaction is None"],
   ensures=["self.connection is connection", "self.is_active", "connection._transaction is self"],
   may_raise={"BaseException": "True"},
   # a failing BEGIN leaves the connection without a transaction object
   exc_ensures={"BaseException": ["connection._transaction is None"]},
   modifies=["self.connection", "self.is_active", "connection._transaction"])

# ---- the public end-of-life operations of a root transaction: thin wrappers whose `assert not self.is_active` (in a finally
# block, i.e. on every exit) is discharged from the contracts above
for _n in ("_do_close", "_do_rollback"):
    fn(R + _n, cls="RootTx", props=["C23", "C27"], returns="none", ensures=["not self.is_active", "self.connection._transaction is not self"],
       may_raise={"BaseException": "True"}, exc_ensures={"BaseException": ["self.connection._transaction is not self", "not self.is_active"]},
       modifies=["self.is_active", "self.connection._transaction", "any._nested_transaction", "self.connection._nested_transaction.is_active"])
    _pc.CLASSES["RootTx"].methods[_n] = R + _n
TR = "engine/base.py::Transaction."
for _n, _callee in (("close", "_do_close"), ("rollback", "_do_rollback"), ("commit", "_do_commit")):
    fn(TR + _n + "#root", cls="RootTx", props=["C23", "C27"], returns="none",
       ensures=["not self.is_active", "self.connection._transaction is not self"],
       may_raise={"BaseException": "True"},
       # whatever happens, the transaction is over afterwards
       exc_ensures={"BaseException": ["not self.is_active"]},
       modifies=["self.is_active", "self.connection._transaction", "any._nested_transaction", "self.connection._nested_transaction.is_active"])

# ---- Connection-level entry points: begin / commit / rollback / in_transaction
CB = "engine/base.py::Connection."
_pc.CLASSES["RootTx"].methods.update({"__init__": R + "__init__", "commit": TR + "commit#root", "rollback": TR + "rollback#root"})
fn(CB + "begin", cls="ConnT", props=["C23"], returns="RootTx", consts={"exc.InvalidRequestError": "class"},
   callees={"RootTransaction": "construct:RootTx"},
   # a second begin() while a transaction object exists is refused -- there is no implicit nesting
   raises={"InvalidRequestError": "self._transaction is not None"},
   may_raise={"BaseException": "self._transaction is None"},
   ensures=["result is self._transaction and fresh(result)", "result.is_active and result.connection is self"],
   exc_ensures={"BaseException": ["self._transaction is old(self._transaction)"]},
   modifies=["self._transaction"])
fn(CB + "commit", cls="ConnT", props=["C23"], returns="none",
   requires=["implies(self._transaction is not None, self._transaction.connection is self)"],
   ensures=["implies(old(self._transaction) is not None, not old(self._transaction).is_active and self._transaction is not old(self._transaction))",
            "implies(old(self._transaction) is None, self._transaction is None)"],
   may_raise={"BaseException": "self._transaction is not None"},
   exc_ensures={"BaseException": ["not old(self._transaction).is_active"]},
   modifies=["self._transaction", "self._transaction.is_active", "any._nested_transaction", "self._nested_transaction.is_active"])
fn(CB + "rollback", cls="ConnT", props=["C23"], returns="none",
   requires=["implies(self._transaction is not None, self._transaction.connection is self)"],
   ensures=["implies(old(self._transaction) is not None, not old(self._transaction).is_active and self._transaction is not old(self._transaction))",
            "implies(old(self._transaction) is None, self._transaction is None)"],
   may_raise={"BaseException": "self._transaction is not None"},
   exc_ensures={"BaseException": ["not old(self._transaction).is_active"]},
   modifies=["self._transaction", "self._transaction.is_active", "any._nested_transaction", "self._nested_transaction.is_active"])
fn(CB + "in_transaction", cls="ConnT", props=["C23"], returns="bool",
   ensures=["result == (self._transaction is not None and self._transaction.is_active)"], modifies=[])
