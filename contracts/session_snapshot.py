"""C34 (part): orm/session.py::SessionTransaction._remove_snapshot, SAVEPOINT release arm.

A released SAVEPOINT hands its bookkeeping to the enclosing transaction: everything it recorded as new / dirty / deleted and
every primary-key switch flushed inside it stays known to the parent, so that a later rollback of the parent can restore the
identity keys (the identity map would otherwise keep an object under a key whose row no longer exists).  DESIGN §5 C34.
"""
from pyvc.contract import fn, cls

cls("SessS", fields={"expire_on_commit": "bool", "identity_map": "v"})
cls("STx", fields={"nested": "bool", "_parent": "opt:STx", "_new": "dict", "_dirty": "dict", "_deleted": "dict", "_key_switches": "dict",
                   "session": "SessS", "_is_transaction_boundary": "bool"})


def MERGED(f):
    return (f"forall(lambda k: implies(old(dhas(self.{f}, k)), dhas(self._parent.{f}, k) and dget(self._parent.{f}, k) is old(dget(self.{f}, k))))",
            f"forall(lambda k: implies(not old(dhas(self.{f}, k)), dhas(self._parent.{f}, k) == old(dhas(self._parent.{f}, k)) and "
            f"implies(dhas(self._parent.{f}, k), dget(self._parent.{f}, k) is old(dget(self._parent.{f}, k)))))")


FIELDS = ["_new", "_dirty", "_deleted", "_key_switches"]
ens = []
for f in FIELDS:
    ens += list(MERGED(f))
DISTINCT = [f"self._parent.{a} is not self._parent.{b}" for i, a in enumerate(FIELDS) for b in FIELDS[i + 1:]] + \
           [f"self.{a} is not self._parent.{b}" for a in FIELDS for b in FIELDS]
fn("orm/session.py::SessionTransaction._remove_snapshot", cls="STx", props=["C34"], returns="none",
   callees={"self.session.identity_map.all_states": "havoc:seq", "s._expire": "noop", "statelib.InstanceState._detach_states": "noop",
            "self._deleted.clear": "noop"},
   requires=["self.nested", "self._is_transaction_boundary", "self._parent is not None", "self._parent is not self"] + DISTINCT,
   ensures=ens + ["all(self." + f + " is old(self." + f + ") for _u in [0])" for f in []],
   modifies=[f"contents(self._parent.{f})" for f in FIELDS],
   notes="only the SAVEPOINT-release arm (requires self.nested); the commit arm (expire_on_commit) is in the bounded complement")
