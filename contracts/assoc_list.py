"""C50 (part): ext/associationproxy.py::_AssociationList — the list proxy behaves as the list of proxied values.

view(self) = [getter(m) for m in self.col]   (`col` is the underlying relationship collection, a list here).
Assumed, as the class itself documents ("obj = creator(somevalue); assert getter(obj) == somevalue"): `_create(value)` returns a
new intermediary object whose proxied value is `value`; getter / creator are pure.
Proved: append, extend, +=, insert, pop, __getitem__(int), __setitem__(int), __delitem__(int), clear, __len__ act on the view exactly as the
same list operation acts on a plain list.  slices / remove / iteration are in the bounded complement (slice assignment
has recorded defects).  DESIGN §5 C50.
"""
from pyvc.contract import fn, cls

A = "ext/associationproxy.py::"
cls("AList", fields={"col": "list", "getter": "fn", "creator": "fn", "setter": "fn", "_g_set_calls": "seqv"},
    methods={"_create": A + "_AssociationSingleItem._create@rt", "_get": A + "_AssociationSingleItem._get", "append": A + "_AssociationList.append",
             "_set": A + "_AssociationList._set@ghost", "extend": A + "_AssociationList.extend"})
fn(A + "_AssociationSingleItem._create@rt", abstract=True, cls="AList", params=["self", "value"], returns="v", fresh_result=False, modifies=[],
   ensures=["call(self.getter, result) is value", "result is not None"],
   notes="creator(value): an intermediary object whose proxied value is `value` (the round trip the class documents as assumed)")
fn(A + "_AssociationList._set@ghost", abstract=True, cls="AList", params=["self", "object_", "value"], returns="none", modifies=["self._g_set_calls"],
   ensures=["self._g_set_calls == old(self._g_set_calls) + [pair(object_, value)]"], notes="setter(object_, value): logged (ghost)")
VIEW = "mapfn(self.getter, contents(self.col))"
OVIEW = "old(mapfn(self.getter, contents(self.col)))"
L = A + "_AssociationList."
fn(A + "_AssociationSingleItem._get", cls="AList", props=["C50"], ensures=["result is call(self.getter, object_)"], modifies=[])
fn(A + "_AssociationCollection.__len__", cls="AList", props=["C50"], returns="int", ensures=["result == len(" + VIEW + ")"], modifies=[])
fn(L + "append", cls="AList", props=["C50"], returns="none", types={"col": "list", "item": "v"},
   ensures=[VIEW + " == " + OVIEW + " + [value]"], modifies=["contents(self.col)"])
fn(L + "extend", cls="AList", props=["C50"], returns="none", types={"values": "seq"},
   invariant={0: [VIEW + " == " + OVIEW + " + prefix(values, _i)"]}, loop_modifies={0: ["contents(self.col)"]},
   ensures=[VIEW + " == " + OVIEW + " + values"], modifies=["contents(self.col)"])
# `+=` is extend() (checked against extend's contract, not its body) and hands back the proxy itself
fn(L + "__iadd__", cls="AList", props=["C50"], types={"iterable": "seq"},
   ensures=["result is self", VIEW + " == " + OVIEW + " + iterable"], modifies=["contents(self.col)"])
# insert() is a slice store `col[index:index] = [new]`: the index is clamped as a list clamps it (insert(-1, x) goes before the last value)
fn(L + "insert", cls="AList", props=["C50"], returns="none", types={"index": "int"},
   ensures=[VIEW + " == " + OVIEW + "[:index] + [value] + " + OVIEW + "[index:]"], modifies=["contents(self.col)"])
INR = "(-len(self.col) <= index and index < len(self.col))"
NIX = "ite(index < 0, index + len(" + OVIEW + "), index)"
fn(L + "pop", cls="AList", props=["C50"], types={"index": "int"}, raises={"IndexError": "not " + INR},
   ensures=["result is " + OVIEW + "[index]", VIEW + " == " + OVIEW + "[:" + NIX + "] + " + OVIEW + "[" + NIX + " + 1:]"],
   modifies=["contents(self.col)"])
fn(L + "__getitem__", cls="AList", props=["C50"], types={"index": "int"}, consts={"slice": "class"}, raises={"IndexError": "not " + INR},
   ensures=["result is " + VIEW + "[index]"], modifies=[])
fn(L + "__delitem__", cls="AList", props=["C50"], types={"index": "int"}, returns="none", raises={"IndexError": "not " + INR},
   ensures=[VIEW + " == " + OVIEW + "[:" + NIX + "] + " + OVIEW + "[" + NIX + " + 1:]"], modifies=["contents(self.col)"])
fn(L + "clear", cls="AList", props=["C50"], returns="none", ensures=["len(" + VIEW + ") == 0"], modifies=["contents(self.col)"])
fn(L + "__setitem__", cls="AList", props=["C50"], types={"index": "int"}, consts={"slice": "class"}, returns="none",
   callees={"cast": "identity"}, raises={"IndexError": "not " + INR},
   # an integer index re-points the existing intermediary object through the setter: the collection itself is untouched
   ensures=["contents(self.col) == old(contents(self.col))", "self._g_set_calls == old(self._g_set_calls) + [pair(old(contents(self.col))[index], value)]"],
   modifies=["self._g_set_calls"])


# ---- _AssociationDict: view(k) = getter(col[k]) for k in col
D = A + "_AssociationDict."
cls("ADict", fields={"col": "dict", "getter": "fn", "creator": "fn", "setter": "fn", "_g_set_calls": "seqv"},
    methods={"_create": D + "_create@rt", "_get": D + "_get", "_set": D + "_set@ghost", "__getitem__": D + "__getitem__"})
fn(D + "_create@rt", abstract=True, cls="ADict", params=["self", "key", "value"], returns="v", modifies=[],
   ensures=["call(self.getter, result) is value", "result is not None"], notes="creator(key, value): round trip assumed as the class documents")
fn(D + "_set@ghost", abstract=True, cls="ADict", params=["self", "object_", "key", "value"], returns="none", modifies=["self._g_set_calls"],
   ensures=["self._g_set_calls == old(self._g_set_calls) + [pair(object_, value)]"])
fn(D + "_get", cls="ADict", props=["C50"], ensures=["result is call(self.getter, object_)"], modifies=[])
SAMEKEYS = "forall(lambda q: implies(q is not key, dhas(self.col, q) == old(dhas(self.col, q)) and implies(dhas(self.col, q), dget(self.col, q) is old(dget(self.col, q)))))"
fn(D + "__getitem__", cls="ADict", props=["C50"], raises={"KeyError": "not dhas(self.col, key)"},
   ensures=["result is call(self.getter, dget(self.col, key))"], modifies=[])
fn(D + "__contains__", cls="ADict", props=["C50"], returns="bool", ensures=["result == dhas(self.col, key)"], modifies=[])
fn(D + "__delitem__", cls="ADict", props=["C50"], returns="none", raises={"KeyError": "not dhas(self.col, key)"},
   ensures=["not dhas(self.col, key)", SAMEKEYS], modifies=["contents(self.col)"])
fn(D + "clear", cls="ADict", props=["C50"], returns="none", ensures=["len(keys(self.col)) == 0"], modifies=["contents(self.col)"])
fn(D + "__setitem__", cls="ADict", props=["C50"], returns="none",
   ensures=["dhas(self.col, key)", SAMEKEYS,
            # a new key gets a new intermediary object carrying the value; an existing one is re-pointed through the setter
            "implies(not old(dhas(self.col, key)), call(self.getter, dget(self.col, key)) is value and self._g_set_calls == old(self._g_set_calls))",
            "implies(old(dhas(self.col, key)), dget(self.col, key) is old(dget(self.col, key)) and "
            "self._g_set_calls == old(self._g_set_calls) + [pair(old(dget(self.col, key)), value)])"],
   modifies=["contents(self.col)", "self._g_set_calls"])
fn(D + "popitem", cls="ADict", props=["C50"], types={"item": "tupleval"}, raises={"KeyError": "len(keys(self.col)) == 0"},
   ensures=["is_tuple(result, 2) and old(dhas(self.col, result[0])) and not dhas(self.col, result[0])",
            "result[1] is call(self.getter, old(dget(self.col, result[0])))"],
   modifies=["contents(self.col)"])


# ---- _AssociationSet: view = {getter(m) for m in col}
SS = A + "_AssociationSet."
cls("ASet", fields={"col": "set", "getter": "fn", "creator": "fn"},
    methods={"_create": A + "_AssociationSingleItem._create@set", "_get": A + "_AssociationSingleItem._get#set", "__contains__": SS + "__contains__",
             "add": SS + "add", "discard": SS + "discard"})
fn(A + "_AssociationSingleItem._create@set", abstract=True, cls="ASet", params=["self", "value"], returns="v", modifies=[],
   ensures=["call(self.getter, result) is value", "result is not None"],
   notes="creator(value): an intermediary object whose proxied value is `value` (the round trip the class documents as assumed)")
fn(A + "_AssociationSingleItem._get#set", cls="ASet", props=["C50"], ensures=["result is call(self.getter, object_)"], modifies=[])


def SHAS(x, col="seq(self.col)"):
    return "any(call(self.getter, " + col + "[j]) is " + x + " for j in range(len(" + col + ")))"


fn(SS + "__contains__", cls="ASet", props=["C50"], returns="bool", types={"member": "v"},
   invariant={0: ["not any(call(self.getter, seq(self.col)[j]) is __o for j in range(_i))"]},
   ensures=["result == " + SHAS("__o")], modifies=[])
# distinct members carry distinct values (what makes the collection of values a set; creator / getter keep it: assumed round trip)
INJ = ("all(all(implies(call(self.getter, seq(self.col)[a]) is call(self.getter, seq(self.col)[b]), a == b) "
       "for b in range(len(seq(self.col)))) for a in range(len(seq(self.col))))")
VHAS = "(lambda x: any(call(self.getter, m) is x for m in self.col))"
fn(SS + "add", cls="ASet", props=["C50"], returns="none",
   ensures=["forall(lambda x: any(call(self.getter, m) is x for m in self.col) == (old(any(call(self.getter, m) is x for m in self.col)) or x is __element))",
            # a value that is already there adds no second member
            "implies(old(any(call(self.getter, m) is __element for m in self.col)), contents(self.col) == old(contents(self.col)))",
            # the same in terms of members: none leaves, and a member that arrives carries the added value
            "forall(lambda m: implies(old(m in self.col), m in self.col))",
            "forall(lambda m: implies((m in self.col) and not old(m in self.col), call(self.getter, m) is __element))",
            "any(call(self.getter, m) is __element for m in self.col)",
            # distinct members keep carrying distinct values
            INJ],
   requires=[INJ], modifies=["contents(self.col)"])

HASV = "any(call(self.getter, m) is XX for m in self.col)"
GONE = ["not " + HASV.replace("XX", "__element"),
        "forall(lambda x: implies(x is not __element, " + HASV.replace("XX", "x") + " == old(" + HASV.replace("XX", "x") + ")))",
        # at most the one member carrying the value leaves the collection
        "forall(lambda m: implies(m in self.col, old(m in self.col)))",
        "forall(lambda m: implies(old(m in self.col) and not (m in self.col), call(self.getter, m) is __element))"]
fn(SS + "discard", cls="ASet", props=["C50"], returns="none", types={"member": "v"},
   requires=[INJ],
   invariant={0: ["not any(call(self.getter, seq(self.col)[j]) is __element for j in range(_i))", "contents(self.col) == old(contents(self.col))"]},
   loop_modifies={0: []},
   ensures=GONE + [INJ], modifies=["contents(self.col)"])
fn(SS + "remove", cls="ASet", props=["C50"], returns="none", types={"member": "v"},
   requires=[INJ], raises={"KeyError": "not " + HASV.replace("XX", "__element")},
   invariant={0: ["not any(call(self.getter, seq(self.col)[j]) is __element for j in range(_i))", "contents(self.col) == old(contents(self.col))"]},
   loop_modifies={0: []},
   exc_ensures={"KeyError": ["contents(self.col) == old(contents(self.col))"]},
   ensures=GONE + [INJ], modifies=["contents(self.col)"])
fn(SS + "pop", cls="ASet", props=["C50"], types={"member": "v"}, raises={"KeyError": "len(seq(self.col)) == 0"},
   requires=[INJ],
   ensures=["old(" + HASV.replace("XX", "result") + ")", "not " + HASV.replace("XX", "result"),
            "forall(lambda x: implies(x is not result, " + HASV.replace("XX", "x") + " == old(" + HASV.replace("XX", "x") + ")))"],
   modifies=["contents(self.col)"])
fn(A + "_AssociationCollection.__len__#set", cls="ASet", props=["C50"], returns="int", ensures=["result == len(seq(self.col))"], modifies=[])
fn(SS + "clear", cls="ASet", props=["C50"], returns="none", ensures=["len(seq(self.col)) == 0", "forall(lambda m: not (m in self.col))"],
   modifies=["contents(self.col)"])
fn(SS + "__bool__", cls="ASet", props=["C50"], returns="bool", ensures=["result == (len(seq(self.col)) != 0)"], modifies=[])
# in-place difference with another set: every value goes through discard()
HV = "any(call(self.getter, m) is x for m in self.col)"
SK = {"NotImplemented": "singleton"}
SCAL = {"collections._set_binops_check_strict": "havoc:bool"}
fn(SS + "__isub__", cls="ASet", props=["C50"], types={"s": "set", "value": "v"}, consts=SK, callees=SCAL,
   requires=[INJ, "s is not self.col"],
   invariant={0: ["forall(lambda x: " + HV + " == (old(" + HV + ") and not (x in prefix(seq(s), _i))))", INJ]},
   loop_modifies={0: ["contents(self.col)"]},
   ensures=["result is self or result is NotImplemented",
            "implies(result is NotImplemented, contents(self.col) == old(contents(self.col)))",
            "implies(result is self, forall(lambda x: " + HV + " == (old(" + HV + ") and not (x in s))))", INJ],
   modifies=["contents(self.col)"])

# in-place union: every value goes through add().  The invariant is stated over MEMBERS (none leaves; one that arrived carries a value
# of the prefix; every value of the prefix is carried) — the equivalence over the view of values, with an existential on both sides,
# has no usable trigger and stayed `unknown`; from the member form the view equivalence of the postcondition follows at loop exit.
fn(SS + "__ior__", cls="ASet", props=["C50"], types={"other": "set", "value": "v"}, consts=SK, callees=SCAL,
   requires=[INJ, "other is not self.col"],
   invariant={0: ["forall(lambda m: implies(old(m in self.col), m in self.col))",
                  "forall(lambda m: implies((m in self.col) and not old(m in self.col), call(self.getter, m) in prefix(seq(other), _i)))",
                  "all(any(call(self.getter, m) is seq(other)[j] for m in self.col) for j in range(_i))", INJ]},
   loop_modifies={0: ["contents(self.col)"]},
   ensures=["result is self or result is NotImplemented",
            "implies(result is NotImplemented, contents(self.col) == old(contents(self.col)))",
            "implies(result is self, forall(lambda x: " + HV + " == (old(" + HV + ") or (x in other))))", INJ],
   modifies=["contents(self.col)"])

# update(*s) / difference_update(*s) with one set argument (`args:set`: the outer loop over the argument tuple is unrolled, the inner
# loop carries the invariant of |= / -=)
fn(SS + "update", cls="ASet", props=["C50"], returns="none", types={"s": "args:set", "iterable": "set", "value": "v"},
   requires=[INJ, "s[0] is not self.col"],
   invariant={1: ["forall(lambda m: implies(old(m in self.col), m in self.col))",
                  "forall(lambda m: implies((m in self.col) and not old(m in self.col), call(self.getter, m) in prefix(seq(iterable), _i)))",
                  "all(any(call(self.getter, m) is seq(iterable)[j] for m in self.col) for j in range(_i))", INJ]},
   loop_modifies={1: ["contents(self.col)"]},
   ensures=["forall(lambda x: " + HV + " == (old(" + HV + ") or (x in s[0])))", INJ],
   modifies=["contents(self.col)"])
fn(SS + "difference_update", cls="ASet", props=["C50"], returns="none", types={"s": "args:set", "other": "set", "value": "v"},
   requires=[INJ, "s[0] is not self.col"],
   invariant={1: ["forall(lambda x: " + HV + " == (old(" + HV + ") and not (x in prefix(seq(other), _i))))", INJ]},
   loop_modifies={1: ["contents(self.col)"]},
   ensures=["forall(lambda x: " + HV + " == (old(" + HV + ") and not (x in s[0])))", INJ],
   modifies=["contents(self.col)"])

# ---- _AssociationDict.get / setdefault: `self[key]` is the call of __getitem__ (its contract)
fn(D + "get", cls="ADict", props=["C50"],
   ensures=["implies(dhas(self.col, __key), result is call(self.getter, dget(self.col, __key)))", "implies(not dhas(self.col, __key), result is default)"],
   modifies=[])
fn(D + "setdefault", cls="ADict", props=["C50"],
   ensures=["dhas(self.col, key)", SAMEKEYS,
            # an existing key keeps its intermediary object and the stored value is returned; a new key gets one carrying the default
            "implies(old(dhas(self.col, key)), dget(self.col, key) is old(dget(self.col, key)) and result is call(self.getter, dget(self.col, key)))",
            "implies(not old(dhas(self.col, key)), call(self.getter, dget(self.col, key)) is default and result is default)"],
   modifies=["contents(self.col)"])
