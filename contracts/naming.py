"""C21 (part): sql/compiler.py name truncation — length bounds, memoisation, which limit applies (DESIGN §5 C21).

Strings are (length, opaque content): len, slicing, concatenation and hex(n)[2:] digit counts are modelled; md5 is an assumed
pure function whose [-4:] slice has 4 characters.
"""
from pyvc.contract import fn, cls

cls("SQLCompilerN", fields={"truncated_names": "dict", "_truncated_counters": "dict", "label_length": "int", "anon_map": "v"},
    rep=["self.truncated_names is not self._truncated_counters"])
T = {"name": "str", "ident_class": "str", "anonname": "str", "truncname": "str", "values:self.truncated_names": "str",
     "values:self._truncated_counters": "int", "counter": "int", "ret:apply_map": "str"}
KEY = "(ident_class, name)"
fn("sql/compiler.py::SQLCompiler._truncated_identifier", cls="SQLCompilerN", props=["C21"], types=T, returns="str",
   callees={"name.apply_map": "pure:apply_map"},
   requires=["self.label_length >= 6",
             # fewer than 16**5 truncated names per identifier class in one statement
             "all(1 <= intof(dget(self._truncated_counters, k)) and intof(dget(self._truncated_counters, k)) < 1048576 for k in keys(self._truncated_counters))",
             "all(len(dget(self.truncated_names, k)) <= self.label_length for k in keys(self.truncated_names))"],
   ensures=["len(result) <= self.label_length",
            # deterministic: a name seen before gets the same answer and nothing changes
            f"implies(old(dhas(self.truncated_names, {KEY})), result is old(dget(self.truncated_names, {KEY})) and keys(self.truncated_names) == old(keys(self.truncated_names)))",
            f"dhas(self.truncated_names, {KEY}) and dget(self.truncated_names, {KEY}) is result",
            # every earlier name keeps its rendering
            f"all(dget(self.truncated_names, k) is old(dget(self.truncated_names, k)) for k in old(keys(self.truncated_names)))",
            # untruncated when it fits; the counter of the class only grows
            f"implies(not old(dhas(self.truncated_names, {KEY})) and len(pure_apply_map(self.anon_map)) <= self.label_length - 6, result is pure_apply_map(self.anon_map))",
            "all(implies(old(dhas(self._truncated_counters, c)), intof(dget(self._truncated_counters, c)) >= old(intof(dget(self._truncated_counters, c)))) for c in keys(self._truncated_counters))"],
   modifies=["contents(self.truncated_names)", "contents(self._truncated_counters)"])

cls("DialectN", fields={"max_index_name_length": "v", "max_constraint_name_length": "v", "max_identifier_length": "int"})
cls("PreparerN", fields={"dialect": "DialectN"})
PT = {"name": "str", "max_": "int", "_alembic_quote": "bool", "ret:md5_hex": "str", "ret:quote": "str"}
fn("sql/compiler.py::IdentifierPreparer._truncate_and_render_maxlen_name", cls="PreparerN", props=["C21"], types=PT, returns="str",
   consts={"elements._truncated_label": "class"},
   callees={"isinstance": "pure:is_trunc_label", "util.md5_hex": "pure:md5_hex", "self.dialect.validate_identifier": "noop", "self.quote": "pure:quote"},
   requires=["max_ >= 8", "not _alembic_quote", "len(pure_md5_hex(name)) == 32"],
   ensures=["implies(truth(pure_is_trunc_label(name, elements._truncated_label)), len(result) <= max_)",
            "implies(len(name) <= max_, result is name)"],
   modifies=[])

# which limit applies: the kind-specific one when the dialect defines it, else max_identifier_length
for _kind in ("index", "constraint"):
    _fld = f"self.dialect.max_{_kind}_name_length"
    fn(f"sql/compiler.py::IdentifierPreparer.truncate_and_render_{_kind}_name", cls="PreparerN", props=["C21"],
       types={"name": "str", "_alembic_quote": "bool", "max_": "v"}, returns="v",
       callees={"self._truncate_and_render_maxlen_name": "pure:render_maxlen"},
       ensures=[f"result is pure_render_maxlen(name, ite(truth({_fld}), {_fld}, self.dialect.max_identifier_length), _alembic_quote)"],
       modifies=[])
