"""C54 (part): util/_collections_cy.py::IdentitySet (pure-Python source).  view = insertion-ordered map id -> object.

rep: every key is the id of its value.  Binary operations are verified for an IdentitySet right operand (the other
argument kinds are in the bounded complement); operators with a non-IdentitySet operand return NotImplemented.
"""
from pyvc.contract import fn, cls

S = "util/_collections_cy.py::IdentitySet."
NAMES = ["__init__", "add", "__contains__", "remove", "discard", "pop", "clear", "__len__", "copy", "update", "union", "__or__", "__ior__",
         "difference", "__sub__", "difference_update", "__isub__", "intersection", "__and__", "intersection_update", "__iand__",
         "symmetric_difference", "__xor__", "symmetric_difference_update", "__ixor__"]
cls("IdentitySet", fields={"_members": "dict"}, truth="len(self._members) != 0",
    rep=["all(idof(dget(self._members, k)) == k for k in keys(self._members))"],
    methods={n: S + n for n in NAMES})
K = "keys(self._members)"
OK = "old(keys(self._members))"
COMMON = dict(cls="IdentitySet", props=["C54"], consts={"IdentitySet": "class"}, callees={"_get_id": "id"})
MOD = ["self._members", "contents(self._members)"]
MODC = ["contents(self._members)"]
VALS_KEPT = "all(dget(self._members, k) is old(dget(self._members, k)) for k in keys(self._members) if old(dhas(self._members, k)))"

fn(S + "__init__", returns="none", assume_rep=False,
   variants=[dict(name="none", requires=["iterable is None"]),
             dict(name="iset", types={"iterable": "IdentitySet"}, ensures=["keys(self._members) == keys(iterable._members)"])],
   ensures=["implies(iterable is None, len(self._members) == 0)", "fresh(self._members)"], modifies=["self._members"], **COMMON)
fn(S + "add", returns="none",
   ensures=["dhas(self._members, id(value)) and dget(self._members, id(value)) is value",
            f"{K} == ite(old(dhas(self._members, id(value))), {OK}, {OK} + [id(value)])", VALS_KEPT.replace(" if old", " if k != id(value) and old")],
   modifies=MODC, **COMMON)
fn(S + "__contains__", returns="bool", ensures=["result == dhas(self._members, id(value))"], modifies=[], **COMMON)
fn(S + "remove", raises={"KeyError": "not dhas(self._members, id(value))"},
   ensures=[f"{K} == {OK}[:index({OK}, id(value))] + {OK}[index({OK}, id(value)) + 1:]", VALS_KEPT], modifies=MODC, **COMMON)
fn(S + "discard", returns="none",
   ensures=[f"implies(old(dhas(self._members, id(value))), {K} == {OK}[:index({OK}, id(value))] + {OK}[index({OK}, id(value)) + 1:])",
            f"implies(not old(dhas(self._members, id(value))), {K} == {OK})", VALS_KEPT], modifies=MODC, **COMMON)
fn(S + "pop", raises={"KeyError": "len(self._members) == 0"},
   ensures=[f"result is old(dget(self._members, keys(self._members)[-1]))", f"{K} == {OK}[:-1]", VALS_KEPT], modifies=MODC, **COMMON)
fn(S + "clear", returns="none", ensures=["len(self._members) == 0"], modifies=MODC, **COMMON)
fn(S + "__len__", returns="int", ensures=["result == len(self._members)"], modifies=[], **COMMON)
fn(S + "copy", returns="IdentitySet", fresh_result=True,
   ensures=[f"keys(result._members) == {K}", "all(dget(result._members, k) is dget(self._members, k) for k in keys(self._members))",
            "result._members is not self._members", f"{K} == {OK}"], modifies=[], **COMMON)

T = {"iterable": "IdentitySet", "other": "IdentitySet"}
OKEYS = "keys(iterable._members)"
UPD_K = f"addall({OK}, old({OKEYS}))"
UPD_V = ("all(dget(self._members, k) is (dget(iterable._members, k) if dhas(iterable._members, k) else old(dget(self._members, k))) "
         "for k in keys(self._members))")
fn(S + "update", types=T, returns="none", requires=["iterable._members is not self._members"],
   ensures=[f"{K} == {UPD_K}", UPD_V], modifies=MODC, **COMMON)


def res(kexpr):
    return [f"keys(result._members) == {kexpr}", f"{K} == {OK}", VALS_KEPT]


UNI = f"addall({K}, {OKEYS})"
DIF = f"filt(lambda k: k not in {OKEYS}, {K})"
INT = f"filt(lambda k: k in {OKEYS}, {K})"
SYM = f"addall(filt(lambda k: k not in {OKEYS}, {K}), filt(lambda k: k not in {K}, {OKEYS}))"
RV_SELF = "all(dget(result._members, k) is dget(self._members, k) for k in keys(result._members) if dhas(self._members, k))"
RV_OTHER = "all(dget(result._members, k) is dget(iterable._members, k) for k in keys(result._members) if not dhas(self._members, k))"
for name, kx in [("union", UNI), ("difference", DIF), ("intersection", INT), ("symmetric_difference", SYM)]:
    fn(S + name, types=T, returns="IdentitySet", fresh_result=True, ensures=res(kx) + ([RV_SELF] if name in ("difference", "intersection") else []),
       modifies=[], **COMMON)


def upd(kexpr):
    # in-place forms: everything is read in the pre-state (the operand may alias self)
    return kexpr.replace(OKEYS, "old(" + OKEYS + ")").replace(K, "@@").replace("@@", OK)


for name, kx in [("difference_update", DIF), ("intersection_update", INT), ("symmetric_difference_update", SYM)]:
    fn(S + name, types=T, returns="none", ensures=[f"{K} == {upd(kx)}"], modifies=MOD, **COMMON)

# operators: IdentitySet operand -> as the method; anything else -> NotImplemented
for op, meth, kx in [("__or__", "union", UNI), ("__sub__", "difference", DIF), ("__and__", "intersection", INT), ("__xor__", "symmetric_difference", SYM)]:
    kx2 = kx.replace("iterable", "other")
    fn(S + op, returns="v",
       variants=[dict(name="iset", types={"other": "IdentitySet"}, ensures=[f"keys(result._members) == {kx2}"]),
                 dict(name="other", types={"other": "list"}, ensures=["result is NotImplemented"])],
       ensures=[f"{K} == {OK}"], modifies=[], types={"result": "IdentitySet"}, **COMMON)
for op, kx in [("__ior__", UPD_K), ("__isub__", upd(DIF)), ("__iand__", upd(INT)), ("__ixor__", upd(SYM))]:
    kx2 = kx.replace("iterable", "other")
    fn(S + op, returns="v",
       # from the property statement: "every in-place update" -> the operator returns self *with the updated view*
       variants=[dict(name="iset", types={"other": "IdentitySet"}, requires=["other._members is not self._members"],
                      ensures=["result is self", f"{K} == {kx2}"]),
                 dict(name="other", types={"other": "list"}, ensures=["result is NotImplemented", f"{K} == {OK}"])],
       modifies=MOD, **COMMON)
