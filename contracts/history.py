"""C36 (part): orm/attributes.py::History.from_scalar_attribute / from_object_attribute (documented conventions; DESIGN §5 C36).

result = (added, unchanged, deleted).  orig = committed_state.get(key, _NO_HISTORY).
"""
from pyvc.contract import fn, cls

cls("HState", fields={"committed_state": "dict"})
cls("HAttr", fields={"key": "v"})
K = {"_NO_HISTORY": "sentinel", "NO_VALUE": "sentinel", "PASSIVE_NO_RESULT": "sentinel", "_NO_STATE_SYMBOLS": ("idset", ["NO_VALUE", "PASSIVE_NO_RESULT"])}
T = {"state": "HState", "attribute": "HAttr", "deleted": "v"}
ORIG = "(dget(state.committed_state, attribute.key) if dhas(state.committed_state, attribute.key) else _NO_HISTORY)"
NOSTATE = "({x} is NO_VALUE or {x} is PASSIVE_NO_RESULT)"
A, U, D = "seq(result[0])", "seq(result[1])", "seq(result[2])"


def common(orig, extra_nodeleted):
    nodel = f"({NOSTATE.format(x=orig)}{extra_nodeleted.format(o=orig)})"
    return [
        # no committed value recorded: nothing changed
        f"implies({orig} is _NO_HISTORY, len({A}) == 0 and len({D}) == 0 and {U} == ite(current is NO_VALUE, [], [current]))",
        # changed: the old value is reported as deleted exactly when it is a real value, the new one as added unless it is NO_VALUE
        f"implies({orig} is not _NO_HISTORY and not UNCH, len({U}) == 0 and {D} == ite({nodel}, [], [{orig}]))",
        # documented convention: a `del` with no previous value is reported as ([None], (), ())
        f"implies({orig} is not _NO_HISTORY and not UNCH and {nodel} and {NOSTATE.format(x='current')}, {A} == [None])",
        f"implies({orig} is not _NO_HISTORY and not UNCH and not ({nodel} and {NOSTATE.format(x='current')}), "
        f"{A} == ite(current is NO_VALUE, [], [current]))",
        # unchanged
        f"implies({orig} is not _NO_HISTORY and UNCH, len({A}) == 0 and len({D}) == 0 and {U} == [current])",
    ]


SC_UNCH = f"(current is not NO_VALUE and call2(attribute, current, {ORIG}) is True)"
fn("orm/attributes.py::History.from_scalar_attribute", props=["C36"], types=T, consts=K, returns="tuple",
   callees={"cls": "tuple", "attribute.is_equal": "pure:is_equal"},
   ensures=[c.replace("UNCH", f"(current is not NO_VALUE and pure_is_equal(current, {ORIG}) is True)") for c in common(ORIG, "")],
   modifies=[], harness=None)

OBJ_ORIG = f"(original if original is not _NO_HISTORY else {ORIG})"
fn("orm/attributes.py::History.from_object_attribute", props=["C36"], types=T, consts=K, returns="tuple",
   callees={"cls": "tuple"},
   ensures=[c.replace("UNCH", f"(current is {OBJ_ORIG} and current is not NO_VALUE)") for c in common(OBJ_ORIG, " or {o} is None")],
   modifies=[], harness=None)
