"""C24 / C26 (kernel): pool/base.py::_finalize_fairy — what happens when a checkout ends (explicit close, or the garbage
collector finding an un-returned _ConnectionFairy), sync dialects.

Proved for the non-detached case (the connection goes back to the pool):
  * the reset runs (`_ConnectionFairy._reset` contract, C24): with reset_on_return=rollback/commit no transaction is left open;
  * if the reset (or anything around it) fails with an Exception, the record is invalidated -- its connection is closed and
    dropped, never returned to the pool in an unknown state -- and the error is swallowed;
  * in both cases the record is checked in exactly once (`_ConnectionRecord.checkin`, C26): pool.returned grows by one and
    fairy_ref is cleared, so the pool's checked-out count goes down;
  * a stale weakref callback (the record has been checked out again since) does nothing.
Not claimed: exceptional exits.  A BaseException that is not an Exception out of the reset is re-raised BEFORE the check-in, so
the record stays checked out (recorded as a C26 finding by the bounded complement, known_findings.d/C26.json).
DESIGN §5 C24, C26.
"""
import contracts.pool_reset  # noqa: F401
import contracts.pool_record  # noqa: F401
from pyvc.contract import fn, cls, CLASSES

cls("DBConnU", fields={"txn_open": "bool", "iso_level": "v", "closed": "bool"})
# the two connection models of C24 (transaction / isolation ghost state) and C26 (closed flag) describe the same objects
CLASSES["DBConn"].fields.update({"txn_open": "bool", "iso_level": "v"})
CLASSES["DBAPIConn"].fields.update({"closed": "bool"})
cls("DispU", fields={"close_detached": "v", "reset": "v", "checkin": "v"})
cls("PoolU", fields={"_dialect": "DialectObj", "dispatch": "DispU", "logger": "v", "returned": "int", "_reset_on_return": "v"},
    methods={"_close_connection": "pool/base.py::Pool._close_connection"})
CLASSES["DialectObj"].fields.update({"is_async": "bool", "has_terminate": "bool"})
F = "pool/base.py::_ConnectionFairy."
CLASSES["Fairy"].fields.update({"_pool": "v", "_counter": "int"})
CLASSES["Fairy"].methods = dict(CLASSES["Fairy"].methods or {}, __init__=F + "__init__", _reset=F + "_reset", detach=F + "detach@ghost")
fn(F + "__init__", cls="Fairy", props=["C24"], returns="none",
   ensures=["self._pool is pool", "self.dbapi_connection is dbapi_connection", "self._connection_record is connection_record", "self._counter == 0"],
   modifies=["self._pool", "self._counter", "self.dbapi_connection", "self._connection_record", "self._echo"])
fn(F + "detach@ghost", abstract=True, cls="Fairy", params=["self"], returns="none", modifies=["*"], notes="detach(): only on the detached path, not under proof")

REC = "connection_record"
CONN = "connection_record.dbapi_connection"
T = {"dbapi_connection": "opt:DBConnU", "connection_record": "opt:CRecord", "pool": "PoolU", "ref": "v", "echo": "v",
     "transaction_was_reset": "bool", "fairy": "opt:Fairy", "_strong_ref_connection_records": "dict", "is_gc_cleanup": "bool",
     "dont_restore_gced": "bool", "detach": "bool", "can_manipulate_connection": "bool", "can_close_or_terminate_connection": "bool",
     "requires_terminate_for_close": "bool", "message": "v", "e": "v", "expr:connection_record.dbapi_connection": "opt:DBConnU",
     "expr:old(connection_record.dbapi_connection)": "opt:DBConnU"}
CAL = {"weakref.ref": "havoc:v", "pool.logger.debug": "noop", "pool.logger.error": "noop", "util.warn": "noop", "isinstance": "pure:isinstance_dyn",
       "pool.dispatch.close_detached": "noop", "_ConnectionFairy": "construct:Fairy"}
SENT = {"reset_rollback": "sentinel", "reset_commit": "sentinel", "reset_none": "sentinel", "Exception": "sentinel"}
fn("pool/base.py::_finalize_fairy", props=["C24", "C26"], types=T, callees=CAL, consts=SENT, returns="none",
   requires=["not pool._dialect.is_async", "connection_record is not None", "connection_record.__pool is pool",
             # called directly (ref is None) with the fairy's connection, or by the gc with a ref and no connection
             "implies(ref is None, dbapi_connection is connection_record.dbapi_connection)",
             "implies(ref is not None, dbapi_connection is None and fairy is None and not transaction_was_reset)",
             "implies(fairy is not None, fairy.dbapi_connection is dbapi_connection and fairy._connection_record is connection_record)",
             "implies(transaction_was_reset, dbapi_connection is None or not dbapi_connection.txn_open)",
             "implies(connection_record.dbapi_connection is not None, not connection_record.dbapi_connection.closed)"],
   ensures=[
       # a stale gc callback does nothing
       "implies(ref is not None and old(connection_record.fairy_ref) is not ref, pool.returned == old(pool.returned) and connection_record.fairy_ref is old(connection_record.fairy_ref))",
       # otherwise: checked in exactly once when it was checked out
       "implies((ref is None or old(connection_record.fairy_ref) is ref) and old(connection_record.fairy_ref) is not None, "
       "pool.returned == old(pool.returned) + 1 and connection_record.fairy_ref is None)",
       # the connection that stays in the record has been reset: no transaction left open with rollback / commit on return
       "implies((ref is None or old(connection_record.fairy_ref) is ref) and connection_record.dbapi_connection is not None and "
       "(pool._reset_on_return is reset_rollback or pool._reset_on_return is reset_commit), not connection_record.dbapi_connection.txn_open)",
       # whatever is not kept has been closed
       "implies(old(connection_record.dbapi_connection) is not None and connection_record.dbapi_connection is not old(connection_record.dbapi_connection), "
       "old(connection_record.dbapi_connection).closed)"],
   may_raise={"BaseException": "True"},
   modifies=["*"])
