"""C26 (kernel): pool/base.py::_ConnectionFairy._checkout — the checkout with pre-ping / checkout-event retry loop.

Proved:
  * what is handed out: a fairy whose DBAPI connection is the record's, is there, and is not closed; a connection on which a
    disconnect was detected (failed pre-ping, DisconnectionError from a checkout listener) has been invalidated (closed and
    dropped) and replaced through get_connection() -- it is never handed out;
  * no record is handed back to the pool on the successful path (pool.returned unchanged).
Not stated as a postcondition: the failing paths (reconnect fails, a listener raises anything else, attempts exhausted) all go
through `_checkin_failed` (its own contract: the record is emptied and handed back once) before the error propagates.
Ghost `_g_dead` on a DBAPI connection: set by the assumed contracts of the pre-ping (returns False) and of a checkout listener
(raises DisconnectionError); new connections from the creator are not dead.
Quick tier: first checkout of a new fairy (fairy=None); DESIGN §5 C26.
"""
import contracts.pool_record  # noqa: F401
import contracts.finalize_fairy  # noqa: F401
from pyvc.contract import fn, cls, CLASSES

F = "pool/base.py::_ConnectionFairy."
cls("DisconnErr", fields={"invalidate_pool": "bool"})
cls("DispC", fields={"checkout": "v"}, methods={"checkout": "pool/events.py::PoolEvents.checkout@listener"})
cls("DialectC", fields={}, methods={"_do_ping_w_event": "engine/default.py::DefaultDialect._do_ping_w_event@ghost"})
cls("PoolC", fields={"dispatch": "DispC", "_pre_ping": "bool", "_dialect": "DialectC", "logger": "v", "returned": "int", "_invalidate_time": "int", "_recycle": "int"},
    methods={"_invalidate": "pool/base.py::Pool._invalidate@nocheckin"})
CLASSES["Fairy"].fields.update({"_connection_record": "opt:CRecord", "dbapi_connection": "opt:DBConn"})
CLASSES["Fairy"].methods.update({"invalidate": F + "invalidate@ghost"})
fn("pool/events.py::PoolEvents.checkout@listener", abstract=True, cls="DispC", params=["self", "dbapi_connection", "record", "fairy"], returns="none",
   types={"dbapi_connection": "DBConn"}, modifies=["dbapi_connection._g_dead"], ensures=["dbapi_connection._g_dead == old(dbapi_connection._g_dead)"],
   may_raise={"DisconnectionError": "True", "BaseException": "True"},
   exc_ensures={"DisconnectionError": ["dbapi_connection._g_dead"], "BaseException": ["implies(not dbapi_connection._g_dead, not old(dbapi_connection._g_dead))"]},
   notes="user checkout listeners: may raise DisconnectionError (ghost: the connection is marked dead; retry) or anything else")
fn("engine/default.py::DefaultDialect._do_ping_w_event@ghost", abstract=True, cls="DialectC", params=["self", "dbapi_connection"], returns="bool",
   types={"dbapi_connection": "DBConn"}, modifies=["dbapi_connection._g_dead"],
   ensures=["implies(result, dbapi_connection._g_dead == old(dbapi_connection._g_dead))", "implies(not result, dbapi_connection._g_dead)"],
   may_raise={"BaseException": "True"}, notes="pre-ping: True / False (ghost: the connection is marked dead) / raises")
fn("pool/base.py::Pool._invalidate@nocheckin", abstract=True, cls="PoolC", params=["self", "connection", "exception", "_checkin"], returns="none", types={"_checkin": "bool"},
   requires=["not _checkin"], modifies=["self._invalidate_time"], notes="Pool._invalidate(.., _checkin=False): moves the pool-wide invalidation time forward only")
fn(F + "invalidate@ghost", abstract=True, cls="Fairy", params=["self"], returns="none", modifies=["*"], notes="fairy.invalidate() on the exhausted path")

REC = "result._connection_record"
T = {"pool": "PoolC", "threadconns": "v", "fairy": "opt:Fairy", "attempts": "int", "connection_is_fresh": "bool", "result": "v",
     "e": "DisconnErr", "err": "v", "be_outer": "v", "rec": "opt:CRecord", "expr:fairy._connection_record": "opt:CRecord",
     ".invalidate_pool": "bool"}
fn(F + "_checkout", props=["C26"], types=T, returns="Fairy", consts={"exc.DisconnectionError": "class"},
   callees={"_ConnectionRecord.checkout": dict(fn="pool/base.py::_ConnectionRecord.checkout", args=["None", "$0"]),
            "weakref.ref": "havoc:v", "pool.logger.debug": "noop", "pool.logger.info": "noop",
            "pool.dispatch.checkout": dict(fn="pool/events.py::PoolEvents.checkout@listener", recv="pool.dispatch", args=["$0", "$1", "$2"]),
            "pool._dialect._do_ping_w_event": dict(fn="engine/default.py::DefaultDialect._do_ping_w_event@ghost", recv="pool._dialect", args=["$0"]),
            "pool._invalidate": dict(fn="pool/base.py::Pool._invalidate@nocheckin", recv="pool", args=["$0", "$1", "$kw:_checkin"])},
   requires=["fairy is None", "threadconns is None"],
   invariant={0: ["fairy is not None and fairy._connection_record is not None and fairy._connection_record.__pool is pool",
                  "fairy.dbapi_connection is fairy._connection_record.dbapi_connection and fairy.dbapi_connection is not None and not fairy.dbapi_connection.closed",
                  "not fairy.dbapi_connection._g_dead",
                  "fresh(fairy)", "pool.returned == old(pool.returned)",
                  "fairy._connection_record.fairy_ref is not None", "0 <= attempts and attempts <= 2"]},
   loop_modifies={0: ["any.dbapi_connection", "any.closed", "any.fresh", "any.starttime", "any._soft_invalidate_time", "any._invalidate_time",
                      "any.contents", "any.fairy_ref", "any.returned", "any._g_dead"]},
   ensures=["result is not None", f"{REC} is not None", f"result.dbapi_connection is {REC}.dbapi_connection",
            "result.dbapi_connection is not None and not result.dbapi_connection.closed",
            # a connection on which a disconnect was detected (failed pre-ping, DisconnectionError from a listener) is never handed out
            "not result.dbapi_connection._g_dead",
            # nothing was handed back to the pool on the way
            "pool.returned == old(pool.returned)"],
   may_raise={"BaseException": "True"},
   modifies=["*"])

# ---- _ConnectionRecord.checkout itself, proved; `_checkout` above is verified against THIS contract (an earlier assumed summary, which
# also called the pooled record "fresh", is gone).  The only thing taken from the pool
# implementation is `_do_get` (QueuePool._do_get etc.: proved under C25 in their own vocabulary): it yields a record of this pool
# that no fairy refers to, whose connection -- if it still has one -- is open and has no detected disconnect.
cls("WRef", fields={})        # a weakref.ref object (never None)
CLASSES["PoolC"].methods.update({"_do_get": "pool/base.py::Pool._do_get@rec"})
CLASSES["PoolC"].fields.update({"_g_got": "seqv"})
fn("pool/base.py::Pool._do_get@rec", abstract=True, cls="PoolC", params=["self"], returns="CRecord", modifies=["self._g_got"],
   ensures=["result is not None", "result.__pool is self", "result.fairy_ref is None",
            "implies(result.dbapi_connection is not None, not result.dbapi_connection.closed and not result.dbapi_connection._g_dead)",
            "self._g_got == old(self._g_got) + [result]"],
   may_raise={"BaseException": "True"}, exc_ensures={"BaseException": ["self._g_got == old(self._g_got)"]},
   notes="pool implementation's _do_get(): a record of this pool that is not checked out (ghost log of records taken), or raises with none taken")
fn("pool/base.py::Pool._should_log_debug@any", abstract=True, cls="PoolC", params=["self"], returns="bool", modifies=[])
CLASSES["PoolC"].methods.update({"_should_log_debug": "pool/base.py::Pool._should_log_debug@any"})
RC = "result._connection_record"
fn("pool/base.py::_ConnectionRecord.checkout", props=["C26"], returns="Fairy",
   types={"pool": "PoolC", "rec": "CRecord", "dbapi_connection": "DBConn", "err": "v", "echo": "bool", "fairy": "Fairy", "ref": "v",
          "_strong_ref_connection_records": "dict", "expr:pool._g_got[j]": "CRecord"},
   consts={"TYPE_CHECKING": ("bool", False), "_finalize_fairy": "class"},
   callees={"weakref.ref": "newobj:WRef", "pool.logger.debug": "noop", "_ConnectionFairy": "construct:Fairy", "cast": "identity",
            "_finalize_fairy": "noop"},     # only named inside the weakref callback (a lambda that is created here, not run)
   ensures=["result is not None and fresh(result)", RC + " is not None", RC + ".__pool is pool", "result.dbapi_connection is " + RC + ".dbapi_connection", "result.dbapi_connection is not None",
            "not result.dbapi_connection.closed", "not result.dbapi_connection._g_dead", "result._counter == 0", RC + ".fairy_ref is not None",
            # exactly one record was taken from the pool, and it is the one the fairy wraps; it is not handed back
            "pool._g_got == old(pool._g_got) + [" + RC + "]", "pool.returned == old(pool.returned)"],
   may_raise={"BaseException": "True"},
   # a failed checkout keeps nothing: either no record was taken, or the one taken has no connection any more (closed) and no fairy
   exc_ensures={"BaseException": ["len(pool._g_got) <= old(len(pool._g_got)) + 1", "pool._g_got[:old(len(pool._g_got))] == old(pool._g_got)",
                                  "all(pool._g_got[j].dbapi_connection is None for j in range(old(len(pool._g_got)), len(pool._g_got)))",
                                  # a record that was taken is handed to _checkin_failed (its contract: emptied and returned to the pool once)
                                  "implies(len(pool._g_got) > old(len(pool._g_got)), attempted('rec._checkin_failed'))"]},
   modifies=["*"])
