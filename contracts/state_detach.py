"""C35 (transition kernel): orm/state.py::InstanceState._detach_states — leaving the session.

Every state handed to _detach_states (Session.expunge / close / expunge_all, rollback of new objects) leaves the session:
    persistent --> detached   (event persistent_to_detached)         or --> transient with to_transient (persistent_to_transient)
    deleted    --> detached   (event deleted_to_detached)
    pending    --> transient  (event pending_to_transient)
Proved: afterwards no state is attached, keys are dropped exactly when to_transient asks for it, and the events fired account
exactly for the transitions taken (one event per state whose transition has a listener, named after the state it was in; the
ghost log starts empty and ends duplicate free).  Case left out: a flushed-deleted object rolled back to transient
(to_transient with _deleted) -- the documented automaton has no such edge; see the bounded complement's known findings.
DESIGN §5 C35.
"""
from pyvc.contract import fn, cls

cls("IStateL", fields={"key": "v", "_deleted": "bool", "session_id": "v", "_strong_obj": "v"}, class_defaults={"key": None})
cls("DispL", fields={"persistent_to_detached": "v", "deleted_to_detached": "v", "pending_to_transient": "v", "persistent_to_transient": "v"})
cls("SessL", fields={"dispatch": "DispL", "_g_ev": "seqv"})
for name in ("persistent_to_detached", "deleted_to_detached", "pending_to_transient", "persistent_to_transient"):
    fn("orm/events.py::SessionEvents." + name + "@log", abstract=True, params=["session", "state"], types={"session": "SessL"}, returns="none",
       modifies=["session._g_ev"], ensures=["session._g_ev == old(session._g_ev) + [pair('" + name + "', state)]"],
       notes="lifecycle event hook (ghost: logged)")

PERS = "(old(z[1].key) is not None and not old(z[1]._deleted))"
DEL = "old(z[1]._deleted)"
PEND = "(old(z[1].key) is None and not old(z[1]._deleted))"


def ACC(member):
    def alt(tag, cond, listener):
        return f"(z is pair('{tag}', z[1]) and {member} and {cond} and truth(session.dispatch.{listener}))"
    return ["no_dups(session._g_ev)",
            "forall(lambda z: (z in session._g_ev) == (" + " or ".join([
                alt("persistent_to_detached", PERS + " and not to_transient", "persistent_to_detached"),
                alt("persistent_to_transient", PERS + " and to_transient", "persistent_to_transient"),
                alt("deleted_to_detached", DEL, "deleted_to_detached"),
                alt("pending_to_transient", PEND, "pending_to_transient")]) + "))"]


T = {"states": "seq", "elems:states": "IStateL", "state": "IStateL", "session": "SessL", "to_transient": "bool", "expr:states[j]": "IStateL",
     "persistent_to_detached": "v", "deleted_to_detached": "v", "pending_to_transient": "v", "persistent_to_transient": "v",
     "z": "tupleval", "expr:z[1]": "IStateL", "deleted": "bool", "pending": "bool", "persistent": "bool"}
CAL = {n: dict(fn="orm/events.py::SessionEvents." + n + "@log", args=["$0", "$1"])
       for n in ("persistent_to_detached", "deleted_to_detached", "pending_to_transient", "persistent_to_transient")}
fn("orm/state.py::InstanceState._detach_states#lifecycle", props=["C35"], types=T, callees=CAL, returns="none",
   requires=["no_dups(states)", "all(isinst(states[j], IStateL) and states[j] is not None for j in range(len(states)))",
             "len(session._g_ev) == 0",
             # an identity key is None or a (non-empty, hence truthy) tuple
             "all(states[j].key is None or truth(states[j].key) for j in range(len(states)))",
             # the pending/deleted encodings are exclusive (a deleted object has a key); the rollback-of-a-flushed-delete case is left out
             "all(implies(states[j]._deleted, states[j].key is not None and not to_transient) for j in range(len(states)))"],
   invariant={0: ["all(states[j].session_id is None and states[j]._strong_obj is None for j in range(_i))",
                  "all(states[j].key is ite(to_transient, None, old(states[j].key)) for j in range(_i))",
                  "all(states[j].key is old(states[j].key) and states[j]._deleted == old(states[j]._deleted) for j in range(_i, len(states)))",
                  "all(states[j]._deleted == old(states[j]._deleted) for j in range(len(states)))"]
                 + ACC("z[1] in prefix(states, _i)")},
   loop_modifies={0: ["each(states).session_id", "each(states)._strong_obj", "each(states).key", "session._g_ev"]},
   ensures=["all(states[j].session_id is None and states[j]._strong_obj is None for j in range(len(states)))",
            # detached keeps its identity key, transient has none
            "all(states[j].key is ite(to_transient, None, old(states[j].key)) for j in range(len(states)))"] + ACC("z[1] in states"),
   modifies=["each(states).session_id", "each(states)._strong_obj", "each(states).key", "session._g_ev"])

# ---- entering the session: Session._after_attach -- transient -> pending (no key) or detached -> persistent (has a key)
cls("DispA", fields={})
cls("SessA", fields={"hash_key": "v", "dispatch": "v", "_g_ev": "seqv"})
for name in ("after_attach", "detached_to_persistent", "transient_to_pending"):
    fn("orm/events.py::SessionEvents." + name + "@logA", abstract=True, params=["session", "state"], types={"session": "SessA"}, returns="none",
       modifies=["session._g_ev"], ensures=["session._g_ev == old(session._g_ev) + [pair('" + name + "', state)]"])
fn("orm/session.py::Session._after_attach#lifecycle", cls="SessA", props=["C35"], types={"state": "IStateL", "obj": "v"}, returns="none",
   callees={"self.dispatch." + n: dict(fn="orm/events.py::SessionEvents." + n + "@logA", args=["$0", "$1"])
            for n in ("after_attach", "detached_to_persistent", "transient_to_pending")},
   requires=["truth(self.hash_key)", "state.key is None or truth(state.key)", "obj is not None"],
   ensures=["state.session_id is self.hash_key", "state.key is old(state.key)",
            # the transition is named after the state the object was in: no identity key -> it was transient and is pending now;
            # an identity key -> it was detached and is persistent now
            "self._g_ev == old(self._g_ev) + [pair('after_attach', state)] + "
            "[ite(state.key is None, pair('transient_to_pending', state), pair('detached_to_persistent', state))]"],
   modifies=["state.session_id", "state._strong_obj", "self._g_ev"])
import pyvc.contract as _pc  # noqa: E402
_pc.CLASSES["IStateL"].fields["modified"] = "bool"

# ---- Session._before_attach / _save_impl: who may enter, and how a new object becomes pending
_pc.CLASSES["SessA"].fields.update({"_new": "dict", "_g_autobegun": "bool"})
_pc.CLASSES["SessA"].methods = {"_before_attach": "orm/session.py::Session._before_attach", "_after_attach": "orm/session.py::Session._after_attach#lifecycle",
                                "_autobegin_t": "orm/session.py::Session._autobegin_t@a"}
fn("orm/session.py::Session._autobegin_t@a", abstract=True, cls="SessA", params=["self"], returns="v", modifies=["self._g_autobegun"],
   may_raise={"Exception": "True"}, notes="begins the session transaction; may raise (autobegin disabled)")
fn("orm/session.py::Session._before_attach", cls="SessA", props=["C35"], returns="bool",
   types={"state": "IStateL", "obj": "v", "_sessions": "dict"}, consts={"sa_exc.InvalidRequestError": "class"},
   callees={"self.dispatch.before_attach": "noop", "state_str": "havoc:v"},
   # an object that belongs to ANOTHER live session cannot be attached here (one session at a time)
   raises={"InvalidRequestError": "state.session_id != self.hash_key and truth(state.session_id) and state.session_id in keys(_sessions)"},
   may_raise={"Exception": "True"},
   ensures=["result == (state.session_id != self.hash_key)", "state.session_id is old(state.session_id)"],
   modifies=["self._g_autobegun"])
