"""C28 (part): class-level listener collections, event/attr.py::_ClsLevelDispatch.update_subclass (DESIGN §5 C28).

view: _clslevel : class -> deque of listener functions.  After update_subclass(T) the collection of T holds, after what it
already held, every listener of every class of T.__mro__[1:] that has a collection ("inherited listeners fire").
"""
from pyvc.contract import fn, cls

cls("Klass", fields={"__mro__": "seq"})
cls("_ClsLevelDispatch", fields={"_clslevel": "dict"},
    # distinct classes have distinct collections
    rep=["forall(lambda a, b: implies(dhas(self._clslevel, a) and dhas(self._clslevel, b) and a is not b, dget(self._clslevel, a) is not dget(self._clslevel, b)))"],
    methods={"update_subclass": "event/attr.py::_ClsLevelDispatch.update_subclass"})

D = "dget(self._clslevel, target)"
MRO = "target.__mro__[1:]"
T = {"target": "Klass", "values:self._clslevel": "deque", "clslevel": "deque", "elems:target.__mro__[1:]": "Klass", "cls": "Klass"}
ANC_DONE = ("all(all(f in contents({D}) for f in contents(dget(self._clslevel, {MRO}[j]))) for j in range({N}) if dhas(self._clslevel, {MRO}[j]))")
OTHERS = ("forall(lambda q: implies(q is not target, dhas(self._clslevel, q) == old(dhas(self._clslevel, q)) and "
          "implies(dhas(self._clslevel, q), dget(self._clslevel, q) is old(dget(self._clslevel, q)) and "
          "contents(dget(self._clslevel, q)) == old(contents(dget(self._clslevel, q))))))")
PREFIX = f"implies(old(dhas(self._clslevel, target)), {D} is old({D}) and contents({D})[:old(len({D}))] == old(contents({D})))"
SOUND = (f"all(implies(not (old(dhas(self._clslevel, target)) and f in old(contents({D}))), "
         f"any(dhas(self._clslevel, c) and f in contents(dget(self._clslevel, c)) for c in {MRO})) for f in contents({D}))")

fn("event/attr.py::_ClsLevelDispatch.update_subclass", cls="_ClsLevelDispatch", props=["C28"], returns="none", types=T,
   callees={"collections.deque": "newdeque"},
   requires=["truth(getattr(target, '_sa_propagate_class_events', True))",     # ordinary event targets
             f"all(c is not target for c in {MRO})"],
   invariant={0: [f"dhas(self._clslevel, target) and clslevel is {D}",
                  ANC_DONE.format(D=D, MRO=MRO, N="_i"), OTHERS, PREFIX, SOUND,
                  "forall(lambda a, b: implies(dhas(self._clslevel, a) and dhas(self._clslevel, b) and a is not b, dget(self._clslevel, a) is not dget(self._clslevel, b)))"]},
   ensures=["dhas(self._clslevel, target)",
            # every listener of every ancestor that has a collection is in the target's collection
            ANC_DONE.format(D=D, MRO=MRO, N=f"len({MRO})"),
            OTHERS, PREFIX, SOUND],
   modifies=["contents(self._clslevel)", f"contents({D})"], harness="events.update_subclass")

# ---- _ClsLevelDispatch.remove: the listener leaves the collection of the target and of every subclass that has one
W = "pure_walk_subclasses(event_key.dispatch_target)"
REP2 = "forall(lambda a, b: implies(dhas(self._clslevel, a) and dhas(self._clslevel, b) and a is not b, dget(self._clslevel, a) is not dget(self._clslevel, b)))"
cls("EKeyC", fields={"_listen_fn": "v", "dispatch_target": "Klass"})
WJ = W + "[j]"
CJ = "dget(self._clslevel, " + WJ + ")"
FN_ = "event_key._listen_fn"
CUT = "old(contents(CJ))[:index(old(contents(CJ)), FN_)] + old(contents(CJ))[index(old(contents(CJ)), FN_) + 1:]".replace("CJ", CJ).replace("FN_", FN_)
fn("event/attr.py::_ClsLevelDispatch.remove", cls="_ClsLevelDispatch", props=["C28"], returns="none",
   types={"event_key": "EKeyC", "target": "Klass", "cls": "Klass", "ret:walk_subclasses": "tupleval", "elems:util.walk_subclasses(target)": "Klass",
          "expr:" + WJ: "Klass", "values:self._clslevel": "deque"},
   callees={"util.walk_subclasses": "pure:walk_subclasses", "registry._removed_from_collection": "noop"},
   requires=[REP2, "no_dups(" + W + ")",
             # registered on every class of the walk that has a collection (what _do_insert_or_append / update_subclass establish)
             "all(implies(dhas(self._clslevel, WJ), FN_ in contents(CJ)) for j in range(len(W)))".replace("WJ", WJ).replace("CJ", CJ).replace("FN_", FN_).replace("W)", W + ")")],
   invariant={0: ["all(implies(dhas(self._clslevel, WJ), contents(CJ) == CUT) for j in range(_i))".replace("WJ", WJ).replace("CUT", CUT).replace("CJ", CJ),
                  "all(implies(dhas(self._clslevel, WJ), contents(CJ) == old(contents(CJ))) for j in range(_i, len(W)))".replace("WJ", WJ).replace("CJ", CJ).replace("W)", W + ")"),
                  "forall(lambda q: implies(dhas(self._clslevel, q) and not (q in " + W + "), contents(dget(self._clslevel, q)) == old(contents(dget(self._clslevel, q)))))",
                  "keys(self._clslevel) == old(keys(self._clslevel))", "forall(lambda q: dget(self._clslevel, q) is old(dget(self._clslevel, q)))"]},
   loop_modifies={0: ["any.contents"]},
   ensures=["all(implies(dhas(self._clslevel, WJ), contents(CJ) == CUT) for j in range(len(W)))".replace("WJ", WJ).replace("CUT", CUT).replace("CJ", CJ).replace("W)", W + ")"),
            # no other class's collection is touched
            "forall(lambda q: implies(dhas(self._clslevel, q) and not (q in " + W + "), contents(dget(self._clslevel, q)) == old(contents(dget(self._clslevel, q)))))",
            "keys(self._clslevel) == old(keys(self._clslevel))"],
   modifies=["any.contents"])
