"""C25: QueuePool limits and the util.queue.Queue representation invariant (sequential + monitor reading, DESIGN §2.6, §5 C25).

Ghost field `slots` of the pool = number of _ConnectionRecords in circulation (created by _create_connection and not
retired on the Full path).  The carried invariant is   slots == _pool.maxsize + _overflow   which, with the monitor
invariant  _max_overflow == -1 or _overflow <= _max_overflow,  gives   slots <= pool_size + max_overflow.
"""
from pyvc.contract import fn, cls

Q = "util/queue.py::Queue."
cls("Queue", fields={"maxsize": "int", "queue": "deque", "use_lifo": "bool", "mutex": "v", "not_empty": "v", "not_full": "v"},
    rep=["self.maxsize <= 0 or len(self.queue) <= self.maxsize"],
    methods={n: Q + n for n in ["_qsize", "_empty", "_full", "_put", "_get", "put", "get", "qsize"]})

fn(Q + "_qsize", cls="Queue", props=["C25"], returns="int", ensures=["result == len(self.queue)"], modifies=[])
fn(Q + "_empty", cls="Queue", props=["C25"], returns="bool", ensures=["result == (len(self.queue) == 0)"], modifies=[])
fn(Q + "_full", cls="Queue", props=["C25"], returns="bool",
   ensures=["result == (self.maxsize > 0 and len(self.queue) == self.maxsize)"], modifies=[])
fn(Q + "_put", cls="Queue", props=["C25"], returns="none",
   requires=["self.maxsize <= 0 or len(self.queue) < self.maxsize"],
   ensures=["contents(self.queue) == old(contents(self.queue)) + [item]"], modifies=["contents(self.queue)"])
fn(Q + "_get", cls="Queue", props=["C25"],
   requires=["len(self.queue) > 0"],
   ensures=["implies(self.use_lifo, result is old(contents(self.queue))[-1] and contents(self.queue) == old(contents(self.queue))[:-1])",
            "implies(not self.use_lifo, result is old(contents(self.queue))[0] and contents(self.queue) == old(contents(self.queue))[1:])"],
   modifies=["contents(self.queue)"])
fn(Q + "qsize", cls="Queue", props=["C25"], returns="int", ensures=["result == len(self.queue)"], modifies=[])

# Condition.wait(): other threads may change the queue while the lock is released; on return the monitor (rep) invariant holds
fn(Q + "__wait__", abstract=True, cls="Queue", params=["self"], returns="none", modifies=["contents(self.queue)"], ensures=[],
   notes="Condition.wait: releases the monitor; any other thread may have put/got; the representation invariant holds on return")

fn(Q + "put", cls="Queue", props=["C25"], returns="none",
   types={"block": "bool", "timeout": "v", "remaining": "int", "endtime": "int"},
   variants=[dict(name="nonblocking", requires=["not block"], raises={"Full": "self.maxsize > 0 and len(self.queue) == self.maxsize"}),
             dict(name="blocking-no-timeout", requires=["block", "timeout is None"]),
             dict(name="blocking-timeout", requires=["block", "timeout is not None"], types={"timeout": "int"},
                  may_raise={"Full": "True", "ValueError": "timeout < 0"})],
   callees={"self.not_full.wait": dict(fn=Q + "__wait__", recv="self", args=[]), "self.not_empty.notify": "noop", "_time": "havoc:int"},
   ensures=["len(self.queue) > 0 and contents(self.queue)[-1] is item",
            "implies(not block, contents(self.queue) == old(contents(self.queue)) + [item])"],
   modifies=["contents(self.queue)"])
fn(Q + "get", cls="Queue", props=["C25"],
   types={"block": "bool", "timeout": "v", "remaining": "int", "endtime": "int"},
   variants=[dict(name="nonblocking", requires=["not block"], raises={"Empty": "len(self.queue) == 0"}),
             dict(name="blocking-no-timeout", requires=["block", "timeout is None"]),
             dict(name="blocking-timeout", requires=["block", "timeout is not None"], types={"timeout": "int"},
                  may_raise={"Empty": "True", "ValueError": "timeout < 0"})],
   callees={"self.not_empty.wait": dict(fn=Q + "__wait__", recv="self", args=[]), "self.not_full.notify": "noop", "_time": "havoc:int"},
   ensures=["implies(not block, ite(self.use_lifo, result is old(contents(self.queue))[-1] and contents(self.queue) == old(contents(self.queue))[:-1],"
            " result is old(contents(self.queue))[0] and contents(self.queue) == old(contents(self.queue))[1:]))"],
   modifies=["contents(self.queue)"])
# callers see the union of the variants' exceptional behaviour
from pyvc.contract import FUNCS as _F
_F[Q + "put"].raises = {"Full": "not block and self.maxsize > 0 and len(self.queue) == self.maxsize"}
_F[Q + "put"].may_raise = {"Full@timeout": "block and timeout is not None"}
_F[Q + "get"].raises = {"Empty": "not block and len(self.queue) == 0"}
_F[Q + "get"].may_raise = {"Empty@timeout": "block and timeout is not None"}

# ------------------------------------------------------------------ QueuePool
P = "pool/impl.py::QueuePool."
cls("QueuePool", fields={"_overflow": "int", "_max_overflow": "int", "_pool": "Queue", "_timeout": "v", "_overflow_lock": "v", "slots": "int"},
    rep=["self._max_overflow == -1 or self._overflow <= self._max_overflow"],
    methods={n: P + n for n in ["_inc_overflow", "_dec_overflow", "_do_get", "_do_return_conn", "checkedout", "overflow", "checkedin", "size"]})
cls("_ConnectionRecord", fields={})

fn(P + "_inc_overflow", cls="QueuePool", props=["C25"], returns="bool",
   ensures=["(result and self._overflow == old(self._overflow) + 1 and (self._max_overflow == -1 or old(self._overflow) < self._max_overflow))"
            " or (not result and self._overflow == old(self._overflow))"],
   modifies=["self._overflow"])
fn(P + "_dec_overflow", cls="QueuePool", props=["C25"], returns="bool",
   ensures=["result", "self._overflow == old(self._overflow) - 1"], modifies=["self._overflow"])
fn(P + "checkedout", cls="QueuePool", props=["C25"], returns="int",
   callees={"self._pool.qsize": Q + "qsize"},
   ensures=["result == self._pool.maxsize - len(self._pool.queue) + self._overflow"], modifies=[])
fn(P + "checkedin", cls="QueuePool", props=["C25"], returns="int", callees={"self._pool.qsize": Q + "qsize"},
   ensures=["result == len(self._pool.queue)"], modifies=[])

# externals of the pool layer (assumed contracts, listed in evidence)
fn("pool/base.py::Pool._create_connection", abstract=True, cls="QueuePool", params=["self"], returns="_ConnectionRecord", fresh_result=True,
   modifies=["self.slots"], ensures=["self.slots == old(self.slots) + 1"],
   may_raise={"Exception": "True"},
   notes="creates one _ConnectionRecord (ghost: slots+1) or raises with nothing created")
fn("pool/base.py::_ConnectionRecord.close", abstract=True, cls="_ConnectionRecord", params=["self", "pool"], returns="none",
   modifies=["pool.slots"], ensures=["pool.slots == old(pool.slots) - 1"], may_raise={"Exception": "True"},
   notes="record.close() on the Full path of _do_return_conn: the record is dropped, its slot is retired (ghost: slots-1), also when close() raises")

INV = "self.slots == self._pool.maxsize + self._overflow"
fn(P + "_do_return_conn", cls="QueuePool", props=["C25"], returns="none",
   types={"record": "_ConnectionRecord"},
   requires=[INV, "self._pool.maxsize >= 0"],
   callees={"self._pool.put": Q + "put", "self._dec_overflow": P + "_dec_overflow",
            "record.close": dict(fn="pool/base.py::_ConnectionRecord.close", recv="record", args=["self"])},
   ensures=[INV, "len(self._pool.queue) <= self._pool.maxsize or self._pool.maxsize == 0",
            # the record is idle in the queue afterwards, or was retired
            "(len(self._pool.queue) > 0 and contents(self._pool.queue)[-1] is record and self.slots == old(self.slots)) or self.slots == old(self.slots) - 1"],
   may_raise={"Exception": "True"},
   modifies=["contents(self._pool.queue)", "self._overflow", "self.slots"])

fn(P + "_do_get", cls="QueuePool", props=["C25"], returns="_ConnectionRecord",
   types={"use_overflow": "bool", "wait": "bool"},
   requires=[INV, "self._pool.maxsize >= 0"],
   callees={"self._pool.get": Q + "get", "self._do_get": P + "_do_get", "self._inc_overflow": P + "_inc_overflow",
            "self._dec_overflow": P + "_dec_overflow", "self._create_connection": "pool/base.py::Pool._create_connection",
            "self.size": "havoc:int", "self.overflow": "havoc:int"},
   ensures=[INV],
   may_raise={"TimeoutError": "True", "Exception": "True"},
   # the slot accounting also holds when the creator fails (inc then dec) or the pool times out
   exc_ensures={"Exception": [INV, "self._max_overflow == -1 or self._overflow <= self._max_overflow"]},
   modifies=["contents(self._pool.queue)", "self._overflow", "self.slots"],
   notes="partial correctness: the recursive calls are checked against this same contract; termination under contention is not claimed")
