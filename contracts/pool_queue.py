"""C25: QueuePool limits and the util.queue.Queue representation invariant (sequential + monitor reading, DESIGN §2.6, §5 C25).

Ghost field `slots` of the pool = number of _ConnectionRecords in circulation (created by _create_connection and not
retired on the Full path).  The carried invariant is   slots == _pool.maxsize + _overflow   which, with the monitor
invariant  _max_overflow == -1 or _overflow <= _max_overflow,  gives   slots <= pool_size + max_overflow.
"""
from pyvc.contract import fn, cls

Q = "util/queue.py::Queue."
cls("Queue", fields={"maxsize": "int", "queue": "deque", "use_lifo": "bool", "mutex": "v", "not_empty": "v", "not_full": "v",
                     "_g_clock": "int"},     # ghost: the monotonic clock read by _time()
    rep=["self.maxsize <= 0 or len(self.queue) <= self.maxsize"],
    methods={n: Q + n for n in ["_qsize", "_empty", "_full", "_put", "_get", "put", "get", "qsize"]})

fn(Q + "_qsize", cls="Queue", props=["C25"], returns="int", ensures=["result == len(self.queue)"], modifies=[])
fn(Q + "_empty", cls="Queue", props=["C25"], returns="bool", ensures=["result == (len(self.queue) == 0)"], modifies=[])
fn(Q + "_full", cls="Queue", props=["C25"], returns="bool",
   ensures=["result == (self.maxsize > 0 and len(self.queue) == self.maxsize)"], modifies=[])
fn(Q + "_put", cls="Queue", props=["C25"], returns="none",
   requires=["self.maxsize <= 0 or len(self.queue) < self.maxsize"],
   ensures=["contents(self.queue) == old(contents(self.queue)) + [item]"], modifies=["contents(self.queue)"])
fn(Q + "_get", cls="Queue", props=["C25"],
   requires=["len(self.queue) > 0"],
   ensures=["implies(self.use_lifo, result is old(contents(self.queue))[-1] and contents(self.queue) == old(contents(self.queue))[:-1])",
            "implies(not self.use_lifo, result is old(contents(self.queue))[0] and contents(self.queue) == old(contents(self.queue))[1:])"],
   modifies=["contents(self.queue)"])
fn(Q + "qsize", cls="Queue", props=["C25"], returns="int", ensures=["result == len(self.queue)"], modifies=[])

# Condition.wait(): other threads may change the queue while the lock is released; on return the monitor (rep) invariant holds
fn(Q + "__wait__", abstract=True, cls="Queue", params=["self"], returns="none", modifies=["contents(self.queue)", "self._g_clock"],
   ensures=["self._g_clock >= old(self._g_clock)"],
   notes="Condition.wait: releases the monitor; any other thread may have put/got; the representation invariant holds on return; "
         "it may return at any time (notified and overtaken, or spuriously): time only moves forward")
fn(Q + "__time__", abstract=True, cls="Queue", params=["self"], returns="int", modifies=["self._g_clock"],
   ensures=["self._g_clock >= old(self._g_clock)", "result == self._g_clock"], notes="time.monotonic(): reads the ghost clock, which never runs backwards")
# a timed put/get gives up only when its whole timeout has elapsed (a waiter is served by what arrives before its timeout)
GAVE_UP = "implies(block and timeout is not None, self._g_clock >= old(self._g_clock) + timeout)"

fn(Q + "put", cls="Queue", props=["C25"], returns="none",
   types={"block": "bool", "timeout": "v", "remaining": "int", "endtime": "int"},
   variants=[dict(name="nonblocking", requires=["not block"], raises={"Full": "self.maxsize > 0 and len(self.queue) == self.maxsize"}),
             dict(name="blocking-no-timeout", requires=["block", "timeout is None"]),
             dict(name="blocking-timeout", requires=["block", "timeout is not None"], types={"timeout": "int"},
                  may_raise={"Full": "True", "ValueError": "timeout < 0"})],
   callees={"self.not_full.wait": dict(fn=Q + "__wait__", recv="self", args=[]), "self.not_empty.notify": "noop", "_time": dict(fn=Q + "__time__", recv="self", args=[])},
   ensures=["len(self.queue) > 0 and contents(self.queue)[-1] is item",
            "implies(not block, contents(self.queue) == old(contents(self.queue)) + [item])"],
   exc_ensures={"Full": [GAVE_UP]},
   modifies=["contents(self.queue)", "self._g_clock"])
fn(Q + "get", cls="Queue", props=["C25"],
   types={"block": "bool", "timeout": "v", "remaining": "int", "endtime": "int"},
   variants=[dict(name="nonblocking", requires=["not block"], raises={"Empty": "len(self.queue) == 0"}),
             dict(name="blocking-no-timeout", requires=["block", "timeout is None"]),
             dict(name="blocking-timeout", requires=["block", "timeout is not None"], types={"timeout": "int"},
                  may_raise={"Empty": "True", "ValueError": "timeout < 0"})],
   callees={"self.not_empty.wait": dict(fn=Q + "__wait__", recv="self", args=[]), "self.not_full.notify": "noop", "_time": dict(fn=Q + "__time__", recv="self", args=[])},
   exc_ensures={"Empty": [GAVE_UP]},
   ensures=["implies(not block, ite(self.use_lifo, result is old(contents(self.queue))[-1] and contents(self.queue) == old(contents(self.queue))[:-1],"
            " result is old(contents(self.queue))[0] and contents(self.queue) == old(contents(self.queue))[1:]))"],
   modifies=["contents(self.queue)", "self._g_clock"])
# callers see the union of the variants' exceptional behaviour
from pyvc.contract import FUNCS as _F
_F[Q + "put"].raises = {"Full": "not block and self.maxsize > 0 and len(self.queue) == self.maxsize"}
_F[Q + "put"].may_raise = {"Full@timeout": "block and timeout is not None"}
_F[Q + "get"].raises = {"Empty": "not block and len(self.queue) == 0"}
_F[Q + "get"].may_raise = {"Empty@timeout": "block and timeout is not None"}

# ------------------------------------------------------------------ QueuePool (monitor with interference)
# Ghost accounting (DESIGN §5 C25, rewritten for interference):
#   slots   = _ConnectionRecords in circulation            pending = outstanding claims of all threads
#   mine    = outstanding claims of the current thread (thread-local: not changed by other threads)
#   a claim is taken by a successful _inc_overflow (or by retiring a record on the Full path) and released by
#   _create_connection succeeding or by _dec_overflow.
# Monitor invariant, assumed after every interference point and PROVED before each one and at every exit:
#   E:  slots + pending == pool_size + _overflow          L: _max_overflow == -1 or _overflow <= _max_overflow
#   C:  0 <= mine <= pending
# hence  slots <= pool_size + max_overflow  whatever the other threads do.
P = "pool/impl.py::QueuePool."
cls("QueuePool", fields={"_overflow": "int", "_max_overflow": "int", "_pool": "Queue", "_timeout": "v", "_overflow_lock": "v",
                         "slots": "int", "pending": "int", "mine": "int"},
    methods={n: P + n for n in ["_inc_overflow", "_dec_overflow", "_do_get", "_do_return_conn", "checkedout", "overflow", "checkedin", "size"]})
cls("_ConnectionRecord", fields={})

G = ["self.slots + self.pending == self._pool.maxsize + self._overflow",
     "self._max_overflow == -1 or self._overflow <= self._max_overflow",
     "0 <= self.mine and self.mine <= self.pending",
     "self._pool.maxsize >= 0"]
MON = dict(havoc=["self._overflow", "self.slots", "self.pending", "contents(self._pool.queue)"], inv=G,
           locks=["self._overflow_lock"], calls=["self._pool.get", "self._pool.put", "self._create_connection", "record.close"])
GHOST = {"self._overflow += 1": ["self.pending += 1", "self.mine += 1"],
         "self._overflow -= 1": ["self.pending -= 1", "self.mine -= 1"]}
SHARED = ["self._overflow", "self.slots", "self.pending", "self.mine", "contents(self._pool.queue)", "self._pool._g_clock"]

fn(P + "_inc_overflow", cls="QueuePool", props=["C25"], returns="bool", monitor=MON, ghost_after=GHOST,
   requires=G, ensures=G + ["self.mine == old(self.mine) + ite(result, 1, 0)"], modifies=SHARED)
fn(P + "_dec_overflow", cls="QueuePool", props=["C25"], returns="bool", monitor=MON, ghost_after=GHOST,
   requires=G + ["self.mine >= 1"], ensures=G + ["result", "self.mine == old(self.mine) - 1"], modifies=SHARED)
fn(P + "checkedout", cls="QueuePool", props=["C25"], returns="int", callees={"self._pool.qsize": Q + "qsize"},
   ensures=["result == self._pool.maxsize - len(self._pool.queue) + self._overflow"], modifies=[])
fn(P + "checkedin", cls="QueuePool", props=["C25"], returns="int", callees={"self._pool.qsize": Q + "qsize"},
   ensures=["result == len(self._pool.queue)"], modifies=[])

# externals of the pool layer (assumed contracts, atomic ghost effects)
fn("pool/base.py::Pool._create_connection", abstract=True, cls="QueuePool", params=["self"], returns="_ConnectionRecord", fresh_result=True,
   requires=["self.mine >= 1"],
   modifies=["self.slots", "self.pending", "self.mine"],
   ensures=["self.slots == old(self.slots) + 1", "self.pending == old(self.pending) - 1", "self.mine == old(self.mine) - 1"],
   may_raise={"BaseException": "True"},
   exc_ensures={"BaseException": ["self.slots == old(self.slots)", "self.pending == old(self.pending)", "self.mine == old(self.mine)"]},
   notes="creates one _ConnectionRecord: the caller's claim becomes a slot; or raises (anything, incl. KeyboardInterrupt / greenlet exits from the creator) with nothing created and the claim still held")
fn("pool/base.py::_ConnectionRecord.close", abstract=True, cls="_ConnectionRecord", params=["self", "pool"], returns="none",
   types={"pool": "QueuePool"},
   modifies=["pool.slots", "pool.pending", "pool.mine"],
   ensures=["pool.slots == old(pool.slots) - 1", "pool.pending == old(pool.pending) + 1", "pool.mine == old(pool.mine) + 1"],
   notes="record.close() on the Full path of _do_return_conn: the record is dropped (its slot retired, the thread holds a claim that "
         "_dec_overflow releases); _ConnectionRecord.close swallows driver errors")

fn(P + "_do_return_conn", cls="QueuePool", props=["C25"], returns="none", monitor=MON,
   types={"record": "_ConnectionRecord"},
   requires=G,
   callees={"self._pool.put": Q + "put", "self._dec_overflow": P + "_dec_overflow",
            "record.close": dict(fn="pool/base.py::_ConnectionRecord.close", recv="record", args=["self"])},
   ensures=G + ["self.mine == old(self.mine)"],
   may_raise={"Exception": "True"}, exc_ensures={"Exception": G + ["self.mine == old(self.mine)"]},
   modifies=SHARED)

fn(P + "_do_get", cls="QueuePool", props=["C25", "C26"], returns="_ConnectionRecord", monitor=MON,
   types={"use_overflow": "bool", "wait": "bool"},
   requires=G,
   callees={"self._pool.get": Q + "get", "self._do_get": P + "_do_get", "self._inc_overflow": P + "_inc_overflow",
            "self._dec_overflow": P + "_dec_overflow", "self._create_connection": "pool/base.py::Pool._create_connection",
            "self.size": "havoc:int", "self.overflow": "havoc:int"},
   ensures=G + ["self.mine == old(self.mine)"],
   may_raise={"TimeoutError": "True", "BaseException": "True"},
   # the accounting also holds when the creator fails with ANY exception (claim released by _dec_overflow) or the pool times out
   exc_ensures={"BaseException": G + ["self.mine == old(self.mine)"]},
   modifies=SHARED,
   notes="partial correctness: the recursive calls are checked against this same contract")
