"""C25: QueuePool limits and the util.queue.Queue representation invariant (sequential + monitor reading, DESIGN §2.6, §5 C25).

Ghost field `slots` of the pool = number of _ConnectionRecords in circulation (created by _create_connection and not
retired on the Full path).  The carried invariant is   slots == _pool.maxsize + _overflow   which, with the monitor
invariant  _max_overflow == -1 or _overflow <= _max_overflow,  gives   slots <= pool_size + max_overflow.
"""
from pyvc.contract import fn, cls

Q = "util/queue.py::Queue."
cls("Queue", fields={"maxsize": "int", "queue": "deque", "use_lifo": "bool", "mutex": "v", "not_empty": "v", "not_full": "v",
                     "_g_clock": "int",      # ghost: the monotonic clock read by _time()
                     "_g_mine": "setv"},     # ghost: items owned by the current thread -- no other thread ever puts them
    rep=["self.maxsize <= 0 or len(self.queue) <= self.maxsize"],
    methods={n: Q + n for n in ["_qsize", "_empty", "_full", "_put", "_get", "put", "get", "qsize"]})

fn(Q + "_qsize", cls="Queue", props=["C25"], returns="int", ensures=["result == len(self.queue)"], modifies=[])
fn(Q + "_empty", cls="Queue", props=["C25"], returns="bool", ensures=["result == (len(self.queue) == 0)"], modifies=[])
fn(Q + "_full", cls="Queue", props=["C25"], returns="bool",
   ensures=["result == (self.maxsize > 0 and len(self.queue) == self.maxsize)"], modifies=[])
fn(Q + "_put", cls="Queue", props=["C25"], returns="none",
   requires=["self.maxsize <= 0 or len(self.queue) < self.maxsize"],
   ensures=["contents(self.queue) == old(contents(self.queue)) + [item]"], modifies=["contents(self.queue)"])
fn(Q + "_get", cls="Queue", props=["C25"],
   requires=["len(self.queue) > 0"],
   ensures=["implies(self.use_lifo, result is old(contents(self.queue))[-1] and contents(self.queue) == old(contents(self.queue))[:-1])",
            "implies(not self.use_lifo, result is old(contents(self.queue))[0] and contents(self.queue) == old(contents(self.queue))[1:])"],
   modifies=["contents(self.queue)"])
fn(Q + "qsize", cls="Queue", props=["C25"], returns="int", ensures=["result == len(self.queue)"], modifies=[])

# Condition.wait(): other threads may change the queue while the lock is released; on return the monitor (rep) invariant holds
fn(Q + "__wait__", abstract=True, cls="Queue", params=["self"], returns="none", modifies=["contents(self.queue)", "self._g_clock"],
   ensures=["self._g_clock >= old(self._g_clock)",
            # rely: the other users of this queue keep it duplicate free if it was (they follow the pool's own contract)
            "implies(old(no_dups(contents(self.queue))), no_dups(contents(self.queue)))",
            # rely: nobody else puts an item this thread owns
            "forall(lambda x: implies(x in self._g_mine and x not in old(contents(self.queue)), x not in contents(self.queue)))",
            # whatever is in the queue exists (items put by other threads were created by them first)
            "implies(old(all(allocated(x) for x in contents(self.queue))), all(allocated(x) for x in contents(self.queue)))"],
   notes="Condition.wait: releases the monitor; any other thread may have put/got; the representation invariant holds on return; "
         "it may return at any time (notified and overtaken, or spuriously): time only moves forward")
fn(Q + "__time__", abstract=True, cls="Queue", params=["self"], returns="int", modifies=["self._g_clock"],
   ensures=["self._g_clock >= old(self._g_clock)", "result == self._g_clock"], notes="time.monotonic(): reads the ghost clock, which never runs backwards")
# a timed put/get gives up only when its whole timeout has elapsed (a waiter is served by what arrives before its timeout)
GAVE_UP = "implies(block and timeout is not None, self._g_clock >= old(self._g_clock) + timeout)"

fn(Q + "put", cls="Queue", props=["C25"], returns="none",
   types={"block": "bool", "timeout": "v", "remaining": "int", "endtime": "int"},
   variants=[dict(name="nonblocking", requires=["not block"], raises={"Full": "self.maxsize > 0 and len(self.queue) == self.maxsize"}),
             dict(name="blocking-no-timeout", requires=["block", "timeout is None"]),
             dict(name="blocking-timeout", requires=["block", "timeout is not None"], types={"timeout": "int"},
                  may_raise={"Full": "True", "ValueError": "timeout < 0"})],
   callees={"self.not_full.wait": dict(fn=Q + "__wait__", recv="self", args=[]), "self.not_empty.notify": "noop", "_time": dict(fn=Q + "__time__", recv="self", args=[])},
   ensures=["len(self.queue) > 0 and contents(self.queue)[-1] is item",
            "implies(not block, contents(self.queue) == old(contents(self.queue)) + [item])"],
   exc_ensures={"Full": [GAVE_UP]},
   modifies=["contents(self.queue)", "self._g_clock"])
fn(Q + "get", cls="Queue", props=["C25"],
   types={"block": "bool", "timeout": "v", "remaining": "int", "endtime": "int"},
   variants=[dict(name="nonblocking", requires=["not block"], raises={"Empty": "len(self.queue) == 0"}),
             dict(name="blocking-no-timeout", requires=["block", "timeout is None"]),
             dict(name="blocking-timeout", requires=["block", "timeout is not None"], types={"timeout": "int"},
                  may_raise={"Empty": "True", "ValueError": "timeout < 0"})],
   callees={"self.not_empty.wait": dict(fn=Q + "__wait__", recv="self", args=[]), "self.not_full.notify": "noop", "_time": dict(fn=Q + "__time__", recv="self", args=[])},
   invariant={0: ["implies(old(no_dups(contents(self.queue))), no_dups(contents(self.queue)))", "forall(lambda x: implies(x in self._g_mine and x not in old(contents(self.queue)), x not in contents(self.queue)))", "implies(old(all(allocated(x) for x in contents(self.queue))), all(allocated(x) for x in contents(self.queue)))"], 1: ["implies(old(no_dups(contents(self.queue))), no_dups(contents(self.queue)))", "forall(lambda x: implies(x in self._g_mine and x not in old(contents(self.queue)), x not in contents(self.queue)))", "implies(old(all(allocated(x) for x in contents(self.queue))), all(allocated(x) for x in contents(self.queue)))"]},
   exc_ensures={"Empty": [GAVE_UP] + ["implies(old(no_dups(contents(self.queue))), no_dups(contents(self.queue)))", "forall(lambda x: implies(x in self._g_mine and x not in old(contents(self.queue)), x not in contents(self.queue)))", "implies(old(all(allocated(x) for x in contents(self.queue))), all(allocated(x) for x in contents(self.queue)))"]},
   ensures=["implies(not block, ite(self.use_lifo, result is old(contents(self.queue))[-1] and contents(self.queue) == old(contents(self.queue))[:-1],"
            " result is old(contents(self.queue))[0] and contents(self.queue) == old(contents(self.queue))[1:]))",
            # what is taken out of a duplicate-free queue is not in the queue any more (in every blocking mode)
            "implies(old(no_dups(contents(self.queue))), no_dups(contents(self.queue)) and result not in contents(self.queue))",
            "forall(lambda x: implies(x in self._g_mine and x not in old(contents(self.queue)), x not in contents(self.queue)))",
            # an item comes out of the queue: it was put by somebody, so it is allocated; and (rely) nobody puts what this thread owns
            "implies(old(all(allocated(x) for x in contents(self.queue))), all(allocated(x) for x in contents(self.queue)))", "implies(old(all(allocated(x) for x in contents(self.queue))), allocated(result))", "implies(old(no_dups(contents(self.queue))) and forall(lambda x: implies(x in self._g_mine, x not in old(contents(self.queue)))), result not in self._g_mine)"],
   modifies=["contents(self.queue)", "self._g_clock"])
# callers see the union of the variants' exceptional behaviour
from pyvc.contract import FUNCS as _F
_F[Q + "put"].raises = {"Full": "not block and self.maxsize > 0 and len(self.queue) == self.maxsize"}
_F[Q + "put"].may_raise = {"Full@timeout": "block and timeout is not None"}
_F[Q + "get"].raises = {"Empty": "not block and len(self.queue) == 0"}
_F[Q + "get"].may_raise = {"Empty@timeout": "block and timeout is not None"}

# ------------------------------------------------------------------ QueuePool (monitor with interference)
# Ghost accounting (DESIGN §5 C25, rewritten for interference):
#   slots   = _ConnectionRecords in circulation            pending = outstanding claims of all threads
#   mine    = outstanding claims of the current thread (thread-local: not changed by other threads)
#   a claim is taken by a successful _inc_overflow (or by retiring a record on the Full path) and released by
#   _create_connection succeeding or by _dec_overflow.
# Monitor invariant, assumed after every interference point and PROVED before each one and at every exit:
#   E:  slots + pending == pool_size + _overflow          L: _max_overflow == -1 or _overflow <= _max_overflow
#   C:  0 <= mine <= pending
# hence  slots <= pool_size + max_overflow  whatever the other threads do.
P = "pool/impl.py::QueuePool."
cls("QueuePool", fields={"_overflow": "int", "_max_overflow": "int", "_pool": "Queue", "_timeout": "v", "_overflow_lock": "v",
                         "slots": "int", "pending": "int", "mine": "int"},
    methods={n: P + n for n in ["_inc_overflow", "_dec_overflow", "_do_get", "_do_return_conn", "checkedout", "overflow", "checkedin", "size"]})
cls("_ConnectionRecord", fields={})

G = ["self.slots + self.pending == self._pool.maxsize + self._overflow",
     "self._max_overflow == -1 or self._overflow <= self._max_overflow",
     "0 <= self.mine and self.mine <= self.pending",
     "self._pool.maxsize >= 0"]
MON = dict(havoc=["self._overflow", "self.slots", "self.pending", "contents(self._pool.queue)"], inv=G,
           locks=["self._overflow_lock"], calls=["self._pool.get", "self._pool.put", "self._create_connection", "record.close"])
GHOST = {"self._overflow += 1": ["self.pending += 1", "self.mine += 1"],
         "self._overflow -= 1": ["self.pending -= 1", "self.mine -= 1"]}
SHARED = ["self._overflow", "self.slots", "self.pending", "self.mine", "contents(self._pool.queue)", "self._pool._g_clock"]

fn(P + "_inc_overflow", cls="QueuePool", props=["C25"], returns="bool", monitor=MON, ghost_after=GHOST,
   requires=G, ensures=G + ["self.mine == old(self.mine) + ite(result, 1, 0)"], modifies=SHARED)
fn(P + "_dec_overflow", cls="QueuePool", props=["C25"], returns="bool", monitor=MON, ghost_after=GHOST,
   requires=G + ["self.mine >= 1"], ensures=G + ["result", "self.mine == old(self.mine) - 1"], modifies=SHARED)
fn(P + "checkedout", cls="QueuePool", props=["C25"], returns="int", callees={"self._pool.qsize": Q + "qsize"},
   ensures=["result == self._pool.maxsize - len(self._pool.queue) + self._overflow"], modifies=[])
fn(P + "checkedin", cls="QueuePool", props=["C25"], returns="int", callees={"self._pool.qsize": Q + "qsize"},
   ensures=["result == len(self._pool.queue)"], modifies=[])

# externals of the pool layer (assumed contracts, atomic ghost effects)
fn("pool/base.py::Pool._create_connection", abstract=True, cls="QueuePool", params=["self"], returns="_ConnectionRecord", fresh_result=True,
   requires=["self.mine >= 1"],
   modifies=["self.slots", "self.pending", "self.mine"],
   ensures=["self.slots == old(self.slots) + 1", "self.pending == old(self.pending) - 1", "self.mine == old(self.mine) - 1"],
   may_raise={"BaseException": "True"},
   exc_ensures={"BaseException": ["self.slots == old(self.slots)", "self.pending == old(self.pending)", "self.mine == old(self.mine)"]},
   notes="creates one _ConnectionRecord: the caller's claim becomes a slot; or raises (anything, incl. KeyboardInterrupt / greenlet exits from the creator) with nothing created and the claim still held")
fn("pool/base.py::_ConnectionRecord.close", abstract=True, cls="_ConnectionRecord", params=["self", "pool"], returns="none",
   types={"pool": "QueuePool"},
   modifies=["pool.slots", "pool.pending", "pool.mine"],
   ensures=["pool.slots == old(pool.slots) - 1", "pool.pending == old(pool.pending) + 1", "pool.mine == old(pool.mine) + 1"],
   notes="record.close() on the Full path of _do_return_conn: the record is dropped (its slot retired, the thread holds a claim that "
         "_dec_overflow releases); _ConnectionRecord.close swallows driver errors")

fn(P + "_do_return_conn", cls="QueuePool", props=["C25"], returns="none", monitor=MON,
   types={"record": "_ConnectionRecord"},
   requires=G,
   callees={"self._pool.put": Q + "put", "self._dec_overflow": P + "_dec_overflow",
            "record.close": dict(fn="pool/base.py::_ConnectionRecord.close", recv="record", args=["self"])},
   ensures=G + ["self.mine == old(self.mine)"],
   may_raise={"Exception": "True"}, exc_ensures={"Exception": G + ["self.mine == old(self.mine)"]},
   modifies=SHARED)

fn(P + "_do_get", cls="QueuePool", props=["C25", "C26"], returns="_ConnectionRecord", monitor=MON,
   types={"use_overflow": "bool", "wait": "bool"},
   requires=G,
   callees={"self._pool.get": Q + "get", "self._do_get": P + "_do_get", "self._inc_overflow": P + "_inc_overflow",
            "self._dec_overflow": P + "_dec_overflow", "self._create_connection": "pool/base.py::Pool._create_connection",
            "self.size": "havoc:int", "self.overflow": "havoc:int"},
   ensures=G + ["self.mine == old(self.mine)"],
   may_raise={"TimeoutError": "True", "BaseException": "True"},
   # the accounting also holds when the creator fails with ANY exception (claim released by _dec_overflow) or the pool times out
   exc_ensures={"BaseException": G + ["self.mine == old(self.mine)"]},
   modifies=SHARED,
   notes="partial correctness: the recursive calls are checked against this same contract")


# ------------------------------------------------------------------ no record is handed to two holders (thread-modular)
# Ghost `_pool._g_mine` (a set value, thread-local like `mine`): the records the current thread has got from _do_get and not yet
# given back ("held").  Monitor invariant (assumed at every interference point, proved before each and at every exit):
#   U1  the idle queue holds no record twice          U2  no record held by this thread is in the idle queue
# Rely (assumed contract of Condition.wait, i.e. of the other threads): they keep the queue duplicate free and never put a record
# this thread holds.  Every thread follows the same contract, so a record is either idle in the queue (once) or held by exactly
# one thread: it is never handed to a second holder.  Ghost updates happen atomically with the queue operation (ghost_call).
HELD = "self._pool._g_mine"
QC = "contents(self._pool.queue)"
U = ["no_dups(" + QC + ")", "forall(lambda r: implies(r in " + HELD + ", r not in " + QC + "))", "all(allocated(r) for r in " + QC + ")"]
MONU = dict(havoc=[QC, "self._pool._g_clock", "self._overflow"], inv=U, locks=["self._overflow_lock"],
            calls=["self._pool.get", "self._pool.put", "self._create_connection", "record.close"])
fn("pool/base.py::Pool._create_connection@u", abstract=True, cls="QueuePool", params=["self"], returns="_ConnectionRecord", fresh_result=True,
   modifies=[], may_raise={"BaseException": "True"}, notes="a brand-new record (not in the queue, not held by anybody)")
fn("pool/base.py::_ConnectionRecord.close@u", abstract=True, cls="_ConnectionRecord", params=["self"], returns="none", modifies=[],
   may_raise={"Exception": "True"})
fn(P + "_do_get#unique", cls="QueuePool", props=["C25"], returns="_ConnectionRecord", monitor=MONU,
   types={"use_overflow": "bool", "wait": "bool"},
   requires=U,
   callees={"self._pool.get": Q + "get", "self._do_get": P + "_do_get#unique", "self._inc_overflow": "havoc:bool", "self._dec_overflow": "havoc:bool",
            "self._create_connection": "pool/base.py::Pool._create_connection@u", "self.size": "havoc:int", "self.overflow": "havoc:int"},
   ghost_call={"self._pool.get": [HELD + " = " + HELD + " | {_r}"], "self._create_connection": [HELD + " = " + HELD + " | {_r}"]},
   ensures=U + ["result in " + HELD, "result not in " + QC,
                # the record handed out was not held by this thread before, and exactly it is added
                "not old(result in " + HELD + ")",
                "forall(lambda r: (r in " + HELD + ") == (old(r in " + HELD + ") or r is result))"],
   may_raise={"TimeoutError": "True", "BaseException": "True"},
   exc_ensures={"BaseException": U + ["forall(lambda r: (r in " + HELD + ") == old(r in " + HELD + "))"]},
   modifies=[QC, HELD, "self._pool._g_clock", "self._overflow"],
   notes="partial correctness: the recursive call is checked against this same contract")
fn(P + "_do_return_conn#unique", cls="QueuePool", props=["C25"], returns="none", monitor=MONU,
   types={"record": "_ConnectionRecord"},
   # only a record this thread holds may be given back
   requires=U + ["record in " + HELD],
   callees={"self._pool.put": Q + "put", "self._dec_overflow": "havoc:bool",
            "record.close": dict(fn="pool/base.py::_ConnectionRecord.close@u", recv="record", args=[])},
   ghost_call={"self._pool.put": [HELD + " = " + HELD + " - {record}"], "record.close": [HELD + " = " + HELD + " - {record}"]},
   ensures=U + ["record not in " + HELD, "forall(lambda r: implies(r is not record, (r in " + HELD + ") == old(r in " + HELD + ")))"],
   may_raise={"Exception": "True"},
   exc_ensures={"Exception": U},
   modifies=[QC, HELD, "self._pool._g_clock", "self._overflow"])
