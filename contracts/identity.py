"""C34: the identity map container orm/identity.py::_WeakInstanceDict (DESIGN §5 C34).

view  m = self._dict : key -> InstanceState ;  alive(s) <=> s.obj() is not None  (weak reference; liveness is constant
during one call: no GC in between — the `except KeyError` arms that exist for that race are proved unreachable sequentially).
"""
from pyvc.contract import fn, cls

I = "orm/identity.py::_WeakInstanceDict."
B = "orm/identity.py::IdentityMap."
cls("IState", fields={"key": "v", "obj": "fn", "modified": "bool", "_instance_dict": "v"})
cls("IdentityMap", fields={"_dict": "dict", "_modified": "set", "_wr": "v"}, rep=["not dhas(self._dict, None)"],
    methods={"_manage_incoming_state": B + "_manage_incoming_state", "_manage_removed_state": B + "_manage_removed_state"})
cls("_WeakInstanceDict", bases=("IdentityMap",), fields={}, rep=["not dhas(self._dict, None)"],
    methods={n: I + n for n in ["add", "replace", "get", "__getitem__", "__contains__", "contains_state", "fast_get_state",
                                "safe_discard", "_fast_discard", "_add_unpresent", "discard"]})

T = {"state": "IState", "values:self._dict": "IState", "existing": "IState", "existing_non_none": "IState", "existing_state": "IState", "st": "IState"}
C = {"cast": "identity"}
K = {"TYPE_CHECKING": ("bool", False)}


def others(keyexpr):
    return ("forall(lambda q: implies(q is not " + keyexpr + ", dhas(self._dict, q) == old(dhas(self._dict, q))"
            " and implies(dhas(self._dict, q), dget(self._dict, q) is old(dget(self._dict, q)))))")


def order(keyexpr):
    return "all(implies(k is not " + keyexpr + ", k in keys(self._dict)) for k in old(keys(self._dict)))"


fn(B + "_manage_incoming_state", cls="IdentityMap", props=["C34"], types=T, returns="none",
   ensures=["state._instance_dict is self._wr",
            "forall(lambda x: (x in self._modified) == (old(x in self._modified) or (x is state and state.modified)))"],
   modifies=["state._instance_dict", "contents(self._modified)"])
fn(B + "_manage_removed_state", cls="IdentityMap", props=["C34"], types=T, returns="none",
   ensures=["forall(lambda x: (x in self._modified) == (old(x in self._modified) and not (x is state and state.modified)))"],
   modifies=["state._instance_dict", "contents(self._modified)"])

OCC = "dhas(self._dict, state.key) and dget(self._dict, state.key) is not state and call(dget(self._dict, state.key).obj) is not None"
fn(I + "add", cls="_WeakInstanceDict", props=["C34"], types=T, consts=K, returns="bool", callees=C,
   requires=["state.key is not None"],
   # never overwrite a live different instance: that is the "one object per identity key" rule
   raises={"InvalidRequestError": OCC},
   exc_ensures={"InvalidRequestError": ["keys(self._dict) == old(keys(self._dict))",
                                        "forall(lambda q: dget(self._dict, q) is old(dget(self._dict, q)))"]},
   ensures=["dhas(self._dict, state.key) and dget(self._dict, state.key) is state",
            "result == (not (old(dhas(self._dict, state.key)) and old(dget(self._dict, state.key)) is state))",
            others("state.key"), order("state.key")],
   modifies=["contents(self._dict)", "contents(self._modified)", "state._instance_dict"], harness="identity.add")

fn(I + "replace", cls="_WeakInstanceDict", props=["C34"], types=T, consts=K, callees=C,
   requires=["state.key is not None"],
   ensures=["dhas(self._dict, state.key) and dget(self._dict, state.key) is state",
            "implies(old(dhas(self._dict, state.key)) and old(dget(self._dict, state.key)) is not state, result is old(dget(self._dict, state.key)))",
            "implies(not old(dhas(self._dict, state.key)) or old(dget(self._dict, state.key)) is state, result is None)",
            others("state.key"), order("state.key")],
   modifies=["contents(self._dict)", "contents(self._modified)", "state._instance_dict", "dget(self._dict, state.key)._instance_dict"],
   harness="identity.replace")

fn(I + "_add_unpresent", cls="_WeakInstanceDict", props=["C34"], types=T, returns="none", requires=["key is not None"],
   ensures=["dhas(self._dict, key) and dget(self._dict, key) is state", others("key"), order("key"), "state._instance_dict is self._wr"],
   modifies=["contents(self._dict)", "state._instance_dict"])

fn(I + "get", cls="_WeakInstanceDict", props=["C34"], types=dict(T, state="IState"), consts=K, callees=C,
   ensures=["implies(dhas(self._dict, key) and call(dget(self._dict, key).obj) is not None, result is call(dget(self._dict, key).obj))",
            "implies(not dhas(self._dict, key) or call(dget(self._dict, key).obj) is None, result is default)"],
   modifies=[], harness="identity.get")
fn(I + "__getitem__", cls="_WeakInstanceDict", props=["C34"], types=dict(T, state="IState"), consts=K, callees=C,
   raises={"KeyError": "not dhas(self._dict, key) or call(dget(self._dict, key).obj) is None"},
   ensures=["result is call(dget(self._dict, key).obj)"], modifies=[])
fn(I + "__contains__", cls="_WeakInstanceDict", props=["C34"], types=dict(T, state="IState"), consts=K, callees=C, returns="bool",
   ensures=["result == (dhas(self._dict, key) and call(dget(self._dict, key).obj) is not None)"], modifies=[])
fn(I + "contains_state", cls="_WeakInstanceDict", props=["C34"], types=T, consts=K, callees=C, returns="bool",
   ensures=["result == (dhas(self._dict, state.key) and dget(self._dict, state.key) is state)"], modifies=[])
fn(I + "fast_get_state", cls="_WeakInstanceDict", props=["C34"], types=T, consts=K, callees=C,
   ensures=["result is (dget(self._dict, key) if dhas(self._dict, key) else None)"], modifies=[])

REMOVED_ONLY_IF_SAME = ["dhas(self._dict, state.key) == (old(dhas(self._dict, state.key)) and old(dget(self._dict, state.key)) is not state)",
                        "implies(dhas(self._dict, state.key), dget(self._dict, state.key) is old(dget(self._dict, state.key)))",
                        others("state.key"), order("state.key")]
fn(I + "safe_discard", cls="_WeakInstanceDict", props=["C34"], types=T, consts=K, callees=C, returns="none",
   ensures=REMOVED_ONLY_IF_SAME, modifies=["contents(self._dict)", "contents(self._modified)", "state._instance_dict"], harness="identity.safe_discard")
fn(I + "_fast_discard", cls="_WeakInstanceDict", props=["C34"], types=T, consts=K, callees=C, returns="none",
   requires=["state.key is not None"],
   ensures=REMOVED_ONLY_IF_SAME, modifies=["contents(self._dict)"], harness="identity._fast_discard")
