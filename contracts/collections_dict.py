"""C38 (part): orm/collections.py::_dict_decorators — __setitem__, __delitem__, pop, popitem, setdefault of an instrumented dict.

view (mapping, ev): ev = ghost log of fired collection events over the VALUES: ('A', v) append, ('R', v) remove, ('W', v)
append_wo_mutation.  `fn` is the wrapped builtin dict method.  clear() and update() (keyword arguments) are in the bounded
complement.  DESIGN §5 C38.
"""
from pyvc.contract import fn, cls

D = "orm/collections.py::_dict_decorators."
K = {"NO_KEY": "sentinel", "NO_ARG": "sentinel"}
cls("IDict", isa="dict", fields={"ev": "seqv"}, methods={"__setitem__": D + "__setitem__.__setitem__"})
fn("orm/collections.py::__set@dict", abstract=True, params=["collection", "item", "_sa_initiator", "key"], types={"collection": "IDict"},
   modifies=["collection.ev"], ensures=["collection.ev == old(collection.ev) + [pair('A', item)]", "result is item"],
   notes="fires the append event; assumed to return the item unchanged")
fn("orm/collections.py::__set_wo_mutation@dict", abstract=True, params=["collection", "item", "_sa_initiator"], types={"collection": "IDict"},
   modifies=["collection.ev"], ensures=["collection.ev == old(collection.ev) + [pair('W', item)]"], returns="none")
fn("orm/collections.py::__del@dict", abstract=True, params=["collection", "item", "_sa_initiator", "key"], types={"collection": "IDict"},
   modifies=["collection.ev"], ensures=["collection.ev == old(collection.ev) + [pair('R', item)]"], returns="none")
CAL = {"__set": "orm/collections.py::__set@dict", "__set_wo_mutation": "orm/collections.py::__set_wo_mutation@dict",
       "__del": "orm/collections.py::__del@dict", "__before_pop": "noop"}
T = {"self": "IDict"}
M = ["contents(self)", "self.ev"]
EV, OEV = "self.ev", "old(self.ev)"
OTHERS = "forall(lambda q: implies(q is not key, dhas(self, q) == old(dhas(self, q)) and implies(dhas(self, q), dget(self, q) is old(dget(self, q)))))"
SAME = "forall(lambda q: dhas(self, q) == old(dhas(self, q)) and implies(dhas(self, q), dget(self, q) is old(dget(self, q))))"

fn(D + "__setitem__.__setitem__", props=["C38"], types=T, consts=K, callees=dict(CAL, fn="builtin:dict:__setitem__"), returns="none",
   ensures=["dhas(self, key) and dget(self, key) is value", OTHERS,
            # replacing a value removes the old one and appends the new one; a new key only appends
            f"{EV} == ite(old(dhas(self, key)), {OEV} + [pair('R', old(dget(self, key)))] + [pair('A', value)], {OEV} + [pair('A', value)])"],
   modifies=M)
fn(D + "__delitem__.__delitem__", props=["C38"], types=T, consts=K, callees=dict(CAL, fn="builtin:dict:__delitem__"), returns="none",
   raises={"KeyError": "not dhas(self, key)"}, exc_ensures={"KeyError": [f"{EV} == {OEV}", SAME]},
   ensures=["not dhas(self, key)", OTHERS, f"{EV} == {OEV} + [pair('R', old(dget(self, key)))]"], modifies=M)
fn(D + "pop.pop", props=["C38"], types=T, consts=K, callees=dict(CAL, fn="builtin:dict:pop"),
   raises={"KeyError": "default is NO_ARG and not dhas(self, key)"}, exc_ensures={"KeyError": [f"{EV} == {OEV}", SAME]},
   ensures=["not dhas(self, key)", OTHERS,
            "result is ite(old(dhas(self, key)), old(dget(self, key)), default)",
            f"{EV} == ite(old(dhas(self, key)), {OEV} + [pair('R', old(dget(self, key)))], {OEV})"], modifies=M)
fn(D + "popitem.popitem", props=["C38"], types=dict(T, item="tupleval"), consts=K, callees=dict(CAL, fn="builtin:dict:popitem"),
   raises={"KeyError": "len(keys(self)) == 0"}, exc_ensures={"KeyError": [f"{EV} == {OEV}", SAME]},
   ensures=["is_tuple(result, 2) and old(dhas(self, result[0])) and result[1] is old(dget(self, result[0])) and not dhas(self, result[0])",
            "forall(lambda q: implies(q is not result[0], dhas(self, q) == old(dhas(self, q)) and implies(dhas(self, q), dget(self, q) is old(dget(self, q)))))",
            f"{EV} == {OEV} + [pair('R', result[1])]"], modifies=M)
fn(D + "setdefault.setdefault", props=["C38"], types=T, consts=K, callees=CAL,
   ensures=["result is ite(old(dhas(self, key)), old(dget(self, key)), default)",
            "dhas(self, key) and dget(self, key) is result", OTHERS,
            f"{EV} == ite(old(dhas(self, key)), ite(old(dget(self, key)) is default, {OEV} + [pair('W', default)], {OEV}), {OEV} + [pair('A', default)])"],
   modifies=M)

fn(D + "clear.clear", props=["C38"], types=T, consts=K, callees=dict(CAL, fn="builtin:dict:clear"), returns="none",
   invariant={0: [SAME, f"len({EV}) == len({OEV}) + _i", f"{EV}[:len({OEV})] == {OEV}",
                  "all(" + EV + "[len(" + OEV + ") + j] is pair('R', old(dget(self, keys(self)[j]))) for j in range(_i))"]},
   loop_modifies={0: ["self.ev"]},
   # one remove event per key, carrying the value stored under it (in key order)
   ensures=["len(keys(self)) == 0", f"len({EV}) == len({OEV}) + old(len(keys(self)))", f"{EV}[:len({OEV})] == {OEV}",
            "all(" + EV + "[len(" + OEV + ") + j] is pair('R', old(dget(self, keys(self)[j]))) for j in range(old(len(keys(self)))))"],
   modifies=M)
