"""C49 (kernel): ext/mutable.py — every in-place mutator of MutableDict / MutableList / MutableSet that changes the contents
emits a change event.  Ghost counter `_g_changes` = number of `changed()` calls on the object (assumed contract of
Mutable.changed, which flags every parent as modified — that propagation is in the bounded complement).

Clause per mutator:  the builtin's effect on the contents  AND  (contents may have changed  ==>  _g_changes grew).
For the always-mutating operations the second part is unconditional.
"""
from pyvc.contract import fn, cls

M = "ext/mutable.py::"
CH = M + "Mutable.changed@ghost"
cls("MutableDict", isa="dict", fields={"_g_changes": "int"}, methods={"changed": CH + ":MutableDict"})
cls("MutableList", isa="list", fields={"_g_changes": "int"}, methods={"changed": CH + ":MutableList", "extend": M + "MutableList.extend"})
cls("MutableSet", isa="set", fields={"_g_changes": "int"},
    methods={"changed": CH + ":MutableSet", "update": M + "MutableSet.update", "intersection_update": M + "MutableSet.intersection_update",
             "difference_update": M + "MutableSet.difference_update", "symmetric_difference_update": M + "MutableSet.symmetric_difference_update"})
for _c in ("MutableDict", "MutableList", "MutableSet"):
    fn(CH + ":" + _c, abstract=True, cls=_c, params=["self"], returns="none", modifies=["self._g_changes"],
       ensures=["self._g_changes == old(self._g_changes) + 1"], notes="Mutable.changed(): flag_modified on every parent (ghost: counted)")
EVENT = "self._g_changes > old(self._g_changes)"
FR = ["contents(self)", "self._g_changes"]

D = M + "MutableDict."
fn(D + "__setitem__", cls="MutableDict", props=["C49"], returns="none",
   ensures=["dhas(self, key) and dget(self, key) is value", EVENT], modifies=FR)
fn(D + "__delitem__", cls="MutableDict", props=["C49"], returns="none", raises={"KeyError": "not dhas(self, key)"},
   ensures=["not dhas(self, key)", EVENT], modifies=FR)
fn(D + "popitem", cls="MutableDict", props=["C49"], raises={"KeyError": "len(keys(self)) == 0"},
   ensures=["len(keys(self)) == old(len(keys(self))) - 1", EVENT], modifies=FR)
fn(D + "clear", cls="MutableDict", props=["C49"], returns="none", ensures=["len(keys(self)) == 0", EVENT], modifies=FR)
fn(D + "pop", cls="MutableDict", props=["C49"],
   variants=[dict(name="key", types={"arg": "args:v"}, raises={"KeyError": "not dhas(self, arg[0])"}),
             dict(name="key-default", types={"arg": "args:v,v"})],
   # whenever the key was there the contents changed: an event is due (also when the stored value equals the default)
   ensures=["not dhas(self, arg[0])", "implies(old(dhas(self, arg[0])), " + EVENT + " and result is old(dget(self, arg[0])))"], modifies=FR)
fn(D + "setdefault", cls="MutableDict", props=["C49"],
   variants=[dict(name="key", types={"arg": "args:v"}), dict(name="key-default", types={"arg": "args:v,v"})],
   ensures=["dhas(self, arg[0])", "implies(not old(dhas(self, arg[0])), " + EVENT + ")"], modifies=FR)

Lk = M + "MutableList."
TL = {"x": "v"}
fn(Lk + "append", cls="MutableList", props=["C49"], returns="none", ensures=["contents(self) == old(contents(self)) + [x]", EVENT], modifies=FR)
fn(Lk + "extend", cls="MutableList", props=["C49"], returns="none", types={"x": "seq"},
   ensures=["contents(self) == old(contents(self)) + x", EVENT], modifies=FR)
fn(Lk + "__iadd__", cls="MutableList", props=["C49"], types={"x": "seq"},
   ensures=["result is self", "contents(self) == old(contents(self)) + x", EVENT], modifies=FR)
fn(Lk + "insert", cls="MutableList", props=["C49"], returns="none", types={"i": "int"},
   ensures=["len(self) == old(len(self)) + 1", EVENT], modifies=FR)
fn(Lk + "remove", cls="MutableList", props=["C49"], returns="none", raises={"ValueError": "i not in contents(self)"},
   ensures=["len(self) == old(len(self)) - 1", EVENT], modifies=FR)
fn(Lk + "clear", cls="MutableList", props=["C49"], returns="none", ensures=["len(self) == 0", EVENT], modifies=FR)
fn(Lk + "reverse", cls="MutableList", props=["C49"], returns="none", ensures=["contents(self) == rev(old(contents(self)))", EVENT], modifies=FR)
fn(Lk + "pop", cls="MutableList", props=["C49"],
   variants=[dict(name="last", types={"arg": "args:"}, raises={"IndexError": "len(self) == 0"}),
             dict(name="index", types={"arg": "args:int"}, raises={"IndexError": "not (-len(self) <= arg[0] and arg[0] < len(self))"})],
   ensures=["len(self) == old(len(self)) - 1", EVENT], modifies=FR)
fn(Lk + "__setitem__", cls="MutableList", props=["C49"], returns="none", types={"index": "int"},
   raises={"IndexError": "not (-len(self) <= index and index < len(self))"},
   ensures=["len(self) == old(len(self))", EVENT], modifies=FR)
fn(Lk + "__delitem__", cls="MutableList", props=["C49"], returns="none", types={"index": "int"},
   raises={"IndexError": "not (-len(self) <= index and index < len(self))"},
   ensures=["len(self) == old(len(self)) - 1", EVENT], modifies=FR)

S = M + "MutableSet."
fn(S + "add", cls="MutableSet", props=["C49"], returns="none", ensures=["elem in self", EVENT], modifies=FR)
fn(S + "discard", cls="MutableSet", props=["C49"], returns="none", ensures=["elem not in self", "implies(old(elem in self), " + EVENT + ")"], modifies=FR)
fn(S + "remove", cls="MutableSet", props=["C49"], returns="none", raises={"KeyError": "elem not in self"}, ensures=["elem not in self", EVENT], modifies=FR)
fn(S + "clear", cls="MutableSet", props=["C49"], returns="none", ensures=["not any(True for x in self)", EVENT], modifies=FR)
for name in ("update", "intersection_update", "difference_update", "symmetric_difference_update"):
    fn(S + name, cls="MutableSet", props=["C49"], returns="none", types={"arg": "args:set"}, ensures=[EVENT], modifies=FR)
for name, meth in (("__ior__", "update"), ("__iand__", "intersection_update"), ("__ixor__", "symmetric_difference_update"), ("__isub__", "difference_update")):
    fn(S + name, cls="MutableSet", props=["C49"], types={"other": "set"}, ensures=["result is self", EVENT], modifies=FR)
