"""C26 (part): pool/base.py::_ConnectionRecord — the record layer: no half-open record, an invalidated or stale connection is
closed and never handed out, every finalizer runs.  Ghost per DBAPI connection: `closed`.  DESIGN §5 C26.
"""
from pyvc.contract import fn, cls

R = "pool/base.py::_ConnectionRecord."
cls("DBConn", fields={"closed": "bool", "_g_dead": "bool"})    # _g_dead: ghost, "a disconnect was detected on this connection"
cls("RDispatch", fields={"checkin": "v", "close": "v", "first_connect": "v", "connect": "v"})
cls("RPool", fields={"dispatch": "RDispatch", "_recycle": "int", "_invalidate_time": "int", "logger": "v", "returned": "int"},
    methods={"_invoke_creator": "pool/base.py::Pool._invoke_creator", "_close_connection": "pool/base.py::Pool._close_connection",
             "_return_conn": "pool/base.py::Pool._return_conn"})
cls("CRecord", fields={"dbapi_connection": "DBConn", "__pool": "RPool", "starttime": "int", "_soft_invalidate_time": "int", "fresh": "bool",
                       "finalize_callback": "deque", "fairy_ref": "v", "info": "dict"},
    methods={n: R + n for n in ["__close", "__connect", "close", "invalidate", "get_connection", "checkin", "_is_hard_or_soft_invalidated"]})

fn("pool/base.py::Pool._invoke_creator", abstract=True, cls="RPool", params=["self", "rec"], returns="DBConn", fresh_result=True,
   ensures=["not result.closed", "not result._g_dead"], may_raise={"BaseException": "True"},
   notes="creator returns a new open DBAPI connection (on which no disconnect has been detected) or raises with nothing opened")
fn("pool/base.py::Pool._close_connection", abstract=True, cls="RPool", params=["self", "connection", "terminate"], types={"connection": "DBConn"},
   returns="none", modifies=["connection.closed"], ensures=["connection.closed"],
   notes="dialect.do_close / do_terminate; exceptions are swallowed there: the connection counts as closed (close attempted)")
fn("pool/base.py::Pool._return_conn", abstract=True, cls="RPool", params=["self", "record"], returns="none",
   modifies=["self.returned"], ensures=["self.returned == old(self.returned) + 1"], may_raise={"Exception": "True"})

T = {"pool": "RPool", "connection": "DBConn", "finalizer": "fn", "terminate": "bool", "soft": "bool", "recycle": "bool", "_fairy_was_created": "bool"}
NOOP = {"self.__pool.dispatch.close": "noop", "self.__pool.dispatch.soft_invalidate": "noop", "self.__pool.dispatch.invalidate": "noop",
        "self.__pool.logger.info": "noop", "pool.logger.debug": "noop", "util.warn": "noop", "pool.dispatch.checkin": "noop",
        "pool.dispatch.first_connect.for_modify(pool.dispatch).exec_once_unless_exception": "noop",
        "pool.dispatch.connect.for_modify(pool.dispatch)._exec_w_sync_on_first_run": "noop",
        "time.time": "havoc:int", "self.info.clear": "noop"}
C = "self.dbapi_connection"
OC = "old(self.dbapi_connection)"

fn(R + "__close", cls="CRecord", props=["C26"], types=T, callees=NOOP, returns="none",
   requires=[f"{C} is not None"],
   ensures=[f"{C} is None", f"{OC}.closed", "len(self.finalize_callback) == 0"],
   modifies=["self.dbapi_connection", f"{C}.closed", "contents(self.finalize_callback)"])
fn(R + "__connect", cls="CRecord", props=["C26"], types=T, callees=NOOP, returns="none",
   ensures=[f"{C} is not None and fresh({C}) and not {C}.closed and not {C}._g_dead", "self.fresh"],
   may_raise={"BaseException": "True"},
   # no half-open record: a failed connect leaves the record without a connection
   exc_ensures={"BaseException": [f"{C} is None"]},
   modifies=["self.dbapi_connection", "self.starttime", "self.fresh"])
fn(R + "close", cls="CRecord", props=["C26"], types=T, callees=NOOP, returns="none",
   ensures=[f"{C} is None", f"implies({OC} is not None, {OC}.closed)"],
   modifies=["self.dbapi_connection", f"{C}.closed", "contents(self.finalize_callback)"])
fn(R + "invalidate", cls="CRecord", props=["C26"], types=T, callees=NOOP, returns="none",
   ensures=[f"implies(not soft, {C} is None and implies({OC} is not None, {OC}.closed))",
            f"implies(soft, {C} is {OC} and implies({OC} is not None, {OC}.closed == old({OC}.closed)))",
            f"implies({OC} is None, self._soft_invalidate_time == old(self._soft_invalidate_time))"],
   modifies=["self.dbapi_connection", f"{C}.closed", "contents(self.finalize_callback)", "self._soft_invalidate_time"])
STALE = (f"({OC} is not None and ((self.__pool._recycle > -1 and True) or self.__pool._invalidate_time > old(self.starttime) "
         f"or old(self._soft_invalidate_time) > old(self.starttime)))")
INVALIDATED = f"({OC} is not None and (self.__pool._invalidate_time > old(self.starttime) or old(self._soft_invalidate_time) > old(self.starttime)))"
fn(R + "get_connection", cls="CRecord", props=["C26"], types=T, callees=NOOP, returns="DBConn",
   requires=[f"implies({C} is not None, not {C}.closed)"],
   ensures=[f"result is {C} and result is not None and not result.closed",
            # a connection that was invalidated (pool-wide or softly) is closed and not handed out
            f"implies({INVALIDATED}, {OC}.closed and result is not {OC} and fresh(result))",
            f"implies({OC} is None, fresh(result))",
            # a replacement is a brand-new connection: no disconnect has been detected on it; there is no third possibility
            "implies(fresh(result), not result._g_dead)", f"result is {OC} or fresh(result)",
            # a kept connection is the old one, untouched
            f"implies(result is {OC}, not {INVALIDATED})"],
   may_raise={"BaseException": "True"},
   exc_ensures={"BaseException": [f"{C} is None", f"implies({OC} is not None, {OC}.closed)"]},
   modifies=["self.dbapi_connection", f"{C}.closed", "contents(self.finalize_callback)", "self.starttime", "self.fresh", "contents(self.info)"])
fn(R + "_is_hard_or_soft_invalidated", cls="CRecord", props=["C26"], types=T, returns="bool",
   ensures=[f"result == ({C} is None or self.__pool._invalidate_time > self.starttime or self._soft_invalidate_time > self.starttime)"], modifies=[])
fn(R + "checkin", cls="CRecord", props=["C26"], types=T, callees=NOOP, returns="none",
   invariant={0: ["connection is old(self.dbapi_connection)", "self.__pool.returned == old(self.__pool.returned)", "self.fairy_ref is None",
                  "pool is self.__pool"]},
   ensures=[
       # a double check-in returns without handing the record back again
       "implies(old(self.fairy_ref) is None and _fairy_was_created, self.__pool.returned == old(self.__pool.returned))",
       "implies(not (old(self.fairy_ref) is None and _fairy_was_created), self.fairy_ref is None and len(self.finalize_callback) == 0 and "
       "self.__pool.returned == old(self.__pool.returned) + 1)"],
   may_raise={"Exception": "True"},
   modifies=["self.fairy_ref", "contents(self.finalize_callback)", "self.__pool.returned"])

# a failed checkout (connect / pre-ping / checkout-event failure): the record is emptied and handed back to the pool exactly once
from pyvc.contract import CLASSES as _CL  # noqa: E402
_CL["CRecord"].methods["_checkin_failed"] = R + "_checkin_failed"
fn(R + "_checkin_failed", cls="CRecord", props=["C26"], types=dict(T, err="v"), callees=NOOP, returns="none",
   ensures=[f"{C} is None", f"implies({OC} is not None, {OC}.closed)",
            "implies(not (old(self.fairy_ref) is None and _fairy_was_created), self.fairy_ref is None and self.__pool.returned == old(self.__pool.returned) + 1)"],
   may_raise={"Exception": "True"},
   # even when the check-in itself fails, no connection stays in the record
   exc_ensures={"Exception": [f"{C} is None", f"implies({OC} is not None, {OC}.closed)"]},
   modifies=["self.dbapi_connection", f"{C}.closed", "contents(self.finalize_callback)", "self._soft_invalidate_time", "self.fairy_ref", "self.__pool.returned"])

# construction: a record either comes into being with a fresh open connection, or (creator failed) not at all
_CL["CRecord"].methods["__init__"] = R + "__init__"
fn(R + "__init__", cls="CRecord", props=["C26"], types=dict(T, connect="bool"), callees=dict(NOOP, deque="newdeque"), returns="none",
   ensures=["self.__pool is pool", "self.fairy_ref is None", "len(self.finalize_callback) == 0 and fresh(self.finalize_callback)",
            f"implies(connect, {C} is not None and fresh({C}) and not {C}.closed)", f"implies(not connect, {C} is None)"],
   may_raise={"BaseException": "connect"},
   exc_ensures={"BaseException": [f"{C} is None"]},
   modifies=["self.fresh", "self.fairy_ref", "self.starttime", "self.dbapi_connection", "self.__pool", "self.finalize_callback"])
