"""C54 (part): util/_collections_cy.py::OrderedSet and unique_list (pure-Python source; DESIGN §5 C54, App. B.1).

rep:  no_dups(_list)  and  the set part has exactly the members of _list.     view = contents(self._list)
Spec functions: addall(s, t) = s ++ first occurrences of the members of t not already present (set semantics with
first-insertion order); filt(p, s) = order-preserving filter.
"""
from pyvc.contract import fn, cls

O = "util/_collections_cy.py::OrderedSet."
NAMES = ["__init__", "copy", "_from_list", "add", "remove", "pop", "insert", "discard", "clear", "__getitem__", "__iter__", "__add__",
         "update", "__ior__", "union", "__or__", "intersection", "__and__", "symmetric_difference", "__xor__", "difference", "__sub__",
         "intersection_update", "__iand__", "symmetric_difference_update", "__ixor__", "difference_update", "__isub__"]
cls("OrderedSet", isa="set", fields={"_list": "list"},
    rep=["no_dups(self._list)", "all(x in self for x in self._list)", "all(x in self._list for x in self)"],
    methods={n: O + n for n in NAMES})
L = "contents(self._list)"
OL = "old(contents(self._list))"
COMMON = dict(cls="OrderedSet", props=["C54"], consts={"OrderedSet": "class"})
UNCH = [f"{L} == {OL}"]
MOD = ["self._list", "contents(self._list)", "contents(self)"]

fn("util/_collections_cy.py::unique_list", props=["C54"], types={"seq": "list"}, returns="list", fresh_result=True,
   ensures=["contents(result) == addall([], contents(seq))"], modifies=[], harness="orderedset.unique_list")

fn(O + "_from_list", returns="OrderedSet", fresh_result=True, types={"new_list": "list"}, requires=["no_dups(new_list)"],
   ensures=["result._list is new_list", "all(x in result for x in new_list)", "all(x in new_list for x in result)"],
   modifies=[], **COMMON)
fn(O + "copy", returns="OrderedSet", fresh_result=True,
   ensures=[f"contents(result._list) == {L}", "result._list is not self._list"], modifies=[], harness="orderedset.copy", **COMMON)
fn(O + "add", returns="none", ensures=[f"{L} == ite(element in {OL}, {OL}, {OL} + [element])"], modifies=MOD, harness="orderedset.add", **COMMON)
fn(O + "remove", returns="none", raises={"KeyError": "element not in self"},
   ensures=[f"{L} == {OL}[:index({OL}, element)] + {OL}[index({OL}, element) + 1:]", "element not in self._list"],
   modifies=MOD, harness="orderedset.remove", **COMMON)
fn(O + "discard", returns="none",
   ensures=[f"implies(old(element in self), {L} == {OL}[:index({OL}, element)] + {OL}[index({OL}, element) + 1:])",
            f"implies(not old(element in self), {L} == {OL})", "element not in self._list"],
   modifies=MOD, harness="orderedset.discard", **COMMON)
fn(O + "pop", raises={"KeyError": "len(self._list) == 0"},
   ensures=[f"result is {OL}[-1]", f"{L} == {OL}[:-1]"], modifies=MOD, harness="orderedset.pop", **COMMON)
fn(O + "insert", returns="none", types={"pos": "int"},
   ensures=[f"implies(old(element in self), {L} == {OL})",
            f"implies(not old(element in self), {L} == {OL}[:pos] + [element] + {OL}[pos:])"],
   modifies=MOD, harness="orderedset.insert", **COMMON)
fn(O + "clear", returns="none", ensures=[f"len(self._list) == 0"], modifies=MOD, harness="orderedset.clear", **COMMON)
fn(O + "__getitem__", types={"key": "int"},
   raises={"IndexError": "not (-len(self._list) <= key and key < len(self._list))"},
   ensures=[f"result is {L}[key]"], modifies=[], harness="orderedset.getitem", **COMMON)
fn(O + "__iter__", returns="seq", ensures=[f"result == {L}"], modifies=[], **COMMON)

# update(*iterables): one iterable, as a list (with duplicates) or as a set (arbitrary order)
UPD_INV = {1: [f"{L} == addall(entry({L}), prefix(seq(iterable), _i))", "no_dups(self._list)",
               "all(x in self for x in self._list)", "all(x in self._list for x in self)"]}
fn(O + "update", returns="none",
   variants=[dict(name="list", types={"iterables": "args:list", "iterable": "list"}, requires=["iterables[0] is not self._list"]),
             dict(name="set", types={"iterables": "args:set", "iterable": "set"}),
             dict(name="two-lists", types={"iterables": "args:list,list", "iterable": "list"},
                  requires=["iterables[0] is not self._list", "iterables[1] is not self._list"])],
   invariant=UPD_INV,
   ensures=[f"implies(len(iterables) == 1, {L} == addall({OL}, seq(iterables[0])))",
            f"implies(len(iterables) == 2, {L} == addall(addall({OL}, seq(iterables[0])), seq(iterables[1])))"],
   modifies=MOD, harness="orderedset.update", **COMMON)
fn(O + "__ior__", returns="OrderedSet", types={"iterable": "set"},
   ensures=["result is self", f"{L} == addall({OL}, seq(iterable))"], modifies=MOD, harness="orderedset.ior", **COMMON)
fn(O + "union", returns="OrderedSet", fresh_result=True,
   variants=[dict(name="list", types={"other": "args:list"}), dict(name="set", types={"other": "args:set"})],
   ensures=[f"contents(result._list) == addall({L}, seq(other[0]))", f"{L} == {OL}"],
   modifies=[], harness="orderedset.union", **COMMON)
fn(O + "__or__", returns="OrderedSet", fresh_result=True, types={"other": "set"},
   ensures=[f"contents(result._list) == addall({L}, seq(other))", f"{L} == {OL}"], modifies=[], **COMMON)
fn(O + "__add__", returns="OrderedSet", fresh_result=True, types={"other": "list"},
   ensures=[f"contents(result._list) == addall({L}, seq(other))", f"{L} == {OL}"], modifies=[], **COMMON)

fn(O + "intersection", returns="OrderedSet", fresh_result=True, types={"other_set": "set"},
   variants=[dict(name="set", types={"other": "args:set"}), dict(name="list", types={"other": "args:list"})],
   ensures=[f"contents(result._list) == filt(lambda a: a in other[0], {L})", f"{L} == {OL}"], modifies=[], harness="orderedset.intersection", **COMMON)
fn(O + "__and__", returns="OrderedSet", fresh_result=True, types={"other": "set"},
   ensures=[f"contents(result._list) == filt(lambda a: a in other, {L})", f"{L} == {OL}"], modifies=[], **COMMON)
fn(O + "difference", returns="OrderedSet", fresh_result=True, types={"other_set": "set"},
   variants=[dict(name="set", types={"other": "args:set"}), dict(name="list", types={"other": "args:list"})],
   ensures=[f"contents(result._list) == filt(lambda a: a not in other[0], {L})", f"{L} == {OL}"], modifies=[], harness="orderedset.difference", **COMMON)
fn(O + "__sub__", returns="OrderedSet", fresh_result=True, types={"other": "set"},
   ensures=[f"contents(result._list) == filt(lambda a: a not in other, {L})", f"{L} == {OL}"], modifies=[], **COMMON)
fn(O + "intersection_update", returns="none",
   variants=[dict(name="set", types={"other": "args:set"}), dict(name="list", types={"other": "args:list"})],
   ensures=[f"{L} == filt(lambda a: a in other[0], {OL})"], modifies=MOD, harness="orderedset.intersection_update", **COMMON)
fn(O + "__iand__", returns="OrderedSet", types={"other": "set"},
   ensures=["result is self", f"{L} == filt(lambda a: a in other, {OL})"], modifies=MOD, **COMMON)
fn(O + "difference_update", returns="none",
   variants=[dict(name="set", types={"other": "args:set"}), dict(name="list", types={"other": "args:list"})],
   ensures=[f"{L} == filt(lambda a: a not in other[0], {OL})"], modifies=MOD, harness="orderedset.difference_update", **COMMON)
fn(O + "__isub__", returns="OrderedSet", types={"other": "set"},
   ensures=["result is self", f"{L} == filt(lambda a: a not in other, {OL})"], modifies=MOD, **COMMON)

SYM = f"addall(filt(lambda a: a not in other, {OL}), filt(lambda a: a not in {OL}, seq(other)))"
fn(O + "symmetric_difference", returns="OrderedSet", fresh_result=True, types={"other_set": "set", "collection": "list"},
   variants=[dict(name="set", types={"other": "set", "collection": "set"}), dict(name="list", types={"other": "list"})],
   ensures=[f"contents(result._list) == {SYM}", f"{L} == {OL}"], modifies=[], harness="orderedset.symmetric_difference", **COMMON)
fn(O + "__xor__", returns="OrderedSet", fresh_result=True, types={"other": "set"},
   ensures=[f"contents(result._list) == {SYM}", f"{L} == {OL}"], modifies=[], **COMMON)
fn(O + "symmetric_difference_update", returns="none", types={"collection": "list"},
   variants=[dict(name="set", types={"other": "set", "collection": "set"}), dict(name="list", types={"other": "list"})],
   ensures=[f"{L} == {SYM}"], modifies=MOD, harness="orderedset.symmetric_difference_update", **COMMON)
fn(O + "__ixor__", returns="OrderedSet", types={"other": "set"},
   ensures=["result is self", f"{L} == {SYM}"], modifies=MOD, **COMMON)
