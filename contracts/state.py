"""C35 (partition part): the five lifecycle predicates of InstanceState.  DESIGN §5 C35."""
from pyvc.contract import fn, cls

cls("InstanceState", fields={"key": "v", "_attached": "bool", "_deleted": "bool", "session_id": "v"})

# `_attached` is a (non-memoized) property computed from session_id; the five predicates read it as an
# attribute.  Its own contract is below; here it is a boolean field of the abstract state.
_COMMON = dict(cls="InstanceState", props=["C35"], returns="bool", modifies=[])

fn("orm/state.py::InstanceState.transient", ensures=["result == (self.key is None and not self._attached)"], **_COMMON)
fn("orm/state.py::InstanceState.pending", ensures=["result == (self.key is None and self._attached)"], **_COMMON)
fn("orm/state.py::InstanceState.persistent",
   ensures=["result == (self.key is not None and self._attached and not self._deleted)"], **_COMMON)
fn("orm/state.py::InstanceState.deleted",
   ensures=["result == (self.key is not None and self._attached and self._deleted)"], **_COMMON)
fn("orm/state.py::InstanceState.detached", ensures=["result == (self.key is not None and not self._attached)"], **_COMMON)

# the property statement: exactly one of the five holds -- a lemma over the five contracts' postconditions
# (checked as a quantifier-free validity over (key is None, _attached, _deleted) in checks/C35.py, and
# additionally directly on the five *bodies* composed, see checks/C35.py::partition_obligation)
