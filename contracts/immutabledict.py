"""C54 (part): util/_immutabledict_cy.py::immutabledict._union_other (behind union / merge_with) and the refusing mutators.

"immutabledict ... whose merge/union return correct copies": for every key, the result holds it iff self or one of the
arguments holds it, with the value of the LAST argument that has it (else self's) -- exactly dict.update semantics applied in
order -- and neither self nor any argument is modified.  The fast paths (nothing to merge: self / the only non-empty
immutabledict is returned as is) are covered by the same clause.  Pure-Python source text (DESIGN §5 C54).
"""
from pyvc.contract import fn, cls

I = "util/_immutabledict_cy.py::immutabledict."
cls("immutabledict", isa="dict", fields={})
HASJ = "dhas(others[j], k)"
LASTJ = ("(0 <= j and j < len(others) and " + HASJ + " and all(not dhas(others[j2], k) for j2 in range(j + 1, len(others))))")
T = {"others": "seq", "elems:others": "dict", "expr:others[i]": "dict", "expr:others[j]": "dict", "expr:others[j2]": "dict", "d": "dict",
     "size": "int", "self_is_empty": "bool", "only_one": "v", "result": "immutabledict", "expr:only_one": "dict"}


def MERGED(upto, res="result"):
    """res == self merged with others[:upto] in order"""
    has = f"forall(lambda k: dhas({res}, k) == (dhas(self, k) or any(dhas(others[j], k) for j in range({upto}))))"
    last = (f"all(forall(lambda k: implies(dhas(others[j], k) and all(not dhas(others[j2], k) for j2 in range(j + 1, {upto})), "
            f"dget({res}, k) is dget(others[j], k))) for j in range({upto}))")
    mine = f"forall(lambda k: implies(dhas(self, k) and not any(dhas(others[j], k) for j in range({upto})), dget({res}, k) is dget(self, k)))"
    return [has, last, mine]


fn(I + "_union_other", cls="immutabledict", props=["C54"], types=T, returns="immutabledict",
   callees={"PyDict_Update": "builtin:dict:update", "immutabledict": "newobj:immutabledict"},
   requires=["all(isinst(others[j], dict) or isinst(others[j], immutabledict) for j in range(len(others)))",
             "all(others[j] is not None for j in range(len(others)))"],
   invariant={0: ["self_is_empty == (len(keys(self)) == 0)",
                  # only_one is False: nothing with contents seen yet
                  "implies(only_one is False, len(keys(self)) == 0 and all(len(keys(others[j])) == 0 for j in range(_i)))",
                  # only_one is self: self has contents, no argument seen so far has
                  "implies(only_one is self and only_one is not False, len(keys(self)) > 0 and all(len(keys(others[j])) == 0 for j in range(_i)))",
                  # only_one is an argument: the single non-empty thing seen so far, and it is an immutabledict
                  "implies(only_one is not False and only_one is not None and only_one is not self, len(keys(self)) == 0 and isinst(only_one, immutabledict) and "
                  "any(others[j0] is only_one and all(implies(j != j0, len(keys(others[j])) == 0) for j in range(_i)) for j0 in range(_i)))"],
              1: MERGED("_i")},
   loop_modifies={0: [], 1: ["contents(result)"]},
   ensures=MERGED("len(others)") + ["result is self or result in others or fresh(result)", "isinst(result, immutabledict)"],
   # nothing that existed before is modified: the result is either an existing dict returned as is, or a new one
   modifies=[])

CLS = __import__("pyvc.contract", fromlist=["CLASSES"]).CLASSES
CLS["immutabledict"].methods = {"_union_other": I + "_union_other"}
fn("util/_immutabledict_cy.py::_immutable_fn", props=["C54"], types={"obj": "v"}, returns="none", raises={"TypeError": "True"}, ensures=["False"], modifies=[])
# every mutator refuses and changes nothing
for name in ("__delitem__", "__setitem__", "clear", "pop", "popitem", "setdefault", "update", "__ior__"):
    fn(I + name, cls="immutabledict", props=["C54"], returns="none", callees={"_immutable_fn": "util/_immutabledict_cy.py::_immutable_fn"},
       raises={"TypeError": "True"}, ensures=["False"], modifies=[])
# union / merge_with: aliases of _union_other (verified for one argument; the general statement is _union_other's)
ONE = ["forall(lambda k: dhas(result, k) == (dhas(self, k) or dhas(dicts[0], k)))",
       "forall(lambda k: implies(dhas(dicts[0], k), dget(result, k) is dget(dicts[0], k)))",
       "forall(lambda k: implies(dhas(self, k) and not dhas(dicts[0], k), dget(result, k) is dget(self, k)))",
       "isinst(result, immutabledict)"]
for name in ("union", "merge_with"):
    fn(I + name, cls="immutabledict", props=["C54"], returns="immutabledict", types={"dicts": "args:dict"},
       callees={"self._union_other": dict(fn=I + "_union_other", recv="self", args=["seq(dicts)"])},
       requires=["dicts[0] is not None"], ensures=ONE, modifies=[])
