"""C10 (part): engine/cursor.py::BufferedRowCursorFetchStrategy — every row is delivered exactly once and in order.

Ghost: dbapi_cursor.rem = rows the DBAPI cursor has not handed out yet (assumed DBAPI contract: fetchmany(n>=1) returns and
removes rem[:n]; fetchall() returns and removes all of it).  View:  total = contents(self._rowbuffer) ++ dbapi_cursor.rem.
DESIGN §5 C10.
"""
from pyvc.contract import fn, cls

B = "engine/cursor.py::BufferedRowCursorFetchStrategy."
cls("DBCursor", fields={"rem": "seqv"},
    methods={"fetchmany": "dbapi::Cursor.fetchmany", "fetchall": "dbapi::Cursor.fetchall"})
cls("ResultObj", fields={"soft_closed": "bool"})
cls("BufStrategy", fields={"_rowbuffer": "deque", "_bufsize": "int", "_max_row_buffer": "int", "_growth_factor": "int"},
    methods={n: B + n for n in ["_buffer_rows", "fetchone", "fetchmany", "fetchall"]})

fn("dbapi::Cursor.fetchmany", abstract=True, cls="DBCursor", params=["self", "size"], types={"size": "int"}, returns="list", fresh_result=True,
   requires=["size >= 1"], modifies=["self.rem"],
   ensures=["contents(result) == old(self.rem)[:size]", "self.rem == old(self.rem)[size:]"],
   may_raise={"BaseException": "True"}, notes="PEP 249 cursor; fetchmany(0) is driver-defined and never issued here (call-site obligation)")
fn("dbapi::Cursor.fetchall", abstract=True, cls="DBCursor", params=["self"], returns="list", fresh_result=True,
   modifies=["self.rem"], ensures=["contents(result) == old(self.rem)", "len(self.rem) == 0"], may_raise={"BaseException": "True"})
fn("engine/cursor.py::CursorFetchStrategy.handle_exception", abstract=True, cls="BufStrategy", params=["self", "result", "dbapi_cursor", "err"],
   raises={"Exception": "True"}, returns="none", notes="NoReturn: re-raises through the connection's error handling")
# CursorResult._soft_close -> strategy.soft_close clears the row buffer (which is why fetchmany defers it)
fn("engine/cursor.py::CursorResult._soft_close", abstract=True, cls="ResultObj", params=["self", "strategy", "hard"], types={"strategy": "BufStrategy"},
   returns="none", modifies=["self.soft_closed", "contents(strategy._rowbuffer)"],
   ensures=["self.soft_closed", "len(strategy._rowbuffer) == 0"], may_raise={"BaseException": "True"})

T = {"result": "ResultObj", "dbapi_cursor": "DBCursor", "new_rows": "list", "new": "list", "rb": "deque", "size": "int", "lb": "int", "close": "bool",
     "hard_close": "bool", "res": "list"}
CAL = {"self.handle_exception": "engine/cursor.py::CursorFetchStrategy.handle_exception", "collections.deque": "newdeque",
       "result._soft_close": dict(fn="engine/cursor.py::CursorResult._soft_close", recv="result", args=["self", "False"])}
TOTAL = "contents(self._rowbuffer) + dbapi_cursor.rem"
OTOTAL = "old(contents(self._rowbuffer) + dbapi_cursor.rem)"
MOD = ["self._rowbuffer", "contents(self._rowbuffer)", "self._bufsize", "dbapi_cursor.rem", "result.soft_closed"]

fn(B + "_buffer_rows", cls="BufStrategy", props=["C10"], types=T, callees=CAL, returns="none",
   # it *replaces* the buffer: a non-empty buffer would lose rows (obligation at its call site in fetchone)
   requires=["len(self._rowbuffer) == 0"],
   ensures=[f"{TOTAL} == {OTOTAL}",
            "implies(old(len(dbapi_cursor.rem)) > 0, len(self._rowbuffer) > 0)",
            "implies(old(len(dbapi_cursor.rem)) == 0, len(self._rowbuffer) == 0)",
            "self._rowbuffer is old(self._rowbuffer) or fresh(self._rowbuffer)",
            # growth law: the buffer size never exceeds max(_max_row_buffer, its old value)
            "self._bufsize == old(self._bufsize) or self._bufsize == min(self._max_row_buffer, old(self._bufsize) * self._growth_factor)"],
   may_raise={"Exception": "True"}, modifies=["self._rowbuffer", "self._bufsize", "dbapi_cursor.rem"])

fn(B + "fetchone", cls="BufStrategy", props=["C10"], types=T, callees=CAL,
   ensures=[f"implies(len({OTOTAL}) == 0, result is None)",
            f"implies(len({OTOTAL}) > 0, result is {OTOTAL}[0] and {TOTAL} == {OTOTAL}[1:])"],
   may_raise={"Exception": "True"}, modifies=MOD)
fn(B + "fetchall", cls="BufStrategy", props=["C10"], types=T, callees=CAL, returns="seq",
   ensures=[f"result == {OTOTAL}", f"len({TOTAL}) == 0"],
   may_raise={"Exception": "True"}, modifies=MOD)
fn(B + "fetchmany", cls="BufStrategy", props=["C10"], types=dict(T, size="v"), callees=dict(CAL, **{"self.fetchall": B + "fetchall"}), returns="v",
   variants=[dict(name="sized", types={"size": "int"}, requires=["size >= 0"],
                  ensures=[f"contents(result) == {OTOTAL}[:size]", f"{TOTAL} == {OTOTAL}[len(contents(result)):]"]),
             dict(name="none", requires=["size is None"], ensures=[f"len({TOTAL}) == 0"])],
   may_raise={"BaseException": "True"}, modifies=MOD)

# ---- FullyBufferedCursorFetchStrategy: everything is in the deque already; view total = contents(self._rowbuffer)
F = "engine/cursor.py::FullyBufferedCursorFetchStrategy."
cls("FBStrategy", fields={"_rowbuffer": "deque"}, methods={n: F + n for n in ["fetchone", "fetchmany", "fetchall"]})
FT = "contents(self._rowbuffer)"
OFT = "old(contents(self._rowbuffer))"
FMOD = ["self._rowbuffer", "contents(self._rowbuffer)", "result.soft_closed"]
FCAL = {"collections.deque": "newdeque",
        "result._soft_close": dict(fn="engine/cursor.py::CursorResult._soft_close@fb", recv="result", args=["self"])}
fn("engine/cursor.py::CursorResult._soft_close@fb", abstract=True, cls="ResultObj", params=["self", "strategy"], types={"strategy": "FBStrategy"},
   returns="none", modifies=["self.soft_closed", "contents(strategy._rowbuffer)"],
   ensures=["self.soft_closed", "len(strategy._rowbuffer) == 0"], may_raise={"BaseException": "True"},
   notes="CursorResult._soft_close -> strategy.soft_close clears the row buffer")
fn(F + "fetchone", cls="FBStrategy", props=["C10"], types=T, callees=FCAL,
   ensures=[f"implies(len({OFT}) == 0, result is None and len({FT}) == 0)",
            f"implies(len({OFT}) > 0, result is {OFT}[0] and {FT} == {OFT}[1:])"],
   may_raise={"BaseException": "True"}, modifies=FMOD)
fn(F + "fetchall", cls="FBStrategy", props=["C10"], types=T, callees=FCAL, returns="deque",
   ensures=[f"contents(result) == {OFT}", f"len({FT}) == 0"],
   may_raise={"BaseException": "True"}, modifies=FMOD)
fn(F + "fetchmany", cls="FBStrategy", props=["C10"], types=dict(T, size="v", rows="list"), callees=dict(FCAL, **{"self.fetchall": F + "fetchall"}), returns="v",
   variants=[dict(name="sized", types={"size": "int"},
                  ensures=[f"contents(result) == {OFT}[:ite(size < 0, 0, size)]", f"implies(len(contents(result)) > 0, {FT} == {OFT}[len(contents(result)):])",
                           # an empty batch (buffer exhausted, or size <= 0) soft-closes the result, which empties the buffer
                           f"implies(len(contents(result)) == 0, len({FT}) == 0)"]),
             dict(name="none", requires=["size is None"], ensures=[f"len({FT}) == 0", f"contents(result) == {OFT}"])],
   may_raise={"BaseException": "True"}, modifies=FMOD)

# ---- CursorFetchStrategy (unbuffered, the default): rows pass through from the DBAPI cursor unchanged; the result is
# soft-closed exactly when the cursor reports exhaustion (None / empty batch / after fetchall)
P = "engine/cursor.py::CursorFetchStrategy."
cls("PlainStrategy", fields={}, methods={n: P + n for n in ["fetchone", "fetchmany", "fetchall"]})
fn("dbapi::Cursor.fetchone", abstract=True, cls="DBCursor", params=["self"], returns="v",
   modifies=["self.rem"], ensures=["implies(len(old(self.rem)) == 0, result is None and len(self.rem) == 0)",
                                   "implies(len(old(self.rem)) > 0, result is old(self.rem)[0] and result is not None and self.rem == old(self.rem)[1:])"],
   may_raise={"BaseException": "True"}, notes="PEP 249 fetchone: next row or None")
import pyvc.contract as _pc  # noqa: E402
_pc.CLASSES["DBCursor"].methods["fetchone"] = "dbapi::Cursor.fetchone"
fn("engine/cursor.py::CursorResult._soft_close@plain", abstract=True, cls="ResultObj", params=["self"], returns="none",
   modifies=["self.soft_closed"], ensures=["self.soft_closed"], may_raise={"BaseException": "True"})
PCAL = {"self.handle_exception": "engine/cursor.py::CursorFetchStrategy.handle_exception",
        "result._soft_close": dict(fn="engine/cursor.py::CursorResult._soft_close@plain", recv="result", args=[])}
PMOD = ["dbapi_cursor.rem", "result.soft_closed"]
REM, OREM = "dbapi_cursor.rem", "old(dbapi_cursor.rem)"
RC = "result.soft_closed"
fn(P + "fetchone", cls="PlainStrategy", props=["C10"], types=dict(T, row="v"), callees=PCAL,
   ensures=[f"implies(len({OREM}) == 0, result is None)",
            f"implies(len({OREM}) > 0, result is {OREM}[0] and {REM} == {OREM}[1:])"],
   may_raise={"Exception": "True"}, modifies=PMOD)
fn(P + "fetchmany", cls="PlainStrategy", props=["C10"], types=dict(T, size="int", l="list"), callees=PCAL, returns="list",
   requires=["size is not None", "size >= 1"],
   ensures=[f"contents(result) == {OREM}[:size]", f"{REM} == {OREM}[size:]"],
   may_raise={"Exception": "True"}, modifies=PMOD)
fn(P + "fetchall", cls="PlainStrategy", props=["C10"], types=dict(T, rows="list"), callees=PCAL, returns="list",
   ensures=[f"contents(result) == {OREM}", f"len({REM}) == 0"],
   may_raise={"Exception": "True"}, modifies=PMOD)
