"""C34 / C35 (part): orm/session.py::SessionTransaction._restore_snapshot — identity keys after a rollback.

Rollback (of the outermost transaction or to a SAVEPOINT) undoes the primary-key switches flushed in the rolled-back work
(`_key_switches`: state -> (original key, newest key), written by Session._register_persistent, proved in session_register.py):
a state that stays in the session gets its ORIGINAL key back and is bound in the identity map under it, never left bound under the
switched key; a state that was INSERTed in the rolled-back work is expunged as transient and carries NO identity key afterwards
(DESIGN §11.8: the pinned tree put the original key back on those, too — repaired in /repo 679d87f).  DESIGN §5 C34.
"""
import contracts.identity  # noqa: F401
from pyvc.contract import fn, cls

cls("SessRS", fields={"identity_map": "_WeakInstanceDict", "_new": "dict", "_deleted": "dict", "_transaction": "opt:STxRS"})
cls("STxRS", fields={"_new": "dict", "_dirty": "dict", "_deleted": "dict", "_key_switches": "dict", "session": "SessRS", "_is_transaction_boundary": "bool"})
D = "self.session.identity_map._dict"
KS = "self._key_switches"
fn("orm/state.py::InstanceState._detach_states@rs", abstract=True, params=["self", "states", "session", "to_transient"], returns="none",
   types={"states": "set", "expr:seq(states)[j]": "IState", "to_transient": "bool"}, modifies=["each(seq(states)).key"],
   ensures=["all(seq(states)[j].key is ite(to_transient, None, old(seq(states)[j].key)) for j in range(len(seq(states))))", "seq(states) == old(seq(states))"],
   notes="InstanceState._detach_states (proved under C35 as _detach_states#lifecycle, there over a list of states and with the session events): a state handed "
         "over loses its identity key exactly when to_transient is set; session_id / _strong_obj are not modelled here")
EXP_T = {"states": "set", "elems:states": "IState", "expr:seq(states)[j]": "IState", "state": "IState", "to_transient": "bool",
         "values:self.identity_map._dict": "IState", "expr:self._transaction": "opt:STxRS"}
DS = "self.identity_map._dict"
ONLY_REMOVALS = ["forall(lambda k: implies(dhas(DS, k), old(dhas(DS, k)) and dget(DS, k) is old(dget(DS, k))))".replace("DS", DS),
                 "forall(lambda k: implies(old(dhas(DS, k)) and not dhas(DS, k), old(dget(DS, k)) in PFX))".replace("DS", DS)]
fn("orm/session.py::Session._expunge_states", cls="SessRS", props=["C34"], types=EXP_T, returns="none",
   callees={"statelib.InstanceState._detach_states": dict(fn="orm/state.py::InstanceState._detach_states@rs", args=["None", "$0", "$1", "$kw:to_transient"])},
   requires=["forall(lambda k: implies(dhas(DS, k), dget(DS, k).key is k and not dhas(self._new, dget(DS, k))))".replace("DS", DS),
             "states is not self.identity_map._modified", "self._new is not " + DS, "self._deleted is not " + DS, "self._new is not self._deleted",
             "implies(self._transaction is not None, self._transaction._deleted is not " + DS + " and self._transaction._deleted is not self._new)"],
   invariant={0: [c.replace("PFX", "prefix(seq(states), _i)") for c in ONLY_REMOVALS] + [
       # a processed state is bound nowhere any more
       "forall(lambda k: implies(dhas(DS, k), not (dget(DS, k) in prefix(seq(states), _i))))".replace("DS", DS),
       "forall(lambda k: implies(dhas(DS, k), dget(DS, k).key is k and not old(dhas(self._new, dget(DS, k)))))".replace("DS", DS),
       "forall(lambda q: implies(dhas(self._new, q), old(dhas(self._new, q))))",
       "self._transaction is old(self._transaction)"]},
   loop_modifies={0: ["contents(self._new)", "contents(self._deleted)", "contents(self._transaction._deleted)", "contents(" + DS + ")",
                      "contents(self.identity_map._modified)", "any._instance_dict"]},
   ensures=["all(seq(states)[j].key is ite(to_transient, None, old(seq(states)[j].key)) for j in range(len(seq(states))))",
            "forall(lambda k: implies(dhas(DS, k), not (dget(DS, k) in states)))".replace("DS", DS)] +
           [c.replace("PFX", "states") for c in ONLY_REMOVALS] + ["seq(states) == old(seq(states))"],
   modifies=["each(seq(states)).key", "contents(self._new)", "contents(self._deleted)", "contents(self._transaction._deleted)", "contents(" + DS + ")",
             "contents(self.identity_map._modified)", "any._instance_dict"])
fn("orm/session.py::Session._update_impl@rs", abstract=True, params=["self", "state"], cls="SessRS", returns="none", types={"state": "IState"},
   modifies=["contents(self._deleted)", "contents(self.identity_map._dict)", "contents(self.identity_map._modified)", "any._instance_dict"],
   ensures=["not dhas(self._deleted, state)",
            "forall(lambda q: implies(q is not state, dhas(self._deleted, q) == old(dhas(self._deleted, q))))"],
   notes="Session._update_impl(state, revert_deletion=True) for a state of Session._deleted: the state is attached, has a key, and its object is alive (the "
         "dictionary holds it strongly), so the early returns are not taken and `self._deleted.pop(state, None)` runs; identity keys are not written")
T = {"to_expunge": "set", "s": "IState", "oldkey": "v", "newkey": "v", "elems:to_expunge": "IState", "keys:self._key_switches": "IState",
     "values:self._key_switches": "tupleval", "values:self.session.identity_map._dict": "IState", "q": "IState",
     "expr:seq(keys(self._key_switches))[j]": "IState"}
# representation invariant of the identity map (clause A of the bounded complement): a bound state carries the key it is bound under
FULLREP = "forall(lambda k: implies(dhas(D, k), dget(D, k).key is k))".replace("D,", D + ",")
SJ = "seq(keys(self._key_switches))[j]"
EXP0 = "(old(dhas(self._new, SJ)) or old(dhas(self.session._new, SJ)))".replace("SJ", SJ)
fn("orm/session.py::SessionTransaction._restore_snapshot", cls="STxRS", props=["C34"], types=T, returns="none",
   callees={"self.session._expunge_states": dict(fn="orm/session.py::Session._expunge_states", recv="self.session", args=["$0", "$kw:to_transient"]),
            "self.session._update_impl": dict(fn="orm/session.py::Session._update_impl@rs", recv="self.session", args=["$0"]), "self.session.identity_map.all_states": "havoc:seq", "s._expire": "noop"},
   requires=["self._is_transaction_boundary", FULLREP, "all(is_tuple(dget(KS, k), 2) for k in keys(KS))".replace("KS", KS),
             "all(dget(KS, k)[0] is not None for k in keys(KS))".replace("KS", KS),
             KS + " is not " + D, KS + " is not self._new", KS + " is not self.session._new", KS + " is not self.session._deleted",
             # what Session._expunge_states needs: a pending state is not bound in the identity map; the session's containers are distinct objects
             "forall(lambda k: implies(dhas(D, k), not dhas(self.session._new, dget(D, k))))".replace("D,", D + ","),
             "self.session._new is not " + D, "self.session._deleted is not " + D, "self.session._new is not self.session._deleted",
             # a rollback runs inside the session's current transaction
             "self.session._transaction is not None",
             "self.session._transaction._deleted is not " + D, "self.session._transaction._deleted is not self.session._new",
             "self.session._transaction._deleted is not " + KS],
   invariant={0: [
       # a processed state that stays in the session has its ORIGINAL key back and is findable under it
       ("all(implies(not EXP0, SJ.key is dget(KS, SJ)[0] and dhas(D, SJ.key) and dget(D, SJ.key) in prefix(seq(keys(KS)), _i) and dget(D, SJ.key).key is SJ.key) for j in range(_i))"
        ).replace("EXP0", EXP0).replace("SJ", SJ).replace("D,", D + ",").replace("KS", KS),
       # a processed state that was INSERTed in the rolled-back work is transient: no identity key
       "all(implies(EXP0, SJ.key is None) for j in range(_i))".replace("EXP0", EXP0).replace("SJ", SJ),
       FULLREP,
       # the states not reached yet are as _expunge_states left them
       "all(SJ.key is entry(SJ.key) for j in range(_i, len(seq(keys(KS)))))".replace("SJ", SJ).replace("KS", KS),
       "forall(lambda q: (q in to_expunge) == (old(dhas(self._new, q)) or old(dhas(self.session._new, q))))"],
       1: ["forall(lambda q: implies(dhas(self.session._deleted, q), q in _seq and index(_seq, q) >= _i))",
           "all(implies(EXP0, SJ.key is None) for j in range(len(seq(keys(KS)))))".replace("EXP0", EXP0).replace("SJ", SJ).replace("KS", KS),
           "all(implies(not EXP0, SJ.key is dget(KS, SJ)[0]) for j in range(len(seq(keys(KS)))))".replace("EXP0", EXP0).replace("SJ", SJ).replace("KS", KS)],
       2: ["all(implies(EXP0, SJ.key is None) for j in range(len(seq(keys(KS)))))".replace("EXP0", EXP0).replace("SJ", SJ).replace("KS", KS),
           "all(implies(not EXP0, SJ.key is dget(KS, SJ)[0]) for j in range(len(seq(keys(KS)))))".replace("EXP0", EXP0).replace("SJ", SJ).replace("KS", KS)]},
   loop_modifies={1: ["contents(self.session._deleted)", "contents(" + D + ")", "contents(self.session.identity_map._modified)", "any._instance_dict"], 2: [],
                  0: ["each(seq(keys(" + KS + "))).key", "contents(" + D + ")", "contents(self.session.identity_map._modified)", "any._instance_dict"]},
   ensures=["all(implies(EXP0, SJ.key is None) for j in range(len(seq(keys(KS)))))".replace("EXP0", EXP0).replace("SJ", SJ).replace("KS", KS),
            "all(implies(not EXP0, SJ.key is dget(KS, SJ)[0]) for j in range(len(seq(keys(KS)))))".replace("EXP0", EXP0).replace("SJ", SJ).replace("KS", KS)],
   modifies=["*"],
   notes="the postconditions over the identity map (findable under the original key, no stale binding) are the invariant of the key-switch loop, i.e. proved "
         "for the state right after that loop; the function's own postcondition speaks about the keys only, because Session._update_impl (re-attaching the "
         "states whose DELETE is rolled back) and InstanceState._expire are not under contract here (no-ops on the identity keys: assumed)")
