"""C34 / C35 (part): orm/session.py::SessionTransaction._restore_snapshot — identity keys after a rollback.

Rollback (of the outermost transaction or to a SAVEPOINT) undoes the primary-key switches flushed in the rolled-back work
(`_key_switches`: state -> (original key, newest key), written by Session._register_persistent, proved in session_register.py):
a state that stays in the session gets its ORIGINAL key back and is bound in the identity map under it, never left bound under the
switched key; a state that was INSERTed in the rolled-back work is expunged as transient and carries NO identity key afterwards
(DESIGN §11.8: the pinned tree put the original key back on those, too — repaired in /repo 679d87f).  DESIGN §5 C34.
"""
import contracts.identity  # noqa: F401
from pyvc.contract import fn, cls

cls("SessRS", fields={"identity_map": "_WeakInstanceDict", "_new": "dict", "_deleted": "dict"})
cls("STxRS", fields={"_new": "dict", "_dirty": "dict", "_deleted": "dict", "_key_switches": "dict", "session": "SessRS", "_is_transaction_boundary": "bool"})
D = "self.session.identity_map._dict"
KS = "self._key_switches"
fn("orm/session.py::Session._expunge_states@rs", abstract=True, params=["self", "states", "to_transient"], cls="SessRS", returns="none",
   types={"states": "set", "elems:states": "IState", "expr:seq(states)[j]": "IState", "values:self.identity_map._dict": "IState"},
   modifies=["each(seq(states)).key", "contents(self.identity_map._dict)", "contents(self.identity_map._modified)", "contents(self._new)", "contents(self._deleted)",
             "any._instance_dict"],
   requires=["forall(lambda k: implies(dhas(self.identity_map._dict, k), dget(self.identity_map._dict, k).key is k))"],
   ensures=["all(seq(states)[j].key is None for j in range(len(seq(states))))",
            "forall(lambda k: implies(dhas(self.identity_map._dict, k), not (dget(self.identity_map._dict, k) in states)))",
            # only removals from the identity map, and only of the given states
            "forall(lambda k: implies(dhas(self.identity_map._dict, k), old(dhas(self.identity_map._dict, k)) and dget(self.identity_map._dict, k) is old(dget(self.identity_map._dict, k))))",
            "forall(lambda k: implies(old(dhas(self.identity_map._dict, k)) and not dhas(self.identity_map._dict, k), old(dget(self.identity_map._dict, k)) in states))",
            "seq(states) == old(seq(states))"],
   notes="Session._expunge_states(states, to_transient=True): pops the states from _new / discards them from the identity map and hands them to "
         "InstanceState._detach_states(to_transient=True), which deletes their identity key (proved under C35: _detach_states#lifecycle)")
fn("orm/session.py::Session._update_impl@rs", abstract=True, params=["self", "state"], cls="SessRS", returns="none", types={"state": "IState"},
   modifies=["contents(self._deleted)", "contents(self.identity_map._dict)", "contents(self.identity_map._modified)", "any._instance_dict"],
   ensures=["not dhas(self._deleted, state)",
            "forall(lambda q: implies(q is not state, dhas(self._deleted, q) == old(dhas(self._deleted, q))))"],
   notes="Session._update_impl(state, revert_deletion=True) for a state of Session._deleted: the state is attached, has a key, and its object is alive (the "
         "dictionary holds it strongly), so the early returns are not taken and `self._deleted.pop(state, None)` runs; identity keys are not written")
T = {"to_expunge": "set", "s": "IState", "oldkey": "v", "newkey": "v", "elems:to_expunge": "IState", "keys:self._key_switches": "IState",
     "values:self._key_switches": "tupleval", "values:self.session.identity_map._dict": "IState", "q": "IState",
     "expr:seq(keys(self._key_switches))[j]": "IState"}
# representation invariant of the identity map (clause A of the bounded complement): a bound state carries the key it is bound under
FULLREP = "forall(lambda k: implies(dhas(D, k), dget(D, k).key is k))".replace("D,", D + ",")
SJ = "seq(keys(self._key_switches))[j]"
EXP0 = "(old(dhas(self._new, SJ)) or old(dhas(self.session._new, SJ)))".replace("SJ", SJ)
fn("orm/session.py::SessionTransaction._restore_snapshot", cls="STxRS", props=["C34"], types=T, returns="none",
   callees={"self.session._expunge_states": dict(fn="orm/session.py::Session._expunge_states@rs", recv="self.session", args=["$0", "True"]),
            "self.session._update_impl": dict(fn="orm/session.py::Session._update_impl@rs", recv="self.session", args=["$0"]), "self.session.identity_map.all_states": "havoc:seq", "s._expire": "noop"},
   requires=["self._is_transaction_boundary", FULLREP, "all(is_tuple(dget(KS, k), 2) for k in keys(KS))".replace("KS", KS),
             "all(dget(KS, k)[0] is not None for k in keys(KS))".replace("KS", KS),
             KS + " is not " + D, KS + " is not self._new", KS + " is not self.session._new", KS + " is not self.session._deleted"],
   invariant={0: [
       # a processed state that stays in the session has its ORIGINAL key back and is findable under it
       ("all(implies(not EXP0, SJ.key is dget(KS, SJ)[0] and dhas(D, SJ.key) and dget(D, SJ.key) in prefix(seq(keys(KS)), _i) and dget(D, SJ.key).key is SJ.key) for j in range(_i))"
        ).replace("EXP0", EXP0).replace("SJ", SJ).replace("D,", D + ",").replace("KS", KS),
       # a processed state that was INSERTed in the rolled-back work is transient: no identity key
       "all(implies(EXP0, SJ.key is None) for j in range(_i))".replace("EXP0", EXP0).replace("SJ", SJ),
       FULLREP,
       # the states not reached yet are as _expunge_states left them
       "all(SJ.key is entry(SJ.key) for j in range(_i, len(seq(keys(KS)))))".replace("SJ", SJ).replace("KS", KS),
       "forall(lambda q: (q in to_expunge) == (old(dhas(self._new, q)) or old(dhas(self.session._new, q))))"],
       1: ["forall(lambda q: implies(dhas(self.session._deleted, q), q in _seq and index(_seq, q) >= _i))",
           "all(implies(EXP0, SJ.key is None) for j in range(len(seq(keys(KS)))))".replace("EXP0", EXP0).replace("SJ", SJ).replace("KS", KS),
           "all(implies(not EXP0, SJ.key is dget(KS, SJ)[0]) for j in range(len(seq(keys(KS)))))".replace("EXP0", EXP0).replace("SJ", SJ).replace("KS", KS)],
       2: ["all(implies(EXP0, SJ.key is None) for j in range(len(seq(keys(KS)))))".replace("EXP0", EXP0).replace("SJ", SJ).replace("KS", KS),
           "all(implies(not EXP0, SJ.key is dget(KS, SJ)[0]) for j in range(len(seq(keys(KS)))))".replace("EXP0", EXP0).replace("SJ", SJ).replace("KS", KS)]},
   loop_modifies={1: ["contents(self.session._deleted)", "contents(" + D + ")", "contents(self.session.identity_map._modified)", "any._instance_dict"], 2: [],
                  0: ["each(seq(keys(" + KS + "))).key", "contents(" + D + ")", "contents(self.session.identity_map._modified)", "any._instance_dict"]},
   ensures=["all(implies(EXP0, SJ.key is None) for j in range(len(seq(keys(KS)))))".replace("EXP0", EXP0).replace("SJ", SJ).replace("KS", KS),
            "all(implies(not EXP0, SJ.key is dget(KS, SJ)[0]) for j in range(len(seq(keys(KS)))))".replace("EXP0", EXP0).replace("SJ", SJ).replace("KS", KS)],
   modifies=["*"],
   notes="the postconditions over the identity map (findable under the original key, no stale binding) are the invariant of the key-switch loop, i.e. proved "
         "for the state right after that loop; the function's own postcondition speaks about the keys only, because Session._update_impl (re-attaching the "
         "states whose DELETE is rolled back) and InstanceState._expire are not under contract here (no-ops on the identity keys: assumed)")
