"""C23 (part): engine/util.py::TransactionalContext — the context-manager protocol of transactions: entering links the
transaction to its subject (remembering the enclosing one), leaving ALWAYS restores the enclosing link and clears its own, on
every path (commit, rollback, close, exceptions out of any of them).  DESIGN §5 C23.
"""
from pyvc.contract import fn, cls

U = "engine/util.py::TransactionalContext."
cls("Subject", fields={"_trans_context_manager": "TCtx"})
cls("TCtx", fields={"_trans_subject": "Subject", "_outer_trans_ctx": "TCtx", "_rollback_exception": "v", "active": "bool", "closed": "bool"},
    methods={n: U + n for n in ["_transaction_is_active", "_transaction_is_closed", "_rollback_can_be_called", "_get_subject", "commit", "rollback", "close"]})
# the abstract operations of the concrete transaction classes (Root/Nested/TwoPhase, SessionTransaction): anything may happen to
# the transaction's own state, they may raise; they do not touch the context-manager links
for nm in ("commit", "rollback", "close"):
    fn(U + nm, abstract=True, cls="TCtx", params=["self"], returns="none", modifies=["self.active", "self.closed"], may_raise={"BaseException": "True"})
fn(U + "_transaction_is_active", abstract=True, cls="TCtx", params=["self"], returns="bool", ensures=["result == self.active"], modifies=[])
fn(U + "_transaction_is_closed", abstract=True, cls="TCtx", params=["self"], returns="bool", ensures=["result == self.closed"], modifies=[])
fn(U + "_rollback_can_be_called", abstract=True, cls="TCtx", params=["self"], returns="bool", modifies=[])
fn(U + "_get_subject", abstract=True, cls="TCtx", params=["self"], returns="Subject", ensures=["result is not None"], modifies=[])

T = {"subject": "Subject", "trans_context": "TCtx", "out_of_band_exit": "bool", "q": "Subject"}
fn(U + "__enter__", cls="TCtx", props=["C23"], types=T, returns="TCtx",
   ensures=["result is self", "self._trans_subject is not None and self._trans_subject._trans_context_manager is self",
            "self._outer_trans_ctx is oldfield(self._trans_subject, '_trans_context_manager')",
            # nothing else is relinked
            "forall(lambda q: implies(q is not self._trans_subject, q._trans_context_manager is oldfield(q, '_trans_context_manager')))".replace("q._trans", "q._trans")],
   modifies=["self._outer_trans_ctx", "self._trans_subject", "any._trans_context_manager"], check_rep=False)

S0 = "old(self._trans_subject)"
LINKED = f"({S0} is not None and old({S0}._trans_context_manager) is self)"
RESTORE = [
    "self._trans_subject is None and self._outer_trans_ctx is None",
    # the subject's link goes back to the enclosing transaction's context manager (None at the outermost level) ...
    f"implies({LINKED}, {S0}._trans_context_manager is old(self._outer_trans_ctx))",
    # ... and is left alone on an out-of-band exit
    f"implies({S0} is not None and not {LINKED}, {S0}._trans_context_manager is old({S0}._trans_context_manager))",
]
fn(U + "__exit__", cls="TCtx", props=["C23"], types=T, returns="none", consts={},
   requires=[f"implies(self._trans_subject is not None, self._trans_subject is not self)"],
   ensures=RESTORE, may_raise={"BaseException": "True"}, exc_ensures={"BaseException": RESTORE},
   modifies=["self._trans_subject", "self._outer_trans_ctx", "self._trans_subject._trans_context_manager", "self.active", "self.closed"])

fn(U + "_trans_ctx_check", props=["C23"], types={"subject": "Subject", "trans_context": "TCtx", "rollback_exc": "v", "cls": "v"}, returns="none",
   callees={"trans_context._transaction_is_active": U + "_transaction_is_active"},
   # using the subject inside a `with` block whose transaction has already ended is an error
   raises={"InvalidRequestError": "subject._trans_context_manager is not None and not subject._trans_context_manager.active"},
   modifies=[])
