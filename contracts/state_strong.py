"""C48 (part): every InstanceState / Session method that touches the strong reference or the modified flag keeps the link

    STRONG:  state.modified and state.session_id  ==>  state._strong_obj is not None   (or the object is already gone)

and the methods that discard pending state piecemeal (_expire_attributes, _commit) do not touch either field at all (frame).
The functions are verified one by one against their own contract; together with _modified_event (state_modified.py) these are
all writers of `_strong_obj` / `modified` in orm/state.py and orm/session.py.
"""
from pyvc.contract import fn, cls

cls("AttrImplE", fields={"accepts_scalar_loader": "bool", "callable_": "v", "key": "v"})
cls("AttrObjE", fields={"impl": "AttrImplE"})
cls("IMapE", fields={"_modified": "set"})
cls("IStateE", fields={"committed_state": "dict", "_last_known_values": "v", "session_id": "v", "_strong_obj": "v", "modified": "bool",
                       "expired": "bool", "expired_attributes": "set", "callables": "dict", "manager": "dict", "obj": "fn", "key": "v",
                       "_pending_mutations": "opt:dict",     # self.__dict__.get("_pending_mutations", None): None when absent
                       "_deleted": "bool"})
cls("SessE", fields={"hash_key": "v"})

K = {"NO_VALUE": "sentinel", "NEVER_SET": "sentinel"}
STRONG = "implies(self.modified and truth(self.session_id), self._strong_obj is not None or call(self.obj) is None)"
S = "orm/state.py::InstanceState."

# ---- piecemeal expiry: _strong_obj and modified are outside the frame
T_EA = {"dict_": "dict", "attribute_names": "seq", "no_loader": "bool", "pending": "opt:dict", "callables": "dict", "values:self.manager": "AttrObjE",
        "impl": "AttrImplE", "lkv": "opt:dict", "expr:self.manager[key]": "AttrObjE", "expr:self._last_known_values": "opt:dict"}
fn(S + "_expire_attributes", cls="IStateE", props=["C48"], types=T_EA, consts=K, returns="none",
   callees={"self.__dict__.get": "subst:self._pending_mutations", "is_collection_impl": "pure:is_collection_impl", "impl._invalidate_collection": "noop",
            "self.manager.dispatch.expire": "noop"},
   requires=[STRONG, "dict_ is not self.committed_state and dict_ is not self.callables",
             "self._last_known_values is None or (self._last_known_values is not self.committed_state and self._last_known_values is not dict_ "
             "and self._last_known_values is not self.callables)",
             "self._pending_mutations is None or (self._pending_mutations is not self.committed_state and self._pending_mutations is not dict_)"],
   invariant={0: ["forall(lambda q: implies(q not in attribute_names, dhas(self.committed_state, q) == old(dhas(self.committed_state, q))))"]},
   # quick tier: the common call shape (no last-known-values tracking, loaders kept); thorough tier: every path
   variants=[dict(name="plain", requires=["self._last_known_values is None", "not no_loader"]), dict(name="all", tier="thorough")],
   loop_modifies={0: ["contents(self.expired_attributes)", "contents(self.callables)", "contents(dict_)", "contents(self._last_known_values)",
                      "contents(self.committed_state)", "contents(self._pending_mutations)"]},
   ensures=[STRONG, "self._strong_obj is old(self._strong_obj)", "self.modified == old(self.modified)",
            # C36 side: only the named attributes lose their committed value
            "forall(lambda q: implies(q not in attribute_names, dhas(self.committed_state, q) == old(dhas(self.committed_state, q))))"],
   may_raise={"KeyError": "True"}, exc_ensures={"KeyError": [STRONG, "self._strong_obj is old(self._strong_obj)", "self.modified == old(self.modified)"]},
   modifies=["contents(self.expired_attributes)", "contents(self.callables)", "contents(dict_)", "contents(self._last_known_values)",
             "contents(self.committed_state)", "contents(self._pending_mutations)"])

# ---- _commit (partial load): neither field is touched
fn(S + "_commit", cls="IStateE", props=["C48"], types={"dict_": "dict", "keys": "seq", "expr:set(keys)": "set"}, consts=K, returns="none",
   requires=[STRONG, "dict_ is not self.committed_state and dict_ is not self.callables"],
   loop_modifies={0: ["contents(self.committed_state)"], 1: ["contents(self.callables)"]},
   ensures=[STRONG, "self._strong_obj is old(self._strong_obj)", "self.modified == old(self.modified)"],
   # (the del in the callables loop is over keys computed from callables itself; its KeyError is not excluded here - irrelevant to C48)
   may_raise={"KeyError": "True"}, exc_ensures={"KeyError": [STRONG, "self._strong_obj is old(self._strong_obj)", "self.modified == old(self.modified)"]},
   modifies=["contents(self.committed_state)", "self.expired", "contents(self.expired_attributes)", "contents(self.callables)"])

# ---- _detach (no-session arm) / _expire / _commit_all_states / Session._after_attach: the writers
fn("orm/state.py::InstanceState._detach_states", abstract=True, params=["self", "states", "session", "to_transient"], returns="none",
   types={"states": "seq", "s": "IStateE", "elems:states": "IStateE"}, modifies=["each(states).session_id", "each(states)._strong_obj", "each(states).key"],
   ensures=["all(s.session_id is None and s._strong_obj is None for s in states)"], may_raise={"Exception": "True"},
   notes="assumed here, proved below as _detach_states#loop")
fn(S + "_detach", cls="IStateE", props=["C48"], types={"session": "v"}, consts=K, returns="none",
   callees={"InstanceState._detach_states": dict(fn="orm/state.py::InstanceState._detach_states", args=["None", "$0", "$1", "False"], expect="InstanceState._detach_states([self], session)")},
   requires=[STRONG], ensures=[STRONG, "not truth(self.session_id)"], may_raise={"Exception": "True"},
   modifies=["self.session_id", "self._strong_obj", "self.key"])

# ---- _expire (full expiry): the change flags are dropped together with the strong reference
cls("IStateE2", fields={"__dict__": "dict"}, bases=["IStateE"])
fn(S + "_commit_all_states", props=["C48"], consts=K, returns="none",
   types={"iter_": "seq", "elems:iter_": "tupleval", "state": "IStateE2", "dict_": "dict", "instance_dict": "opt:IMapE", "state_dict": "dict",
          "expr:iter_[j][0]": "IStateE2", "expr:iter_[j]": "tupleval"},
   requires=["all(is_tuple(p, 2) for p in iter_)"],
   invariant={0: ["all(not iter_[j][0].modified and iter_[j][0]._strong_obj is None for j in range(_i))"]},
   loop_modifies={0: ["any.modified", "any.expired", "any._strong_obj", "any.contents"]},
   # after a flush / full load every state is clean AND released -- never released while still flagged modified
   ensures=["all(not iter_[j][0].modified and iter_[j][0]._strong_obj is None for j in range(len(iter_)))"],
   modifies=["*"])

cls("ManagerE", fields={"_loader_impls": "seq", "_collection_impl_keys": "set", "_all_key_set": "set"})
cls("CollE", fields={"_sa_adapter": "AdapterE"})
cls("AdapterE", fields={"invalidated": "bool"})
cls("IStateE3", fields={"__dict__": "dict", "manager": "ManagerE"}, bases=["IStateE"])
fn(S + "_expire", cls="IStateE3", props=["C48"], consts=K, returns="none",
   types={"dict_": "dict", "modified_set": "set", "elems:self.manager._loader_impls": "AttrImplE", "impl": "AttrImplE", "collection": "CollE",
          "values:dict_": "CollE", "expr:self._last_known_values": "opt:dict"},
   callees={"self.manager.dispatch.expire": "noop", "self._last_known_values.update": "clobber:self._last_known_values",
            "self.expired_attributes.update": "clobber:self.expired_attributes"},
   requires=[STRONG],
   tier="thorough",      # 134 paths
   loop_modifies={0: ["any.contents"], 1: ["any.contents", "any.invalidated"], 2: ["any.contents"]},
   ensures=[STRONG, "not self.modified", "self._strong_obj is None", "self.expired"],
   may_raise={"KeyError": "True"},
   modifies=["*"])

# ---- _detach_states (the loop behind Session.expunge / close / rollback of pending): detached and released together
cls("DispE", fields={"persistent_to_detached": "v", "deleted_to_detached": "v", "pending_to_transient": "v", "persistent_to_transient": "v"})
cls("SessE2", fields={"dispatch": "DispE"})
fn("orm/state.py::InstanceState._detach_states#loop", props=["C48"], consts=K, returns="none",
   types={"states": "seq", "elems:states": "IStateE", "state": "IStateE", "session": "SessE2", "to_transient": "bool", "expr:states[j]": "IStateE",
          "persistent_to_detached": "v", "deleted_to_detached": "v", "pending_to_transient": "v", "persistent_to_transient": "v"},
   callees={"persistent_to_transient": "noop", "persistent_to_detached": "noop", "deleted_to_detached": "noop", "pending_to_transient": "noop"},
   invariant={0: ["all(states[j].session_id is None and states[j]._strong_obj is None for j in range(_i))"]},
   loop_modifies={0: ["any.session_id", "any._strong_obj", "any.key"]},
   ensures=["all(states[j].session_id is None and states[j]._strong_obj is None for j in range(len(states)))"],
   modifies=["*"])

# ---- Session._after_attach: a modified object that is attached gets its strong reference at once
cls("SessE3", fields={"hash_key": "v", "dispatch": "v"})
fn("orm/session.py::Session._after_attach", cls="SessE3", props=["C48"], consts=K, returns="none",
   types={"state": "IStateE", "obj": "v"},
   callees={"self.dispatch.after_attach": "noop", "self.dispatch.detached_to_persistent": "noop", "self.dispatch.transient_to_pending": "noop"},
   requires=["obj is not None", "truth(self.hash_key)"],
   ensures=["implies(state.modified and truth(state.session_id), state._strong_obj is not None)", "state.session_id is self.hash_key"],
   modifies=["state.session_id", "state._strong_obj"])
