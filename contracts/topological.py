"""C19: util/topological.py.  DESIGN §5 C19 (flagship).

edge(p, c)  <=> some tuple t in `tuples` has t[0] is p and t[1] is c
S           is a *rigid ghost parameter*: an arbitrary set of items in which every member has a
            predecessor in the set ("pred-closed").  Proving "S is empty at normal exhaustion" for arbitrary S
            is "no non-empty pred-closed set exists", which by Lean lemma pred_closed_iff_cycle
            (lemmas/Cycle.lean) is "the dependencies among the items contain no cycle".
"""
from pyvc.contract import fn


def EDGE(p, c):
    return f"any(t[0] is {p} and t[1] is {c} for t in tuples)"


EMITTED = "any({x} in o for o in out)"

PRE = ["no_dups(allitems)",
       "all(is_tuple(t, 2) for t in tuples)",
       # S: arbitrary pred-closed subset of the items
       "all(x in allitems and any(t[1] is x and t[0] in S for t in tuples) for x in S)"]

WHILE_INV = [
    "no_dups(todo)",
    "all(x in todo_set for x in todo) and all(x in todo for x in todo_set)",
    "all(x in allitems for x in todo)",
    f"forall(lambda p, c: (p in edges[c]) == {EDGE('p', 'c')})",
    "all(x in todo_set or " + EMITTED.format(x="x") + " for x in allitems)",
    "all(all(x not in todo_set and x in allitems for x in o) for o in out)",
    "all(no_dups(o) and len(o) > 0 for o in out)",
    "all(all(all(x not in out[k] for x in out[j]) for k in range(j)) for j in range(len(out)))",
    # order: an emitted item's predecessors (that are items) were emitted strictly earlier
    "all(all(forall(lambda p: implies(" + EDGE("p", "c") + " and p in allitems, any(p in out[k] for k in range(j)))) for c in out[j]) for j in range(len(out)))",
    "all(x in todo_set for x in S)",
    # todo keeps the relative order of allitems
    "all(all(implies(k < j, index(allitems, todo[k]) < index(allitems, todo[j])) for k in range(len(todo))) for j in range(len(todo)))",
]

fn("util/topological.py::sort_as_subsets",
   props=["C19", "C14", "C31"],
   types={"tuples": "seq", "allitems": "seq", "S": "setv", "todo": "list", "todo_set": "set", "edges": "ddset", "output": "list"},
   callees={"util.defaultdict": "ddset", "find_cycles": "havoc:v", "_gen_edges": "havoc:v"},
   requires=PRE,
   invariant={
       0: [f"forall(lambda p, c: (p in edges[c]) == any(tuples[j][0] is p and tuples[j][1] is c for j in range(_i)))"],
       1: WHILE_INV,
       2: ["contents(output) == filt(lambda v: all(q not in todo_set for q in edges[v]), prefix(todo, _i))",
           f"forall(lambda p, c: (p in edges[c]) == {EDGE('p', 'c')})"],
   },
   yields=[
       "len(yielded) > 0 and no_dups(yielded)",
       # exactly the ready ones: no predecessor among what was still to do (todo_set + yielded)
       "all(forall(lambda p: implies(" + EDGE("p", "x") + ", p not in todo_set and p not in yielded)) for x in yielded)",
       "all(any((t[0] in todo_set or t[0] in yielded) and t[1] is x for t in tuples) for x in todo_set)",
       # in input order
       "all(all(implies(k < j, index(allitems, yielded[k]) < index(allitems, yielded[j])) for k in range(len(yielded))) for j in range(len(yielded)))",
   ],
   ensures=[
       "all(" + EMITTED.format(x="x") + " for x in allitems)",
       "all(all(x in allitems for x in o) and no_dups(o) for o in out)",
       "all(all(all(x not in out[k] for x in out[j]) for k in range(j)) for j in range(len(out)))",
       "all(all(forall(lambda p: implies(" + EDGE("p", "c") + " and p in allitems, any(p in out[k] for k in range(j)))) for c in out[j]) for j in range(len(out)))",
       "not any(True for x in S)",
   ],
   may_raise={"CircularDependencyError": "True"},
   # at the raise, the local `todo_set` is a non-empty pred-closed subset of the items  ("the dependencies contain a cycle")
   exc_ensures={"CircularDependencyError": [
       "any(True for x in todo_set)",
       "all(x in allitems and any(t[1] is x and t[0] in todo_set for t in tuples) for x in todo_set)"]},
   modifies=[], returns="none", harness="topological.sort_as_subsets")

# concrete-only clause for sort_as_subsets: the raise happens iff the induced graph on the items has a cycle
from pyvc.contract import FUNCS as _F
_F["util/topological.py::sort_as_subsets"].c_raises = {"CircularDependencyError": "has_cycle(tuples, allitems)"}

# ---- bounded-only contracts (not yet under proof; DESIGN §5 C19: find_cycles soundness/completeness invariants are Appendix A.3)
fn("util/topological.py::sort", props=["C19"], proof=False,
   types={"tuples": "seq", "allitems": "seq"},
   requires=["no_dups(allitems)", "all(is_tuple(t, 2) for t in tuples)"],
   c_ensures=["no_dups(out) and setof(out) == setof(allitems)",
              "all(implies(t[0] in allitems and t[1] in allitems and t[0] is not t[1], index(out, t[0]) < index(out, t[1])) for t in tuples)"],
   c_raises={"CircularDependencyError": "has_cycle(tuples, allitems)"},
   harness="topological.sort")

fn("util/topological.py::find_cycles", props=["C19"], proof=False,
   types={"tuples": "seq", "allitems": "seq"},
   requires=["all(is_tuple(t, 2) for t in tuples)"],
   c_ensures=["forall(lambda x: (x in result) == on_cycle(tuples, x))"],
   harness="topological.find_cycles")

# ---- find_cycles: SOUNDNESS under proof (every reported node lies on a cycle); COMPLETENESS further below (#completeness)
# R is a rigid ghost relation: any transitive relation that contains the edges (hence the transitive closure): proving
# R(x, x) for every reported x for arbitrary such R is "x is on a cycle".
def REL(a, b):
    return f"(call(R, {a}, {b}) is True)"


FC_PRE = ["all(is_tuple(t, 2) for t in tuples)",
          "forall(lambda p, c: implies(" + EDGE("p", "c") + ", " + REL("p", "c") + "))",
          "forall(lambda x, y, z: implies(" + REL("x", "y") + " and " + REL("y", "z") + ", " + REL("x", "z") + "))"]
FC_SOUND = "all(" + REL("x", "x") + " for x in output)"
FC_EDGES = "forall(lambda p, c: (c in edges[p]) == " + EDGE("p", "c") + ")"
FC_PATH = "all(all(implies(a < b, " + REL("stack[a]", "stack[b]") + ") for a in range(len(stack))) for b in range(len(stack)))"
_F[
    "util/topological.py::find_cycles"].proof = False   # the bounded-only record above stays for the harness (completeness)
fn("util/topological.py::find_cycles#soundness", props=["C19"],
   types={"tuples": "seq", "allitems": "seq", "R": "fn", "edges": "ddset", "nodes_to_test": "set", "output": "set", "stack": "list", "todo": "set",
          "cyc": "seq"},
   callees={"util.defaultdict": "ddset"},
   requires=FC_PRE,
   invariant={0: ["forall(lambda p, c: (c in edges[p]) == any(tuples[j][0] is p and tuples[j][1] is c for j in range(_i)))"],
              1: [FC_SOUND, FC_EDGES],
              2: [FC_SOUND, FC_EDGES, FC_PATH],
              3: [FC_SOUND, FC_EDGES, FC_PATH, "len(stack) > 0 and top is stack[-1]"]},
   ensures=["all(" + REL("x", "x") + " for x in result)"],
   returns="set", modifies=[])


# ---- sort: the flattening of sort_as_subsets (its contract above, not its body)
_F["util/topological.py::sort"].proof = False
fn("util/topological.py::sort#proof", props=["C19"],
   types={"tuples": "seq", "allitems": "seq", "set_": "tupleval", "S": "setv"},
   callees={"sort_as_subsets": dict(fn="util/topological.py::sort_as_subsets", bind="subsets")},
   requires=["no_dups(allitems)", "all(is_tuple(t, 2) for t in tuples)",
             "not any(True for x in S)"],      # the caller's ghost S is the empty set (trivially pred-closed)
   invariant={0: ["out == flat(prefix(subsets, _i))"]},
   ensures=["out == flat(subsets)",
            # each item exactly once ...
            "all(x in out for x in allitems)", "all(x in allitems for x in out)", "no_dups(out)",
            # ... with every dependency before its dependent
            "all(implies(t[0] in allitems and t[1] in allitems and t[0] is not t[1], index(out, t[0]) < index(out, t[1])) for t in tuples)"],
   may_raise={"CircularDependencyError": "True"},
   modifies=[], returns="none")


# ---- find_cycles: COMPLETENESS under proof.  cyc0 is a rigid ghost parameter: an arbitrary cycle
#     cyc0[0] -> cyc0[1] -> ... -> cyc0[k] -> cyc0[0]        (k >= 0; a self loop is a cycle of length one)
# Proved: cyc0[0] is reported.  (Every node on a cycle is the head of some such sequence, so all of them are.)
# Argument carried by the invariants: in the pass that starts the depth-first search at ROOT, `visited` = nodes_to_test - todo is,
# once the stack is empty, closed under the edges (W2) and contains ROOT; by induction along cyc0 (axiom chain_in_intro, proved in
# lemmas/Chain.lean) it contains the whole cycle; the last node of the cycle was popped after all its edges had been examined
# with ROOT still at the bottom of the stack, which put ROOT into output (W3).
ROOT = "seq(nodes_to_test)[_i1]"
VISITED = "(setof(nodes_to_test) - setof(todo))"
CYC_PRE = ["all(is_tuple(t, 2) for t in tuples)", "len(cyc0) >= 1",
           "all(" + EDGE("cyc0[j]", "cyc0[j + 1]") + " for j in range(len(cyc0) - 1))",
           EDGE("cyc0[len(cyc0) - 1]", "cyc0[0]")]
# (instances of the two clauses above, stated so that the solver need not find them: each cycle node has an outgoing edge)
CYC_PRE += ["all(any(t[0] is cyc0[j] for t in tuples) for j in range(len(cyc0)))"]
FC_KEYS = "forall(lambda p, c: implies(c in edges[p], p in edges))"
DONE_ROOTS = "implies(cyc0[0] in prefix(seq(nodes_to_test), _I), cyc0[0] in output)"
W1 = ["no_dups(stack)", "all(s in nodes_to_test and s not in todo for s in stack)", "implies(len(stack) > 0, stack[0] is " + ROOT + ")",
      "all(x in nodes_to_test for x in todo)", ROOT + " not in todo", "forall(lambda p: (p in nodes_to_test) == (p in edges))"]
W2 = "forall(lambda u, v: implies(u in nodes_to_test and u not in todo and u not in stack and v in edges[u] and v in nodes_to_test, v not in todo))"
W3 = "forall(lambda u: implies(u in nodes_to_test and u not in todo and u not in stack and " + ROOT + " in edges[u], " + ROOT + " in output))"
# W2 specialised to the ghost cycle (so that the induction step of chain_in_intro is literally an invariant clause)
W2C = "all(implies(cyc0[j] not in todo and cyc0[j] not in stack, cyc0[j + 1] not in todo) for j in range(len(cyc0) - 1))"
F3C = "all(implies(cyc0[j] is top and cyc0[j + 1] in prefix(seq(edges[top]), _i), cyc0[j + 1] not in todo) for j in range(len(cyc0) - 1))"
WEND = "implies(len(stack) == 0 and cyc0[0] is " + ROOT + ", all_in(" + VISITED + ", cyc0))"
# consequence of WEND for the last node of the cycle (stated to spare the solver the elimination step)
WEND2 = "implies(len(stack) == 0 and cyc0[0] is " + ROOT + ", cyc0[len(cyc0) - 1] in nodes_to_test and cyc0[len(cyc0) - 1] not in todo)"
HEAD_IN = "all(cyc0[j] in nodes_to_test for j in range(len(cyc0)))"      # every node of the cycle has an outgoing edge
fn("util/topological.py::find_cycles#completeness", props=["C19"],
   types={"tuples": "seq", "allitems": "seq", "cyc0": "seq", "edges": "ddset", "nodes_to_test": "set", "output": "set", "stack": "list", "todo": "set",
          "cyc": "seq"},
   callees={"util.defaultdict": "ddset"},
   requires=CYC_PRE,
   invariant={0: ["forall(lambda p, c: (c in edges[p]) == any(tuples[j][0] is p and tuples[j][1] is c for j in range(_i)))", FC_KEYS,
                  "all(tuples[k][0] in edges for k in range(_i))"],
              1: [FC_EDGES, FC_KEYS, "forall(lambda p: (p in nodes_to_test) == (p in edges))", HEAD_IN, DONE_ROOTS.replace("_I", "_i")],
              2: [FC_EDGES, FC_KEYS] + W1 + [W2, W3, HEAD_IN, W2C, WEND, DONE_ROOTS.replace("_I", "_i1")],
              3: [FC_EDGES, FC_KEYS] + W1 + [W2, W3, HEAD_IN, W2C, F3C, DONE_ROOTS.replace("_I", "_i1"), "len(stack) > 0 and top is stack[-1]",
                  # the targets examined so far in this pass over edges[top] are not waiting in todo, and an edge back to ROOT has been recorded
                  "all(n not in todo for n in prefix(seq(edges[top]), _i))",
                  "implies(" + ROOT + " in prefix(seq(edges[top]), _i), " + ROOT + " in output)"]},
   ensures=["cyc0[0] in result"],
   returns="set", modifies=[])
