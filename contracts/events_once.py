"""C28 (part): event/attr.py::_CompoundListener — first-connect / once-only dispatch under concurrency.

"Once-only and first-connect listeners run at most once even when dispatched concurrently."  Monitor reading with interference
(DESIGN §11.3): the shared state is the flag `_exec_once` and two ghost counters
    _g_ok     dispatches through exec_once / exec_once_unless_exception that returned normally
    _g_final  dispatches through exec_once (no retry) that raised
Monitor invariant (holds whenever the exec-once mutex is free; proved at every release, assumed at every acquisition):
    _g_ok + _g_final <= 1      and      _exec_once == (_g_ok + _g_final == 1)
so, whatever the other threads do: exec_once dispatches at most once overall, and exec_once_unless_exception never
dispatches again after a dispatch that succeeded (it may retry after failures).
"""
from pyvc.contract import fn, cls

A = "event/attr.py::_CompoundListener."
cls("CLsn", fields={"_exec_once": "bool", "_exec_w_sync_once": "bool", "_g_ok": "int", "_g_final": "int", "_exec_once_mutex": "v"},
    methods={"_exec_once_impl": A + "_exec_once_impl"})
INV = ["self._g_ok >= 0 and self._g_final >= 0 and self._g_ok + self._g_final <= 1", "self._exec_once == (self._g_ok + self._g_final == 1)"]
# rely / guarantee: the counters only grow (so, with the invariant, the flag is never cleared once set)
RELY = ["self._g_ok >= old(self._g_ok)", "self._g_final >= old(self._g_final)"]
MON = dict(havoc=["self._exec_once", "self._g_ok", "self._g_final"], inv=INV, rely=RELY, locks=["self._get_exec_once_mutex()"], calls=[])
SHARED = ["self._exec_once", "self._g_ok", "self._g_final"]
fn(A + "__call__@dispatch", abstract=True, cls="CLsn", params=["self"], returns="none", modifies=[], may_raise={"BaseException": "True"},
   notes="the dispatch itself: calls every listener; may raise whatever a listener raises")
GHOST = {"exception = False": ["self._g_ok += 1"],
         "exception = True": ["self._g_final += (0 if retry_on_exception else 1)"]}

fn(A + "_exec_once_impl", cls="CLsn", props=["C28"], returns="none", monitor=MON, ghost_after=GHOST,
   types={"retry_on_exception": "bool", "exception": "bool"},
   callees={"self": dict(fn=A + "__call__@dispatch", recv="self", args=[])},
   # a normal return means the dispatch has happened (here or in another thread); a failed one is final unless retries are allowed
   requires=INV, ensures=INV + ["self._exec_once"],
   may_raise={"BaseException": "True"}, exc_ensures={"BaseException": INV + ["implies(not retry_on_exception, self._exec_once)"]},
   modifies=SHARED)
fn(A + "exec_once", cls="CLsn", props=["C28"], returns="none", monitor=MON,
   callees={"self._exec_once_impl": dict(fn=A + "_exec_once_impl", recv="self", args=["$0"])},
   requires=INV, ensures=INV + ["self._exec_once"],
   may_raise={"BaseException": "True"}, exc_ensures={"BaseException": INV + ["self._exec_once"]}, modifies=SHARED)
fn(A + "exec_once_unless_exception", cls="CLsn", props=["C28"], returns="none", monitor=MON,
   callees={"self._exec_once_impl": dict(fn=A + "_exec_once_impl", recv="self", args=["$0"])},
   requires=INV, ensures=INV + ["self._exec_once"],
   may_raise={"BaseException": "True"}, exc_ensures={"BaseException": INV}, modifies=SHARED)
