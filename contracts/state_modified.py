"""C48 / C36 (part): orm/state.py::InstanceState._modified_event.

C48: once a state attached to a session is marked modified it holds a strong reference to its object (so that the pending
change survives the application dropping its references) — on EVERY exit, including the autobegin raising.
C36: committed_state keeps the FIRST value seen since the last flush ("net change since load"): a key already present is
not overwritten (unless is_userland), every other key is untouched.
"""
from pyvc.contract import fn, cls

cls("AttrImpl", fields={"send_modified_events": "bool", "key": "v"})
cls("IMapObj", fields={"_modified": "set"})
cls("SessObj", fields={"_transaction": "v"}, methods={"_autobegin_t": "orm/session.py::Session._autobegin_t"})
cls("IStateM", fields={"committed_state": "dict", "_last_known_values": "dict", "session_id": "v", "_strong_obj": "v", "modified": "bool",
                       "_instance_dict": "fn", "obj": "fn", "manager": "v"})
fn("orm/session.py::Session._autobegin_t", abstract=True, cls="SessObj", params=["self"], modifies=["self._transaction"],
   may_raise={"Exception": "True"}, notes="begins the session transaction; raises e.g. when autobegin is disabled")

K = {"NEVER_SET": "sentinel", "NO_VALUE": "sentinel", "TYPE_CHECKING": ("bool", False)}
T = {"attr": "opt:AttrImpl", "dict_": "dict", "collection": "bool", "is_userland": "bool", "lkv": "dict", "instance_dict": "IMapObj", "has_modified": "bool",
     "_sessions": "dict", "values:_sessions": "SessObj", "session": "SessObj", "expr:self._instance_dict()": "IMapObj", "expr:call(self._instance_dict)": "IMapObj", "ret:copy": "v"}
STRONG = "implies(self.modified and truth(self.session_id), self._strong_obj is not None or call(self.obj) is None)"
KEY = "attr.key"
fn("orm/state.py::InstanceState._modified_event", cls="IStateM", props=["C48", "C36"], types=T, consts=K, returns="none",
   callees={"attr.copy": "pure:copy"},
   requires=[STRONG, "self._last_known_values is None or self._last_known_values is not self.committed_state",
             "dict_ is not self.committed_state", "attr is None or True"],
   # quick tier: the change-flagging path (attr is None: flag_modified / collection events reach here the same way);
   # thorough tier: all 317 paths including the committed_state capture
   variants=[dict(name="no-attr", requires=["attr is None"]), dict(name="all", tier="thorough", ensures=[
                 # C36: first write wins, every other key untouched
                 "implies(attr is not None and old(dhas(self.committed_state, attr.key)) and not is_userland, dget(self.committed_state, attr.key) is old(dget(self.committed_state, attr.key)))",
                 "forall(lambda q: implies(attr is None or q is not attr.key, dhas(self.committed_state, q) == old(dhas(self.committed_state, q)) and "
                 "implies(dhas(self.committed_state, q), dget(self.committed_state, q) is old(dget(self.committed_state, q)))))"])],
   ensures=[STRONG, "self.modified or old(attr is not None and not attr.send_modified_events)"],
   may_raise={"Exception": "True"},
   exc_ensures={"Exception": [STRONG]},
   modifies=["contents(self.committed_state)", "contents(self._last_known_values)", "self.modified", "self._strong_obj",
             "contents(call(self._instance_dict)._modified)", "any._transaction"])
