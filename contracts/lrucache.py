"""C54 (part): util/_collections.py::LRUCache.  view: key -> (value, use counter); entries are (key, value, [counter]).

get / [] return only the value stored under *that* key and refresh *its* counter, every other entry untouched; a store gives
the key the newest counter (so that it is the last to be evicted).  _manage_size (sorted() on counters) is an assumed
contract here and covered by the bounded complement.  DESIGN §5 C54, App. B.2.
"""
from pyvc.contract import fn, cls

C = "util/_collections.py::LRUCache."
cls("LRUCache", fields={"capacity": "int", "_counter": "int", "_data": "dict", "size_alert": "v", "_mutex": "v", "threshold": "v"},
    rep=["all(is_tuple(dget(self._data, k), 3) and dget(self._data, k) is not None for k in keys(self._data))",
         # each entry has its own counter cell, and no counter is ahead of the global one
         "forall(lambda a, b: implies(dhas(self._data, a) and dhas(self._data, b) and a is not b, dget(self._data, a)[2] is not dget(self._data, b)[2]))",
         "all(len(listof(dget(self._data, k)[2])) == 1 and intof(listof(dget(self._data, k)[2])[0]) <= self._counter for k in keys(self._data))"],
    methods={n: C + n for n in ["_inc_counter", "get", "__getitem__", "__setitem__", "__delitem__", "_manage_size", "__len__"]})

T = {"values:self._data": "tupleval", "item": "tupleval", "expr:item[2]": "list"}
CTR = "intof(listof(dget(self._data, {k})[2])[0])"
OTHERS = ("forall(lambda q: implies(q is not key, dhas(self._data, q) == old(dhas(self._data, q)) and implies(dhas(self._data, q), "
          "dget(self._data, q) is old(dget(self._data, q)) and " + CTR.format(k="q") + " == old(" + CTR.format(k="q") + "))))")

fn(C + "_inc_counter", cls="LRUCache", props=["C54"], returns="int",
   ensures=["result == old(self._counter) + 1", "self._counter == result"], modifies=["self._counter"])
fn(C + "__len__", cls="LRUCache", props=["C54"], returns="int", ensures=["result == len(self._data)"], modifies=[])

HIT = ["implies(old(dhas(self._data, key)), result is old(dget(self._data, key))[1] and dget(self._data, key) is old(dget(self._data, key)) and "
       + CTR.format(k="key") + " == old(self._counter) + 1)", OTHERS, "keys(self._data) == old(keys(self._data))"]
fn(C + "get", cls="LRUCache", props=["C54"], types=T,
   ensures=HIT + ["implies(not old(dhas(self._data, key)), result is default and self._counter == old(self._counter))"],
   modifies=["self._counter", "contents(listof(dget(self._data, key)[2]))"], harness="lrucache.get")
fn(C + "__getitem__", cls="LRUCache", props=["C54"], types=T, raises={"KeyError": "not dhas(self._data, key)"},
   ensures=HIT, modifies=["self._counter", "contents(listof(dget(self._data, key)[2]))"], harness="lrucache.getitem")

# assumed: eviction only removes entries, survivors are untouched (body uses sorted(); bounded complement checks which ones go)
fn(C + "_manage_size", abstract=True, cls="LRUCache", params=["self"], returns="none", modifies=["contents(self._data)"],
   ensures=["all(old(dhas(self._data, k)) and dget(self._data, k) is old(dget(self._data, k)) for k in keys(self._data))"],
   notes="LRU eviction: survivors keep their entries")
fn(C + "__setitem__", cls="LRUCache", props=["C54"], types=T, returns="none",
   ensures=[
       # the stored key carries the value and the NEWEST counter (most recently used), unless eviction removed it
       "implies(dhas(self._data, key), dget(self._data, key)[1] is value and dget(self._data, key)[0] is key and "
       + CTR.format(k="key") + " == old(self._counter) + 1)",
       "self._counter == old(self._counter) + 1",
       # nothing else is changed except by eviction: surviving entries are the old ones
       "forall(lambda q: implies(q is not key and dhas(self._data, q), old(dhas(self._data, q)) and dget(self._data, q) is old(dget(self._data, q))))",
       ],
   # the size manager always runs after a store (it is what bounds the cache)
   s_ensures=["called('self._manage_size')"],
   modifies=["self._counter", "contents(self._data)"], harness="lrucache.setitem")
fn(C + "__delitem__", cls="LRUCache", props=["C54"], types=dict(T, __v="v"), returns="none", raises={"KeyError": "not dhas(self._data, __v)"},
   ensures=["not dhas(self._data, __v)",
            "forall(lambda q: implies(q is not __v, dhas(self._data, q) == old(dhas(self._data, q)) and implies(dhas(self._data, q), dget(self._data, q) is old(dget(self._data, q)))))"],
   modifies=["contents(self._data)"])
