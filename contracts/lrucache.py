"""C54 (part): util/_collections.py::LRUCache.  view: key -> (value, use counter); entries are (key, value, [counter]).

get / [] return only the value stored under *that* key and refresh *its* counter, every other entry untouched; a store gives
the key the newest counter (so that it is the last to be evicted).  _manage_size (sorted() on counters) is an assumed
contract here and covered by the bounded complement.  DESIGN §5 C54, App. B.2.
"""
from pyvc.contract import fn, cls

C = "util/_collections.py::LRUCache."
cls("LRUCache", fields={"capacity": "int", "_counter": "int", "_data": "dict", "size_alert": "v", "_mutex": "obj:Lock", "threshold": "float",
                        "size_threshold": "prop:" + C + "size_threshold"},
    rep=["all(is_tuple(dget(self._data, k), 3) and dget(self._data, k) is not None for k in keys(self._data))",
         # an entry records the key it is stored under (eviction deletes by entry[0])
         "all(dget(self._data, k)[0] is k for k in keys(self._data))",
         # each entry has its own counter cell, and no counter is ahead of the global one
         "forall(lambda a, b: implies(dhas(self._data, a) and dhas(self._data, b) and a is not b, dget(self._data, a)[2] is not dget(self._data, b)[2]))",
         "all(len(listof(dget(self._data, k)[2])) == 1 and intof(listof(dget(self._data, k)[2])[0]) <= self._counter for k in keys(self._data))"],
    methods={n: C + n for n in ["_inc_counter", "get", "__getitem__", "__setitem__", "__delitem__", "_manage_size", "__len__", "size_threshold"]})

T = {"values:self._data": "tupleval", "item": "tupleval", "expr:item[2]": "list"}
CTR = "intof(listof(dget(self._data, {k})[2])[0])"
OTHERS = ("forall(lambda q: implies(q is not key, dhas(self._data, q) == old(dhas(self._data, q)) and implies(dhas(self._data, q), "
          "dget(self._data, q) is old(dget(self._data, q)) and " + CTR.format(k="q") + " == old(" + CTR.format(k="q") + "))))")

fn(C + "_inc_counter", cls="LRUCache", props=["C54"], returns="int",
   ensures=["result == old(self._counter) + 1", "self._counter == result"], modifies=["self._counter"])
fn(C + "__len__", cls="LRUCache", props=["C54"], returns="int", ensures=["result == len(self._data)"], modifies=[])

HIT = ["implies(old(dhas(self._data, key)), result is old(dget(self._data, key))[1] and dget(self._data, key) is old(dget(self._data, key)) and "
       + CTR.format(k="key") + " == old(self._counter) + 1)", OTHERS, "keys(self._data) == old(keys(self._data))"]
fn(C + "get", cls="LRUCache", props=["C54"], types=T,
   ensures=HIT + ["implies(not old(dhas(self._data, key)), result is default and self._counter == old(self._counter))"],
   modifies=["self._counter", "contents(listof(dget(self._data, key)[2]))"], harness="lrucache.get")
fn(C + "__getitem__", cls="LRUCache", props=["C54"], types=T, raises={"KeyError": "not dhas(self._data, key)"},
   ensures=HIT, modifies=["self._counter", "contents(listof(dget(self._data, key)[2]))"], harness="lrucache.getitem")

# --- _manage_size under proof.  The mutex is an object with two ghost flags: `_g_locked` (held by anybody) and `_g_mine`
# (held by this call's thread).  acquire(False)/release() are assumed contracts of threading.Lock.
cls("Lock", fields={"_g_locked": "bool", "_g_mine": "bool"},
    methods={"acquire": "threading::Lock.acquire@nonblocking", "release": "threading::Lock.release@ghost"})
fn("threading::Lock.acquire@nonblocking", abstract=True, cls="Lock", params=["self", "blocking"], returns="bool", types={"blocking": "bool"},
   requires=["not blocking"],
   ensures=["result == (not old(self._g_locked))", "self._g_locked", "self._g_mine == (old(self._g_mine) or result)"],
   modifies=["self._g_locked", "self._g_mine"], notes="threading.Lock.acquire(False)")
fn("threading::Lock.release@ghost", abstract=True, cls="Lock", params=["self"], returns="none",
   requires=["self._g_mine"], ensures=["not self._g_locked", "not self._g_mine"], modifies=["self._g_locked", "self._g_mine"])
# the user's size_alert hook: foreign code, may raise anything; assumed not to change the cache
fn(C + "size_alert@env", abstract=True, params=["cache"], returns="none", modifies=[], may_raise={"BaseException": "True"},
   notes="user hook; assumed not to modify the cache")
# sorted(self._data.values(), key=itemgetter(2), reverse=True): a duplicate-free listing of the entries, newest counter first
# (assumed contract of the builtins; stated over the dict so that no injectivity reasoning is left to the solver)
CT = "intof(listof({e}[2])[0])"
DISTINCT = "all(all(implies(i != j, by_counter[i][0] is not by_counter[j][0]) for i in range(len(by_counter))) for j in range(len(by_counter)))"
fn("builtins::sorted@by_counter_desc", abstract=True, params=["d"],
   types={"d": "dict", "values:d": "tupleval", "expr:result[i]": "tupleval", "expr:result[j]": "tupleval", "x": "tupleval"},
   returns="seq",
   requires=["all(dget(d, k)[0] is k for k in keys(d))"],
   ensures=["len(result) == len(keys(d))", "no_dups(result)", DISTINCT.replace("by_counter", "result"),
            "all(dhas(d, result[j][0]) and dget(d, result[j][0]) is result[j] for j in range(len(result)))",
            "all(dget(d, k) in result for k in keys(d))",
            "all(all(implies(i < j, " + CT.format(e="result[i]") + " >= " + CT.format(e="result[j]") + ") for i in range(len(result))) for j in range(len(result)))"],
   modifies=[], notes="sorted() by the one-element counter list, descending (list comparison = comparison of the single int)")

fn(C + "size_threshold", cls="LRUCache", props=["C54"], returns="float",
   ensures=["result == self.capacity + self.capacity * self.threshold"], modifies=[])
# retained entries are the most recently used: nothing evicted by this call is newer than anything it kept
LRU = ("forall(lambda a, b: implies(old(dhas(self._data, a)) and not dhas(self._data, a) and dhas(self._data, b), "
       "old(" + CTR.format(k="a") + ") <= old(" + CTR.format(k="b") + ")))")
# inside one pruning pass: nothing evicted so far is newer than the entries that will be kept (the first `capacity` of the listing)
LRU1 = ("forall(lambda a: implies(old(dhas(self._data, a)) and not dhas(self._data, a), "
        "all(implies(j < self.capacity, old(" + CTR.format(k="a") + ") <= " + CT.format(e="by_counter[j]") + ") for j in range(len(by_counter)))))")
# ... and eviction never goes below the capacity
FLOOR_MIN = "ite(old(len(self._data)) < self.capacity, old(len(self._data)), self.capacity)"
FLOOR = "len(self._data) >= " + FLOOR_MIN
SORTED = ("all(all(implies(i < j, " + CT.format(e="by_counter[i]") + " >= " + CT.format(e="by_counter[j]") + ") for i in range(len(by_counter))) for j in range(len(by_counter)))")
# on entry the calling thread does not hold the pruning lock (it is not re-entrant); the capacity is a size
LOCKFREE = ["not self._mutex._g_mine", "self.capacity >= 0"]
LOCK_BACK = ["not self._mutex._g_mine", "self._mutex._g_locked == old(self._mutex._g_locked)"]
SURV = "all(old(dhas(self._data, k)) and dget(self._data, k) is old(dget(self._data, k)) for k in keys(self._data))"
BOUND = "self.capacity + self.capacity * self.threshold"
fn(C + "_manage_size", cls="LRUCache", props=["C54"], returns="none",
   types=dict(T, by_counter="seq", size_alert="bool", **{"expr:by_counter[_i]": "tupleval", "expr:by_counter[j]": "tupleval", "expr:by_counter[i]": "tupleval"}),
   callees={"self.size_alert": dict(fn=C + "size_alert@env", args=["$0"]),
            "sorted": dict(fn="builtins::sorted@by_counter_desc", args=["self._data"],
                           expect="sorted(self._data.values(), key=operator.itemgetter(2), reverse=True)"),
            "self._mutex.acquire": dict(fn="threading::Lock.acquire@nonblocking", recv="self._mutex", args=["$0"]),
            "self._mutex.release": dict(fn="threading::Lock.release@ghost", recv="self._mutex", args=[])},
   requires=LOCKFREE,
   invariant={
       0: ["self._mutex._g_mine and self._mutex._g_locked", SURV, LRU, FLOOR],
       1: ["self._mutex._g_mine and self._mutex._g_locked", SURV, "no_dups(by_counter)", "self.capacity >= 0", DISTINCT,
           # entries by_counter[capacity : capacity + _i] are gone, every other listed entry is still stored under its key
           "all(dhas(self._data, by_counter[j][0]) == (j < self.capacity or j >= self.capacity + _i) for j in range(len(by_counter)))",
           "all(implies(dhas(self._data, by_counter[j][0]), dget(self._data, by_counter[j][0]) is by_counter[j]) for j in range(len(by_counter)))",
           "all(dget(self._data, k) in by_counter for k in keys(self._data))",
           "len(self._data) == len(by_counter) - _i",
           SORTED, LRU1, "len(by_counter) >= " + FLOOR_MIN],
   },
   loop_modifies={0: ["contents(self._data)"], 1: ["contents(self._data)"]},
   ensures=LOCK_BACK + [
       SURV, LRU, FLOOR,
       # the size bound: when this call held the lock, the cache is within capacity * (1 + threshold) afterwards
       "implies(not old(self._mutex._g_locked), not (len(self._data) > " + BOUND + "))",
   ],
   may_raise={"BaseException": "True"},
   # a raising size_alert hook must not leave the lock held (the cache would never be pruned again), and loses nothing
   exc_ensures={"BaseException": LOCK_BACK + [SURV]},
   # concrete-only: which entries go -- after a pruning pass exactly the `capacity` most recently used remain
   c_ensures=["implies(not old(self._mutex._g_locked) and old(len(self._data)) > " + BOUND + ", len(self._data) == self.capacity and "
              "all(all(implies(not dhas(self._data, a), old(dget(self._data, a))[2][0] < dget(self._data, b)[2][0]) for a in old(keys(self._data))) for b in keys(self._data)))"],
   modifies=["contents(self._data)", "self._mutex._g_locked", "self._mutex._g_mine"], harness="lrucache.manage_size")
fn(C + "__setitem__", cls="LRUCache", props=["C54"], types=T, returns="none", requires=LOCKFREE,
   ensures=[
       # the stored key carries the value and the NEWEST counter (most recently used), unless eviction removed it
       "implies(dhas(self._data, key), dget(self._data, key)[1] is value and dget(self._data, key)[0] is key and "
       + CTR.format(k="key") + " == old(self._counter) + 1)",
       "self._counter == old(self._counter) + 1",
       # nothing else is changed except by eviction: surviving entries are the old ones
       "forall(lambda q: implies(q is not key and dhas(self._data, q), old(dhas(self._data, q)) and dget(self._data, q) is old(dget(self._data, q))))",
       ],
   # the size manager always runs after a store (it is what bounds the cache)
   s_ensures=["called('self._manage_size')"],
   # a failing size_alert hook propagates; the store itself has happened and the lock is free again
   may_raise={"BaseException": "True"},
   exc_ensures={"BaseException": ["not self._mutex._g_mine", "self._mutex._g_locked == old(self._mutex._g_locked)"]},
   modifies=["self._counter", "contents(self._data)", "self._mutex._g_locked", "self._mutex._g_mine"], harness="lrucache.setitem")
fn(C + "__delitem__", cls="LRUCache", props=["C54"], types=dict(T, __v="v"), returns="none", raises={"KeyError": "not dhas(self._data, __v)"},
   ensures=["not dhas(self._data, __v)",
            "forall(lambda q: implies(q is not __v, dhas(self._data, q) == old(dhas(self._data, q)) and implies(dhas(self._data, q), dget(self._data, q) is old(dget(self._data, q)))))"],
   modifies=["contents(self._data)"])
