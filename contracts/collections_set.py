"""C38 (part): orm/collections.py::_set_decorators — the instrumented set operations.

view (members, ev): members = the set contents, ev = ghost log of fired collection events: ('A', x) append, ('R', x) remove,
('W', x) append_wo_mutation (the value was already a member).  `fn` is the wrapped builtin set method.
Every operation: the members afterwards are what the builtin set operation gives, and the log grows by exactly one 'R' per
member that left and one 'A' per member that arrived (in the iteration order of the respective difference set).
Argument kind: a set (iterables with repeated members are covered by the bounded complement).  DESIGN §5 C38.
"""
from pyvc.contract import fn, cls

S = "orm/collections.py::_set_decorators."
K = {"NO_KEY": "sentinel"}
cls("ISet", isa="set", fields={"ev": "seqv"},
    methods={"add": S + "add.add", "remove": S + "remove.remove", "discard": S + "discard.discard"})
fn("orm/collections.py::__set@set", abstract=True, params=["collection", "item", "_sa_initiator", "key"], types={"collection": "ISet"},
   modifies=["collection.ev"], ensures=["collection.ev == old(collection.ev) + [pair('A', item)]", "result is item"],
   notes="fires the append event; assumed to return the item unchanged")
fn("orm/collections.py::__set_wo_mutation@set", abstract=True, params=["collection", "item", "_sa_initiator"], types={"collection": "ISet"},
   modifies=["collection.ev"], ensures=["collection.ev == old(collection.ev) + [pair('W', item)]"], returns="none",
   notes="fires append_wo_mutation")
fn("orm/collections.py::__del@set", abstract=True, params=["collection", "item", "_sa_initiator", "key"], types={"collection": "ISet"},
   modifies=["collection.ev"], ensures=["collection.ev == old(collection.ev) + [pair('R', item)]"], returns="none",
   notes="fires the remove event")
CAL = {"__set": "orm/collections.py::__set@set", "__set_wo_mutation": "orm/collections.py::__set_wo_mutation@set",
       "__del": "orm/collections.py::__del@set", "__before_pop": "noop", "_set_binops_check_strict": "havoc:bool"}
T = {"self": "ISet"}
M = ["contents(self)", "self.ev"]
EV, OEV = "self.ev", "old(self.ev)"
IN = "forall(lambda x: (x in self) == ({e}))"

fn(S + "add.add", props=["C38"], types=T, consts=K, callees=dict(CAL, fn="builtin:set:add"), returns="none",
   ensures=[IN.format(e="old(x in self) or x is value"),
            f"{EV} == ite(old(value in self), {OEV} + [pair('W', value)], {OEV} + [pair('A', value)])"], modifies=M)
fn(S + "discard.discard", props=["C38"], types=T, consts=K, callees=dict(CAL, fn="builtin:set:discard"), returns="none",
   ensures=[IN.format(e="old(x in self) and x is not value"),
            f"{EV} == ite(old(value in self), {OEV} + [pair('R', value)], {OEV})"], modifies=M)
fn(S + "remove.remove", props=["C38"], types=T, consts=K, callees=dict(CAL, fn="builtin:set:remove"), returns="none",
   raises={"KeyError": "value not in self"}, exc_ensures={"KeyError": [f"{EV} == {OEV}", IN.format(e="old(x in self)")]},
   ensures=[IN.format(e="old(x in self) and x is not value"), f"{EV} == {OEV} + [pair('R', value)]"], modifies=M)
fn(S + "pop.pop", props=["C38"], types=T, consts=K, callees=dict(CAL, fn="builtin:set:pop"),
   raises={"KeyError": "not any(True for x in self)"},
   ensures=["old(result in self)", IN.format(e="old(x in self) and x is not result"), f"{EV} == {OEV} + [pair('R', result)]"], modifies=M)

# bulk operations: loops over the argument / over the difference sets, calling the operations above.
# Their event clause is ORDER-INSENSITIVE (the property says the events "account exactly for the items added and removed"):
# the ghost log starts empty (ghost precondition) and afterwards it is duplicate free and contains exactly
#     ('R', x) for every x that left,  ('A', x) for every x that arrived  (and ('W', x) for every re-added member)
def ACC(left=None, arrived=None, wo=None, extra=""):
    import re

    class _R(str):
        def replace(self, a, b):       # whole-word replacement of the bound variable
            return re.sub(r"\b" + a + r"\b", b, self)
    left, arrived, wo = [(_R(v) if v else v) for v in (left, arrived, wo)]
    alts = []
    if left:
        alts.append("(z is pair('R', z[1]) and " + left.replace("x", "z[1]") + extra + ")")
    if arrived:
        alts.append("(z is pair('A', z[1]) and " + arrived.replace("x", "z[1]") + extra + ")")
    if wo:
        alts.append("(z is pair('W', z[1]) and " + wo.replace("x", "z[1]") + extra + ")")
    return ["no_dups(self.ev)", "forall(lambda z: (z in self.ev) == (" + " or ".join(alts) + "))"]


GHOST0 = ["len(self.ev) == 0"]
TZ = {"z": "tupleval"}
PV = " and z[1] in prefix(seq(value), _i)"
fn(S + "update.update", props=["C38"], types=dict(T, value="set", **TZ), consts=K, callees=CAL, returns="none",
   requires=["value is not self"] + GHOST0,
   invariant={0: [IN.format(e="old(x in self) or x in prefix(seq(value), _i)")] + ACC(arrived="not old(x in self)", wo="old(x in self)", extra=PV)},
   loop_modifies={0: M},
   ensures=[IN.format(e="old(x in self) or x in value")] + ACC(arrived="(x in value and not old(x in self))", wo="(x in value and old(x in self))"),
   modifies=M)
fn(S + "difference_update.difference_update", props=["C38"], types=dict(T, value="set", **TZ), consts=K, callees=CAL, returns="none",
   requires=["value is not self"] + GHOST0,
   invariant={0: [IN.format(e="old(x in self) and x not in prefix(seq(value), _i)")] + ACC(left="old(x in self)", extra=PV)},
   loop_modifies={0: M},
   ensures=[IN.format(e="old(x in self) and x not in value")] + ACC(left="(old(x in self) and x in value)"),
   modifies=M)

OLDSEQ = "old(seq(self))"
fn(S + "clear.clear", props=["C38"], types=dict(T, **TZ), consts=K, callees=CAL, returns="none", requires=GHOST0,
   invariant={0: [IN.format(e=f"old(x in self) and x not in prefix({OLDSEQ}, _i)")] + ACC(left="True", extra=f" and z[1] in prefix({OLDSEQ}, _i)")},
   loop_modifies={0: M},
   ensures=["not any(True for x in self)"] + ACC(left="old(x in self)"), modifies=M)

NI = f"implies(result is NotImplemented, len({EV}) == 0 and " + IN.format(e="old(x in self)") + ")"
fn(S + "__ior__.__ior__", props=["C38"], types=dict(T, value="set", **TZ), consts=K, callees=CAL,
   requires=["value is not self"] + GHOST0,
   invariant={0: [IN.format(e="old(x in self) or x in prefix(seq(value), _i)")] + ACC(arrived="not old(x in self)", wo="old(x in self)", extra=PV)},
   loop_modifies={0: M},
   ensures=["result is self or result is NotImplemented", NI] +
           ["implies(result is self, " + c + ")" for c in [IN.format(e="old(x in self) or x in value")] + ACC(arrived="(x in value and not old(x in self))", wo="(x in value and old(x in self))")],
   modifies=M)
fn(S + "__isub__.__isub__", props=["C38"], types=dict(T, value="set", **TZ), consts=K, callees=CAL,
   requires=["value is not self"] + GHOST0,
   invariant={0: [IN.format(e="old(x in self) and x not in prefix(seq(value), _i)")] + ACC(left="old(x in self)", extra=PV)},
   loop_modifies={0: M},
   ensures=["result is self or result is NotImplemented", NI] +
           ["implies(result is self, " + c + ")" for c in [IN.format(e="old(x in self) and x not in value")] + ACC(left="(old(x in self) and x in value)")],
   modifies=M)


def two_loops(newmember):
    """want/have/remove/add pattern: members afterwards == `newmember`; one 'R' per member that left, one 'A' per arrival"""
    left = "(old(x in self) and not (" + newmember + "))"
    arr = "((" + newmember + ") and not old(x in self))"
    sets = ["forall(lambda x: (x in remove) == " + left + ")", "forall(lambda x: (x in add) == " + arr + ")"]
    return dict(
        invariant={0: [IN.format(e="old(x in self) and x not in prefix(seq(remove), _i)")] + ACC(left="True", extra=" and z[1] in prefix(seq(remove), _i)") + sets,
                   1: [IN.format(e="(old(x in self) and x not in remove) or x in prefix(seq(add), _i)")]
                      + ACC(left="x in remove", arrived="x in prefix(seq(add), _i)") + sets},
        loop_modifies={0: M, 1: M},
        ensures=[IN.format(e=newmember)] + ACC(left=left, arrived=arr))


TY2 = dict(T, other="set", want="setv", have="set", remove="setv", add="setv", **TZ)
INTER = "old(x in self) and x in other"
SYMD = "old(x in self) != (x in other)"
for name, nm, ret in (("intersection_update", INTER, False), ("__iand__", INTER, True), ("symmetric_difference_update", SYMD, False), ("__ixor__", SYMD, True)):
    spec = two_loops(nm)
    ens = spec["ensures"]
    if ret:
        ens = ["result is self or result is NotImplemented", NI] + [f"implies(result is self, {c})" for c in ens]
    fn(S + f"{name}.{name}", props=["C38"], types=TY2, consts=K, callees=CAL, requires=["other is not self"] + GHOST0,
       invariant=spec["invariant"], loop_modifies=spec["loop_modifies"], ensures=ens, modifies=M, **({} if ret else {"returns": "none"}))
