"""C34 (part): orm/session.py::Session._register_persistent — identity keys after a flush, incl. primary-key changes.

For every flushed state whose object is alive:  state.key becomes the identity key computed from its current primary key; when
that CHANGES an existing key, the state is discarded from the identity map under the old key, and the transaction remembers
(FIRST original key, newest key) for it -- a second change keeps the first original key, so a rollback can restore it; finally the
state is stored in the identity map under the new key (`_WeakInstanceDict.replace`, proved in identity.py).  A NULL identity key
raises FlushError before anything is registered for that state.  DESIGN §5 C34.
"""
import contracts.identity  # noqa: F401
from pyvc.contract import fn, cls, CLASSES

CLASSES["IState"].fields.update({"dict": "v", "_orphaned_outside_of_session": "bool"})
cls("MapperR", fields={"allow_partial_pks": "bool"})
cls("STxR", fields={"_key_switches": "dict", "_new": "dict", "_dirty": "dict"})
cls("DispR", fields={"pending_to_persistent": "v"})
cls("SessR", fields={"identity_map": "_WeakInstanceDict", "_transaction": "opt:STxR", "_new": "dict", "dispatch": "DispR"})
IK = "pure_identity_key(pure_state_mapper(state), state)"
fn("orm/state.py::InstanceState._commit_all_states@rp", abstract=True, params=["iter_", "instance_dict", "ks", "imap", "sts"],
   types={"ks": "dict", "imap": "_WeakInstanceDict", "sts": "set"}, returns="none", modifies=["any.modified", "any.expired", "any._strong_obj", "any.contents"],
   ensures=["forall(lambda q: dhas(ks, q) == old(dhas(ks, q)) and implies(dhas(ks, q), dget(ks, q) is old(dget(ks, q))))",
            "forall(lambda q: dhas(imap._dict, q) == old(dhas(imap._dict, q)) and implies(dhas(imap._dict, q), dget(imap._dict, q) is old(dget(imap._dict, q))))",
            "keys(imap._dict) == old(keys(imap._dict))", "seq(sts) == old(seq(sts))"],
   notes="InstanceState._commit_all_states (proved under C48): clears committed_state / flags of the given states; it does not touch the "
         "flushed-states set, the transaction's key_switches, the identity map's mapping or any identity key")
T = {"states": "set", "state": "IState", "mapper": "MapperR", "obj": "v", "instance_key": "tupleval", "trans": "opt:STxR", "orig_key": "v",
     "old": "opt:IState", "pending_to_persistent": "v", "values:self._transaction._key_switches": "tupleval", "values:trans._key_switches": "tupleval",
     "expr:self._transaction": "opt:STxR", "expr:seq(states)[j]": "IState", "elems:states": "IState", "q": "IState", "values:self.identity_map._dict": "IState"}
KS = "self._transaction._key_switches"
NOSTALE = "forall(lambda k: implies(dhas(self.identity_map._dict, k) and dget(self.identity_map._dict, k) in states, dget(self.identity_map._dict, k).key is k))"
fn("orm/session.py::Session._register_persistent", cls="SessR", props=["C34"], types=T, returns="none",
   consts={"exc.FlushError": "class"},
   callees={"_state_mapper": "pure:state_mapper", "mapper._identity_key_from_state": "pure:identity_key",
            "_none_set.intersection": "havoc:v", "_none_set.issuperset": "havoc:bool", "state_str": "havoc:v", "util.warn": "noop",
            "statelib.InstanceState._commit_all_states": dict(fn="orm/state.py::InstanceState._commit_all_states@rp",
                                                              args=["None", "self.identity_map", KS, "self.identity_map", "states"]),
            "self._register_altered": "noop", "pending_to_persistent": "noop", "self._new.pop": "noop"},
   requires=["self._transaction is not None", "states is not self.identity_map._modified",
             # consistent at entry: a flushed state is bound in the identity map only under its own key
             NOSTALE, KS + " is not self.identity_map._dict", "all(is_tuple(dget(" + KS + ", k), 2) for k in keys(" + KS + "))", "all(SJ.key is None or truth(SJ.key) for j in range(len(seq(states))))".replace("SJ", "seq(states)[j]"),
             "all(is_tuple(pure_identity_key(SJ), 3) and pure_identity_key(SJ) is not None for j in range(len(seq(states))))".replace("SJ", "seq(states)[j]")],
   invariant={0: [
       # every processed live state carries the identity key computed from its primary key now
       "all(implies(call(SJ.obj) is not None, SJ.key is pure_identity_key(SJ)) for j in range(_i))".replace("SJ", "seq(states)[j]"),
       # key switches: an entry that existed keeps its FIRST original key; a new entry records the key the state had at entry
       "forall(lambda q: implies(old(dhas(" + KS + ", q)), dhas(" + KS + ", q) and dget(" + KS + ", q)[0] is old(dget(" + KS + ", q))[0]))",
       "forall(lambda q: implies(dhas(" + KS + ", q) and not old(dhas(" + KS + ", q)), q in prefix(seq(states), _i) and dget(" + KS + ", q)[0] is old(q.key)))",
       "all(SJ.key is old(SJ.key) for j in range(_i, len(seq(states))))".replace("SJ", "seq(states)[j]"),
       # every processed live state is findable: the identity map has its key, bound to a processed state carrying that very key
       "all(implies(call(SJ.obj) is not None, dhas(D, SJ.key) and dget(D, SJ.key) in prefix(seq(states), _i) and dget(D, SJ.key).key is SJ.key) for j in range(_i))".replace("SJ", "seq(states)[j]").replace("D,", "self.identity_map._dict,"),
       NOSTALE,
       "self._transaction is old(self._transaction)", "all(is_tuple(dget(" + KS + ", k), 2) for k in keys(" + KS + "))"]},
   loop_modifies={0: ["each(seq(states)).key", "each(seq(states))._orphaned_outside_of_session", "contents(" + KS + ")", "contents(self.identity_map._dict)",
                      "contents(self.identity_map._modified)", "any._instance_dict"]},
   ensures=["all(implies(call(SJ.obj) is not None, SJ.key is pure_identity_key(SJ)) for j in range(len(seq(states))))".replace("SJ", "seq(states)[j]"),
            "forall(lambda q: implies(old(dhas(" + KS + ", q)), dhas(" + KS + ", q) and dget(" + KS + ", q)[0] is old(dget(" + KS + ", q))[0]))",
            "forall(lambda q: implies(dhas(" + KS + ", q) and not old(dhas(" + KS + ", q)), q in states and dget(" + KS + ", q)[0] is old(q.key)))",
            "all(implies(call(SJ.obj) is not None, dhas(D, SJ.key) and dget(D, SJ.key) in states and dget(D, SJ.key).key is SJ.key) for j in range(len(seq(states))))".replace("SJ", "seq(states)[j]").replace("D,", "self.identity_map._dict,"),
            # ... and never left behind under a key it no longer has (the old key of a primary-key switch is discarded)
            NOSTALE],
   may_raise={"FlushError": "True"},
   modifies=["*"])
