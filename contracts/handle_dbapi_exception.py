"""C27 (kernel): engine/base.py::Connection — invalidation state and _handle_dbapi_exception.

State of a Connection (as in the source): `closed` = no DBAPI connection and it cannot reconnect; `invalidated` = no DBAPI
connection but it can reconnect.  Under proof:
  closed, invalidated, _still_open_and_dbapi_connection_is_valid   the three properties, against those definitions
  invalidate()      afterwards the Connection holds no DBAPI connection (it is invalidated), the pooled connection was told
                    to invalidate itself when it was still valid; a closed Connection refuses; an invalidated one is left alone
  _handle_dbapi_exception   every error raised around a cursor execution goes through it; on every exit (it never returns):
     * the per-call flags `_is_disconnect` / `_reentrant_error` are reset -- a later ordinary error on the same Connection is
       not mistaken for a disconnect;
     * it was classified as a disconnect (dialect, exit exception on an open connection, or a handle_error listener) and the
       Connection was not invalidated yet  ==>  it is invalidated now (no silent continuation on a dead connection);
     * the pool is told to invalidate the DBAPI connection only together with that.
DESIGN §5 C27.
"""
from pyvc.contract import fn, cls

B = "engine/base.py::Connection."
cls("DbapiH", fields={"Error": "v"})
cls("DialectH", fields={"_has_events": "bool", "dispatch": "DispatchH", "loaded_dbapi": "DbapiH"})
cls("DispatchH", fields={"handle_error": "seqv"})
cls("FairyH", fields={"is_valid": "bool", "_g_fairy_invalidated": "bool"}, methods={"invalidate": "pool/base.py::_ConnectionFairy.invalidate@ghost"})
cls("PoolH", fields={"_g_pool_invalidations": "int"}, methods={"_invalidate": "pool/base.py::Pool._invalidate@ghost"})
cls("EngineH", fields={"pool": "PoolH", "hide_parameters": "v"})
cls("ECtxH", fields={"is_disconnect": "bool", "invalidate_pool_on_disconnect": "bool", "chained_exception": "v"})
cls("ExecCtxH", fields={"executemany": "bool"})
cls("SAExcH", fields={"connection_invalidated": "v"})
cls("ConnH", fields={"_is_disconnect": "bool", "_reentrant_error": "bool", "dialect": "DialectH", "engine": "EngineH",
                     "_dbapi_connection": "opt:FairyH", "__can_reconnect": "bool", "_execution_options": "dict",
                     "_g_was_disc": "bool",    # ghost: the error was finally classified as a disconnect
                     "closed": "prop:" + B + "closed", "invalidated": "prop:" + B + "invalidated",
                     "_still_open_and_dbapi_connection_is_valid": "prop:" + B + "_still_open_and_dbapi_connection_is_valid"},
    class_defaults={"_is_disconnect": False, "_reentrant_error": False},
    methods={"invalidate": B + "invalidate"})
fn("pool/base.py::Pool._invalidate@ghost", abstract=True, cls="PoolH", params=["self", "connection", "exception"], returns="none",
   modifies=["self._g_pool_invalidations"], ensures=["self._g_pool_invalidations == old(self._g_pool_invalidations) + 1"],
   notes="Pool._invalidate: assumed not to raise (a BaseException out of the DBAPI close() would -- known finding of C26 -- and would then also skip Connection.invalidate here)")
fn("sys::exc_info@handling", abstract=True, params=[], returns="tupleval", ensures=["is_tuple(result, 3)", "result[1] is not None"], modifies=[],
   notes="sys.exc_info() while an exception is being handled (this function is only called from except blocks)")
fn("pool/base.py::_ConnectionFairy.invalidate@ghost", abstract=True, cls="FairyH", params=["self", "e"], returns="none",
   modifies=["self._g_fairy_invalidated", "self.is_valid"], ensures=["self._g_fairy_invalidated"],
   notes="the pooled connection invalidates its record (C26); assumed not to raise")
fn(B + "handle_error@listener", abstract=True, params=["ctx"], types={"ctx": "ECtxH"}, returns="v",
   modifies=["ctx.is_disconnect", "ctx.invalidate_pool_on_disconnect"], may_raise={"Exception": "True"},
   notes="a user handle_error listener: may re-classify the error, may return a replacement exception, may raise")

NOCONN = "self._dbapi_connection is None"
TP = {"pool_proxied_connection": "opt:FairyH"}
fn(B + "closed", cls="ConnH", props=["C27"], returns="bool", types=TP, ensures=["result == (" + NOCONN + " and not self.__can_reconnect)"], modifies=[])
fn(B + "invalidated", cls="ConnH", props=["C27"], returns="bool", types=TP, ensures=["result == (" + NOCONN + " and self.__can_reconnect)"], modifies=[])
fn(B + "_still_open_and_dbapi_connection_is_valid", cls="ConnH", props=["C27"], returns="bool", types=TP,
   ensures=["result == (self._dbapi_connection is not None and self._dbapi_connection.is_valid)"], modifies=[])
fn(B + "invalidate", cls="ConnH", props=["C27"], returns="none", types=TP, consts={"exc.ResourceClosedError": "class"},
   raises={"ResourceClosedError": NOCONN + " and not self.__can_reconnect"},
   ensures=[NOCONN, "self.__can_reconnect == old(self.__can_reconnect)",
            # a connection that was still valid in the pool's eyes is invalidated there as well
            "implies(old(self._dbapi_connection is not None and self._dbapi_connection.is_valid), old(self._dbapi_connection)._g_fairy_invalidated)"],
   exc_ensures={"ResourceClosedError": [NOCONN]},
   modifies=["self._dbapi_connection", "self._dbapi_connection._g_fairy_invalidated", "self._dbapi_connection.is_valid"])

T = {"e": "v", "statement": "v", "parameters": "v", "cursor": "v", "context": "opt:ExecCtxH", "is_sub_exec": "bool", "exc_info": "tupleval",
     "is_exit_exception": "bool", "invalidate_pool_on_disconnect": "bool", "ismulti": "bool", "should_wrap": "bool", "ctx": "ECtxH",
     "elems:self.dialect.dispatch.handle_error": "v", "newraise": "v", "sqlalchemy_exception": "opt:SAExcH", "per_fn": "v", "_raised": "v",
     "dbapi_conn_wrapper": "opt:FairyH", "expr:self.engine.pool": "PoolH"}
CAL = {"sys.exc_info": dict(fn="sys::exc_info@handling", args=[]), "util.is_exit_exception": "havoc:bool", "isinstance": "pure:isinstance_dyn",
       "self.dialect.is_disconnect": "havoc:bool", "exc.DBAPIError.instance": "havoc:SAExcH", "ExceptionContextImpl": "newobj:ECtxH",
       "fn": dict(fn=B + "handle_error@listener", args=["$0"]), "context.handle_dbapi_exception": "noop", "self._safe_close_cursor": "noop",
       "self.in_transaction": "havoc:bool", "self._rollback_impl": "havoc:v", "cast": "identity",
       "self.engine.pool._invalidate": dict(fn="pool/base.py::Pool._invalidate@ghost", recv="self.engine.pool", args=["$0", "$1"])}
POOLG = "self.engine.pool._g_pool_invalidations"
INVALIDATED = "(" + NOCONN + " and self.__can_reconnect)"
fn(B + "_handle_dbapi_exception", cls="ConnH", props=["C27"], types=T, callees=CAL, returns="none", consts={"exc.StatementError": "sentinel"},
   requires=["not self._is_disconnect", "not self._g_was_disc"],
   ghost_after={"del self._is_disconnect": ["self._g_was_disc = True"]},
   loop_modifies={0: ["any.is_disconnect", "any.invalidate_pool_on_disconnect", "any.chained_exception"]},
   # quick tier: no handle_error listeners installed (dialect._has_events false); thorough tier: all paths
   variants=[dict(name="no-listeners", requires=["not self.dialect._has_events"]), dict(name="all", tier="thorough", requires=[
       # with listeners that may re-classify the error the Connection is assumed not to be closed at entry: on a closed
       # Connection a listener setting is_disconnect would trip the `assert dbapi_conn_wrapper is not None` of the clean-up
       "not (" + NOCONN + " and not self.__can_reconnect)"])],
   # NoReturn
   ensures=["False"],
   may_raise={"BaseException": "True"},
   exc_ensures={"BaseException": [
       # the per-call flags never survive the call (a re-entrant call leaves the outer call's bookkeeping alone)
       "implies(not old(self._reentrant_error), not self._is_disconnect and not self._reentrant_error)",
       # nothing un-invalidates or re-opens the connection, and a closed one stays closed
       "implies(old(" + NOCONN + "), " + NOCONN + ")", "self.__can_reconnect == old(self.__can_reconnect)",
       # classified as a disconnect ==> the Connection holds no DBAPI connection any more (invalidated, or it was closed already):
       # no silent continuation on a dead connection
       "implies(self._g_was_disc, " + NOCONN + ")",
       # the pool is only told to invalidate together with the Connection itself being invalidated
       "implies(" + POOLG + " > old(" + POOLG + "), " + NOCONN + ")",
       # not a disconnect ==> nothing is invalidated
       "implies(not self._g_was_disc, self._dbapi_connection is old(self._dbapi_connection) and " + POOLG + " == old(" + POOLG + "))"]},
   modifies=["self._is_disconnect", "self._reentrant_error", "self._dbapi_connection", "self._g_was_disc", "any._g_fairy_invalidated", "any.is_valid",
             POOLG, "any.is_disconnect", "any.invalidate_pool_on_disconnect", "any.chained_exception", "any.connection_invalidated"])

# ---- reconnecting after an invalidation: only when no transaction is pending (no silent continuation of a dead transaction)
fn(B + "_invalid_transaction", cls="ConnH", props=["C27"], returns="none", consts={"exc.PendingRollbackError": "class"},
   types={".": "v"}, raises={"PendingRollbackError": "True"}, ensures=["False"], modifies=[])
import pyvc.contract as _pc  # noqa: E402
_pc.CLASSES["ConnH"].fields.update({"_transaction": "v", "_nested_transaction": "v"})
_pc.CLASSES["ConnH"].methods.update({"_invalid_transaction": B + "_invalid_transaction"})
_pc.CLASSES["EngineH"].methods = dict(_pc.CLASSES["EngineH"].methods or {}, raw_connection="engine/base.py::Engine.raw_connection@new")
fn("engine/base.py::Engine.raw_connection@new", abstract=True, cls="EngineH", params=["self"], returns="FairyH", fresh_result=True,
   modifies=[], may_raise={"BaseException": "True"}, notes="checks a connection out of the pool (C25/C26); may raise")
fn(B + "_revalidate_connection", cls="ConnH", props=["C27"], returns="opt:FairyH",
   consts={"exc.ResourceClosedError": "class"},
   raises={"ResourceClosedError": "not (" + NOCONN + " and self.__can_reconnect)",
           # an invalidated connection with a transaction still pending does NOT silently get a fresh DBAPI connection
           "PendingRollbackError": NOCONN + " and self.__can_reconnect and self._transaction is not None"},
   may_raise={"BaseException": NOCONN + " and self.__can_reconnect and self._transaction is None"},
   ensures=["result is self._dbapi_connection and fresh(result)", "old(self._transaction) is None"],
   exc_ensures={"BaseException": ["self._dbapi_connection is old(self._dbapi_connection)"]},
   modifies=["self._dbapi_connection"])
