"""C24: the reset path of pooled connections (pool/base.py::_ConnectionFairy._reset, engine/default.py::DefaultDialect.reset_isolation_level).

Ghost state per DBAPI connection: txn_open (assumed driver contract: do_rollback / do_commit clear it or raise) and iso_level
(assumed: _assert_and_set_isolation_level sets it or raises).  DESIGN §5 C24.
"""
from pyvc.contract import fn, cls

cls("DBAPIConn", fields={"txn_open": "bool", "iso_level": "v"})
cls("Dispatch", fields={"reset": "v"})
cls("PoolObj", fields={"dispatch": "Dispatch", "_reset_on_return": "v", "_dialect": "DialectObj", "logger": "v"})
cls("DialectObj", fields={"_on_connect_isolation_level": "v", "default_isolation_level": "v"},
    methods={"do_rollback": "engine/default.py::DefaultDialect.do_rollback", "do_commit": "engine/default.py::DefaultDialect.do_commit",
             "_assert_and_set_isolation_level": "engine/default.py::DefaultDialect._assert_and_set_isolation_level"})
cls("Fairy", fields={"dbapi_connection": "DBAPIConn", "_connection_record": "v", "_echo": "bool"})

# assumed driver-level contracts
fn("engine/default.py::DefaultDialect.do_rollback", abstract=True, cls="DialectObj", params=["self", "dbapi_connection"], returns="none",
   types={"dbapi_connection": "Fairy"}, modifies=["dbapi_connection.dbapi_connection.txn_open"],
   ensures=["not dbapi_connection.dbapi_connection.txn_open"], may_raise={"Exception": "True"},
   notes="driver rollback ends the transaction or raises")
fn("engine/default.py::DefaultDialect.do_commit", abstract=True, cls="DialectObj", params=["self", "dbapi_connection"], returns="none",
   types={"dbapi_connection": "Fairy"}, modifies=["dbapi_connection.dbapi_connection.txn_open"],
   ensures=["not dbapi_connection.dbapi_connection.txn_open"], may_raise={"Exception": "True"})
fn("engine/default.py::DefaultDialect._assert_and_set_isolation_level", abstract=True, cls="DialectObj", params=["self", "dbapi_conn", "level"],
   returns="none", types={"dbapi_conn": "DBAPIConn"}, modifies=["dbapi_conn.iso_level"], ensures=["dbapi_conn.iso_level is level"],
   may_raise={"Exception": "True"})

SENT = {"reset_rollback": "sentinel", "reset_commit": "sentinel", "reset_none": "sentinel"}
TXN = "self.dbapi_connection.txn_open"
fn("pool/base.py::_ConnectionFairy._reset", cls="Fairy", props=["C24"], returns="none", consts=SENT,
   types={"pool": "PoolObj", "transaction_was_reset": "bool", "terminate_only": "bool", "asyncio_safe": "bool"},
   callees={"pool.dispatch.reset": "noop", "PoolResetState": "havoc:v", "pool.logger.debug": "noop"},
   # the caller may only claim "already reset" when no transaction is open (call-site obligation of Connection.close)
   requires=[f"implies(transaction_was_reset, not {TXN})"],
   ensures=[f"implies(asyncio_safe and pool._reset_on_return is reset_rollback, not {TXN})",
            f"implies(asyncio_safe and pool._reset_on_return is reset_commit, not {TXN})",
            f"implies(not asyncio_safe or (pool._reset_on_return is not reset_rollback and pool._reset_on_return is not reset_commit), {TXN} == old({TXN}))"],
   may_raise={"Exception": "True"},
   modifies=["self.dbapi_connection.txn_open"], harness=None)

ENGINE_LEVEL = "(self._on_connect_isolation_level if self._on_connect_isolation_level is not None else self.default_isolation_level)"
fn("engine/default.py::DefaultDialect.reset_isolation_level", cls="DialectObj", props=["C24"], returns="none",
   types={"dbapi_conn": "DBAPIConn"},
   requires=["self._on_connect_isolation_level is None or self._on_connect_isolation_level == 'AUTOCOMMIT' or self._on_connect_isolation_level == self.default_isolation_level",
             "self._on_connect_isolation_level is not None or self.default_isolation_level is not None"],
   # "no state from a previous checkout": the level goes back to the engine-wide one (the one applied on connect), else the default
   ensures=[f"dbapi_conn.iso_level is {ENGINE_LEVEL}"],
   may_raise={"Exception": "True"}, modifies=["dbapi_conn.iso_level"], harness="pool_reset.reset_isolation_level")

# ---- execution_options(isolation_level=..., <dialect characteristic>=...): every call that sets characteristics schedules
# their reset on the connection record (run at check-in: _ConnectionRecord.checkin pops and calls every finalizer, C26 proof)
cls("CRecX", fields={"finalize_callback": "deque"})
cls("FairyX", fields={"dbapi_connection": "v", "_connection_record": "CRecX"})
cls("ConnX", fields={"connection": "FairyX"})
cls("DialectX", fields={"connection_characteristics": "dict", "_reset_characteristics": "v"})
fn("engine/default.py::DefaultDialect._set_connection_characteristics", cls="DialectX", props=["C24"], returns="none",
   types={"connection": "ConnX", "characteristics": "dict", "characteristic_values": "list", "trans_objs": "list",
          "elems:characteristic_values": "tupleval", "characteristic": "v", "value": "v", "_": "v", "dbapi_connection": "v"},
   callees={"connection.in_transaction": "havoc:bool", "characteristic.set_connection_characteristic": "noop",
            "functools.partial": "pure:partial", "exc.InvalidRequestError": "havoc:v"},
   ensures=["len(connection.connection._connection_record.finalize_callback) == old(len(connection.connection._connection_record.finalize_callback)) + 1",
            "connection.connection._connection_record.finalize_callback[-1] is pure_partial(self._reset_characteristics, characteristics)",
            # earlier finalizers stay scheduled, in order
            "contents(connection.connection._connection_record.finalize_callback)[:-1] == old(contents(connection.connection._connection_record.finalize_callback))"],
   may_raise={"Exception": "True", "InvalidRequestError": "True"},
   # nothing is scheduled twice or dropped when the call is refused
   exc_ensures={"Exception": ["contents(connection.connection._connection_record.finalize_callback) == old(contents(connection.connection._connection_record.finalize_callback))"]},
   modifies=["contents(connection.connection._connection_record.finalize_callback)"])

# ---- the scheduled reset itself: every characteristic that was set on the connection is reset, each exactly once, on THAT
# dbapi connection (ghost log of reset calls on the dialect).  A characteristic name that the dialect does not know cannot have
# been scheduled (set_connection_execution_options intersects with connection_characteristics): precondition.
from pyvc.contract import CLASSES as _CLS  # noqa: E402
_CLS["DialectX"].fields.update({"_g_resets": "seqv"})
fn("engine/characteristics.py::ConnectionCharacteristic.reset_characteristic@log", abstract=True, params=["characteristic", "dialect", "dbapi_conn"],
   types={"dialect": "DialectX"}, returns="none", modifies=["dialect._g_resets"],
   ensures=["dialect._g_resets == old(dialect._g_resets) + [pair(characteristic, dbapi_conn)]"], may_raise={"Exception": "True"},
   exc_ensures={"Exception": ["dialect._g_resets == old(dialect._g_resets) + [pair(characteristic, dbapi_conn)]"]},
   notes="characteristic.reset_characteristic(dialect, dbapi_conn): logged (ghost), may raise")
CC = "self.connection_characteristics"
fn("engine/default.py::DefaultDialect._reset_characteristics", cls="DialectX", props=["C24"], returns="none",
   types={"characteristics": "dict", "characteristic_name": "v", "characteristic": "v", "dbapi_connection": "v", "z": "tupleval"},
   callees={"characteristic.reset_characteristic": dict(fn="engine/characteristics.py::ConnectionCharacteristic.reset_characteristic@log",
                                                        args=["characteristic", "$0", "$1"])},
   requires=["all(dhas(" + CC + ", k) for k in keys(characteristics))", "len(self._g_resets) == 0", "characteristics is not " + CC],
   invariant={0: ["len(self._g_resets) == _i",
                  "all(self._g_resets[j] == pair(dget(" + CC + ", keys(characteristics)[j]), dbapi_connection) for j in range(_i))"]},
   loop_modifies={0: ["self._g_resets"]},
   ensures=["len(self._g_resets) == len(keys(characteristics))",
            "all(self._g_resets[j] == pair(dget(" + CC + ", keys(characteristics)[j]), dbapi_connection) for j in range(len(keys(characteristics))))"],
   may_raise={"Exception": "True"},
   # a failing reset stops the run: what was reset is a prefix, never a characteristic twice, never on another connection
   exc_ensures={"Exception": ["len(self._g_resets) <= len(keys(characteristics))",
                              "all(self._g_resets[j] == pair(dget(" + CC + ", keys(characteristics)[j]), dbapi_connection) for j in range(len(self._g_resets)))"]},
   modifies=["self._g_resets"])
