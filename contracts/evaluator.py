"""C43: three-valued logic of the ORM evaluator closures (orm/evaluator.py).  DESIGN §5 C43, App. B.4.

Sub-evaluators are arbitrary pure callables (uninterpreted `call(e, obj)`), the clause list has any length.
The postconditions are SQL's truth tables, taken from the property statement, not from the code.
`_NO_OBJECT` is outside the precondition (DESIGN §5 C43: "not judged").
"""
from pyvc.contract import fn

CONSTS = {"_EXPIRED_OBJECT": "sentinel", "_NO_OBJECT": "sentinel"}
DOM3 = "all(call(e, obj) is None or call(e, obj) is True or call(e, obj) is False or call(e, obj) is _EXPIRED_OBJECT for e in evaluators)"
NOEXP = "not any(call(e, obj) is _EXPIRED_OBJECT for e in evaluators)"

fn("orm/evaluator.py::_EvaluatorCompiler.visit_and_clauselist_op.evaluate",
   props=["C43"], types={"evaluators": "seq", "elems:evaluators": "fn", "obj": "v", "sub_evaluate": "fn"}, consts=CONSTS,
   requires=[DOM3],
   invariant={0: ["all(call(evaluators[j], obj) is True or call(evaluators[j], obj) is None for j in range(_i))",
                  "has_null == any(call(evaluators[j], obj) is None for j in range(_i))"]},
   ensures=[
       # SQL AND: FALSE if any operand is FALSE, else NULL if any is NULL, else TRUE
       f"implies({NOEXP}, result is (False if any(call(e, obj) is False for e in evaluators) else (None if any(call(e, obj) is None for e in evaluators) else True)))",
       "implies(result is _EXPIRED_OBJECT, any(call(e, obj) is _EXPIRED_OBJECT for e in evaluators))",
   ],
   modifies=[], harness="evaluator.and_")

fn("orm/evaluator.py::_EvaluatorCompiler.visit_or_clauselist_op.evaluate",
   props=["C43"], types={"evaluators": "seq", "elems:evaluators": "fn", "obj": "v", "sub_evaluate": "fn"}, consts=CONSTS,
   requires=[DOM3],
   invariant={0: ["all(call(evaluators[j], obj) is False or call(evaluators[j], obj) is None for j in range(_i))",
                  "has_null == any(call(evaluators[j], obj) is None for j in range(_i))"]},
   ensures=[
       f"implies({NOEXP}, result is (True if any(call(e, obj) is True for e in evaluators) else (None if any(call(e, obj) is None for e in evaluators) else False)))",
       "implies(result is _EXPIRED_OBJECT, any(call(e, obj) is _EXPIRED_OBJECT for e in evaluators))",
   ],
   modifies=[], harness="evaluator.or_")

fn("orm/evaluator.py::_EvaluatorCompiler.visit_unary.evaluate",
   props=["C43"], types={"eval_inner": "fn", "obj": "v"}, consts=CONSTS,
   requires=["call(eval_inner, obj) is None or call(eval_inner, obj) is True or call(eval_inner, obj) is False or call(eval_inner, obj) is _EXPIRED_OBJECT"],
   ensures=["implies(call(eval_inner, obj) is True, result is False)",
            "implies(call(eval_inner, obj) is False, result is True)",
            "implies(call(eval_inner, obj) is None, result is None)",
            "implies(call(eval_inner, obj) is _EXPIRED_OBJECT, result is _EXPIRED_OBJECT)"],
   modifies=[], harness="evaluator.not_")

# ---- binary closures: NULL / expired propagation (DESIGN App. B.4)
BT = {"eval_left": "fn", "eval_right": "fn", "obj": "v", "operator": "fn"}
LV, RV = "call(eval_left, obj)", "call(eval_right, obj)"
EXP = f"({LV} is _EXPIRED_OBJECT or {RV} is _EXPIRED_OBJECT)"
fn("orm/evaluator.py::_EvaluatorCompiler._straight_evaluate.evaluate", props=["C43"], types=BT, consts=CONSTS,
   ensures=[f"implies({EXP}, result is _EXPIRED_OBJECT)",
            # SQL: any comparison / arithmetic with a NULL operand is NULL
            f"implies(not {EXP} and ({LV} is None or {RV} is None), result is None)",
            f"implies(not {EXP} and {LV} is not None and {RV} is not None, result is call(operator, {LV}, {RV}))"],
   modifies=[])
fn("orm/evaluator.py::_EvaluatorCompiler.visit_is_binary_op.evaluate", props=["C43"], types=BT, consts=CONSTS, returns="v",
   ensures=[f"implies({EXP}, result is _EXPIRED_OBJECT)",
            # IS is NULL-safe equality: never NULL
            f"implies(not {EXP}, result is ({LV} == {RV}))"],
   modifies=[])
fn("orm/evaluator.py::_EvaluatorCompiler.visit_is_not_binary_op.evaluate", props=["C43"], types=BT, consts=CONSTS, returns="v",
   ensures=[f"implies({EXP}, result is _EXPIRED_OBJECT)", f"implies(not {EXP}, result is ({LV} != {RV}))"],
   modifies=[])
fn("orm/evaluator.py::_EvaluatorCompiler.visit_comma_op_clauselist_op.evaluate", props=["C43"],
   types={"evaluators": "seq", "elems:evaluators": "fn", "obj": "v", "sub_evaluate": "fn", "values": "list"}, consts=CONSTS, returns="v",
   requires=["all(call(e, obj) is not _NO_OBJECT for e in evaluators)"],
   invariant={0: ["all(call(evaluators[j], obj) is not None and call(evaluators[j], obj) is not _EXPIRED_OBJECT for j in range(_i))",
                  "len(values) == _i and all(contents(values)[j] is call(evaluators[j], obj) for j in range(_i))"]},
   ensures=["implies(result is _EXPIRED_OBJECT, any(call(e, obj) is _EXPIRED_OBJECT for e in evaluators))",
            "implies(not any(call(e, obj) is _EXPIRED_OBJECT for e in evaluators) and any(call(e, obj) is None for e in evaluators), result is None)",
            "implies(not any(call(e, obj) is _EXPIRED_OBJECT or call(e, obj) is None for e in evaluators), "
            "len(seq(result)) == len(evaluators) and all(seq(result)[j] is call(evaluators[j], obj) for j in range(len(evaluators))))"],
   modifies=[])
