"""C50 (part): ext/orderinglist.py::OrderingList — rep invariant  position(self[i]) == ordering_func(i)  (DESIGN §5 C50).

The ordering attribute of an entity is the ghost field `pos`; _get_order_value/_set_order_value are its accessors
(getattr/setattr on a configured attribute name).  Entities are distinct objects (no entity twice in the list).
"""
from pyvc.contract import fn, cls

O = "ext/orderinglist.py::OrderingList."
cls("Entity", fields={"pos": "v"})
cls("Adapter", fields={"_referenced_by_owner": "bool"})
cls("OrderingList", isa="list", fields={"ordering_func": "fn", "reorder_on_append": "bool", "ordering_attr": "v"},
    methods=dict({n: O + n for n in ["_get_order_value", "_set_order_value", "_order_entity", "reorder", "append", "insert", "remove", "pop",
                                     "__delitem__"]}, _reorder=O + "reorder"))
T = {"entity": "Entity", "elems:self": "Entity", "elems:contents(self)": "Entity", "elems:old(contents(self))": "Entity", "index": "int", "reorder": "bool", "adapter": "Adapter"}
F = "call(self.ordering_func, {i}, self)"
ORDERED = "all(contents(self)[j].pos == " + F.format(i="j") + " for j in range(len(self)))"
I = "contents(self)"
OI = "old(contents(self))"

fn(O + "_get_order_value", abstract=True, cls="OrderingList", params=["self", "entity"], types=T, ensures=["result is entity.pos"], modifies=[],
   notes="getattr(entity, self.ordering_attr)")
fn(O + "_set_order_value", abstract=True, cls="OrderingList", params=["self", "entity", "value"], types=T, returns="none",
   ensures=["entity.pos == value"], modifies=["entity.pos"], notes="setattr(entity, self.ordering_attr, value)")

fn(O + "_order_entity", cls="OrderingList", props=["C50"], types=T, returns="none",
   ensures=["implies(reorder or old(entity.pos) is None, entity.pos == " + F.format(i="index") + ")",
            "implies(not reorder and old(entity.pos) is not None, entity.pos is old(entity.pos))"],
   modifies=["entity.pos"])
NODUP = "no_dups(self)"
ALLENT = "all(e is not None for e in self)"
fn(O + "reorder", cls="OrderingList", props=["C50"], types=T, returns="none", requires=[NODUP],
   invariant={0: ["all(contents(self)[j].pos == " + F.format(i="j") + " for j in range(_i))", f"{I} == {OI}"]},
   loop_modifies={0: ["each(contents(self)).pos"]},
   ensures=[ORDERED, f"{I} == {OI}"], modifies=["each(contents(self)).pos"])

MODALL = ["contents(self)", "each(contents(self)).pos", "entity.pos"]
CAL = {"collection_adapter": "havoc:Adapter"}
fn(O + "append", cls="OrderingList", props=["C50"], types=T, returns="none", requires=[NODUP, "entity not in self"],
   ensures=[f"{I} == {OI} + [entity]",
            "implies(self.reorder_on_append or old(entity.pos) is None, entity.pos == " + F.format(i="len(self) - 1") + ")",
            # given the list was ordered, it still is (when the new entity had no position or reorder_on_append is set)
            "implies(old(" + ORDERED + ") and (self.reorder_on_append or old(entity.pos) is None), " + ORDERED + ")"],
   modifies=["contents(self)", "entity.pos"])
fn(O + "insert", cls="OrderingList", props=["C50"], types=T, returns="none", requires=[NODUP, "entity not in self"],
   ensures=[f"{I} == {OI}[:index] + [entity] + {OI}[index:]", ORDERED], modifies=MODALL)
fn(O + "pop", cls="OrderingList", props=["C50"], types=T, requires=[NODUP],
   raises={"IndexError": "not (-len(self) <= index and index < len(self))"},
   ensures=[f"result is {OI}[index]", ORDERED, f"len({I}) == len({OI}) - 1"], modifies=["contents(self)", "each(contents(self)).pos"])
fn(O + "__delitem__", cls="OrderingList", props=["C50"], types=T, returns="none", requires=[NODUP],
   raises={"IndexError": "not (-len(self) <= index and index < len(self))"},
   ensures=[ORDERED, f"len({I}) == len({OI}) - 1"], modifies=["contents(self)", "each(contents(self)).pos"])
fn(O + "remove", cls="OrderingList", props=["C50"], types=T, callees=CAL, returns="none", requires=[NODUP],
   raises={"ValueError": "entity not in self"},
   ensures=[f"{I} == {OI}[:index({OI}, entity)] + {OI}[index({OI}, entity) + 1:]"],
   modifies=["contents(self)", "each(contents(self)).pos"])
