"""C23 (part): engine/base.py::NestedTransaction — savepoint handles form a stack hanging off the connection.

Ghost field `_g_chain` of a handle = the sequence [self, self._previous_nested, its _previous_nested, ...] (well-formedness WF:
acyclic, one connection).  Proved:
  _deactivate_from_connection   pops self off the connection iff it is the current one
  _cancel (recursive)           EVERY handle of the chain ends inactive and none of them stays the connection's current
                                savepoint -- whatever was already inactive or already popped (out-of-order ends)
  _close_impl / _do_commit      the handle ends inactive on every exit (also when the SAVEPOINT statement fails) and, when asked
                                to deactivate, is not the connection's current savepoint any more
DESIGN §5 C23.
"""
from pyvc.contract import fn, cls

N = "engine/base.py::NestedTransaction."
cls("RootN", fields={"is_active": "bool"})
cls("ConnN", fields={"_transaction": "opt:RootN", "_nested_transaction": "opt:NTx"},
    methods={"_rollback_to_savepoint_impl": "engine/base.py::Connection._rollback_to_savepoint_impl",
             "_release_savepoint_impl": "engine/base.py::Connection._release_savepoint_impl",
             "_invalid_transaction": "engine/base.py::Connection._invalid_transaction@n"})
cls("NTx", fields={"connection": "ConnN", "is_active": "bool", "_savepoint": "v", "_previous_nested": "opt:NTx"},
    methods={n: N + n for n in ["_deactivate_from_connection", "_cancel", "_close_impl", "_do_commit"]})

fn("engine/base.py::Connection._rollback_to_savepoint_impl", abstract=True, cls="ConnN", params=["self", "name"], returns="none", modifies=[],
   may_raise={"BaseException": "True"}, notes="ROLLBACK TO SAVEPOINT; may raise")
fn("engine/base.py::Connection._release_savepoint_impl", abstract=True, cls="ConnN", params=["self", "name"], returns="none", modifies=[],
   may_raise={"BaseException": "True"}, notes="RELEASE SAVEPOINT; may raise")
fn("engine/base.py::Connection._invalid_transaction@n", abstract=True, cls="ConnN", params=["self"], returns="none", raises={"PendingRollbackError": "True"})


TY = {"expr:chain[j]": "NTx", "expr:chain[j + 1]": "NTx", "elems:chain": "NTx", "expr:self._previous_nested": "opt:NTx", "t": "NTx"}
# `chain` is a rigid ghost parameter: the handles reachable from self through _previous_nested, in order
CHAIN = ["len(chain) >= 1 and chain[0] is self",
         "all(isinst(chain[j], NTx) and chain[j] is not None for j in range(len(chain)))",
         "all(chain[j]._previous_nested is chain[j + 1] for j in range(len(chain) - 1))",
         "chain[len(chain) - 1]._previous_nested is None",
         "no_dups(chain)",
         "all(chain[j].connection is self.connection for j in range(len(chain)))"]

fn(N + "_deactivate_from_connection", cls="NTx", props=["C23"], types=dict(TY, warn="bool"), returns="none", callees={"util.warn": "noop"},
   ensures=["implies(old(self.connection._nested_transaction) is self, self.connection._nested_transaction is self._previous_nested)",
            "implies(old(self.connection._nested_transaction) is not self, self.connection._nested_transaction is old(self.connection._nested_transaction))"],
   modifies=["self.connection._nested_transaction"])

fn(N + "_cancel", cls="NTx", props=["C23"], types=dict(TY, chain="seq"), returns="none",
   callees={"self._previous_nested._cancel": dict(fn=N + "_cancel", recv="self._previous_nested", args=[], ghost={"chain": "chain[1:]"})},
   requires=CHAIN,
   ensures=["all(not chain[j].is_active for j in range(len(chain)))",
            # none of the cancelled handles is still the connection's current savepoint
            "implies(old(self.connection._nested_transaction) is not None and old(self.connection._nested_transaction) in chain, self.connection._nested_transaction is None)",
            "implies(old(self.connection._nested_transaction) is None or old(self.connection._nested_transaction) not in chain, "
            "self.connection._nested_transaction is old(self.connection._nested_transaction))"],
   modifies=["each(chain).is_active", "self.connection._nested_transaction"],
   notes="partial correctness: the recursive call is checked against this same contract, for the rest of the chain")

fn(N + "_close_impl", cls="NTx", props=["C23"], types=dict(TY, deactivate_from_connection="bool", warn_already_deactive="bool"), returns="none",
   ensures=["not self.is_active", "implies(deactivate_from_connection, self.connection._nested_transaction is not self)"],
   may_raise={"BaseException": "True"},
   exc_ensures={"BaseException": ["not self.is_active", "implies(deactivate_from_connection, self.connection._nested_transaction is not self)"]},
   requires=["self._previous_nested is not self"],
   modifies=["self.is_active", "self.connection._nested_transaction"])

fn(N + "_do_commit", cls="NTx", props=["C23"], types=TY, returns="none",
   requires=["self._previous_nested is not self"],
   raises={"InvalidRequestError": "not self.is_active and self.connection._nested_transaction is not self",
           "PendingRollbackError": "not self.is_active and self.connection._nested_transaction is self"},
   may_raise={"BaseException": "self.is_active"},
   ensures=["not self.is_active", "self.connection._nested_transaction is not self"],
   # a failed RELEASE leaves the handle inactive (it must not emit SQL when rolled back) but still current
   exc_ensures={"BaseException": ["implies(old(self.is_active), not self.is_active)"]},
   modifies=["self.is_active", "self.connection._nested_transaction"])


# ---- the chain is built by NestedTransaction.__init__: pushing a handle keeps the savepoint stack well formed
def CHAIN_OF(c, head, conn):
    """clauses: sequence `c` is the chain of handle `head` (on connection `conn`)"""
    return [f"len({c}) >= 1 and {c}[0] is {head}",
            f"all(isinst({c}[j], NTx) and {c}[j] is not None for j in range(len({c})))",
            f"all({c}[j]._previous_nested is {c}[j + 1] for j in range(len({c}) - 1))",
            f"{c}[len({c}) - 1]._previous_nested is None",
            f"no_dups({c})",
            f"all({c}[j].connection is {conn} for j in range(len({c})))"]


fn(N + "__init__", cls="NTx", props=["C23"], returns="none",
   types=dict(TY, chain0="seq", connection="ConnN", **{"expr:chain0[j]": "NTx", "expr:chain0[j + 1]": "NTx", "expr:chain0[len(chain0) - 1]": "NTx", "expr:chain0[0]": "NTx"}),
   callees={"TransactionalContext._trans_ctx_check": "noop", "self.connection._savepoint_impl": "havoc:v"},
   # chain0 (ghost): the chain of the connection's current savepoint, empty when there is none; self is a new handle
   requires=["connection._transaction is not None", "self not in chain0",
             "implies(connection._nested_transaction is None, len(chain0) == 0)",
             "implies(connection._nested_transaction is not None, " + " and ".join("(" + c + ")" for c in CHAIN_OF("chain0", "connection._nested_transaction", "connection")) + ")"],
   # [self] + chain0 is the new chain: self is its head, linked to the old head (or None), on the same connection, not in chain0;
   # and chain0 is still the chain of the old head (nothing in it was touched)
   ensures=["connection._nested_transaction is self", "self.is_active", "self._previous_nested is old(connection._nested_transaction)",
            "self.connection is connection", "self not in chain0",
            "implies(len(chain0) > 0, self._previous_nested is chain0[0])", "implies(len(chain0) == 0, self._previous_nested is None)",
            "implies(len(chain0) > 0, " + " and ".join("(" + c + ")" for c in CHAIN_OF("chain0", "old(connection._nested_transaction)", "connection")) + ")"],
   may_raise={"BaseException": "True"},
   # a failing SAVEPOINT statement leaves the stack as it was
   exc_ensures={"BaseException": ["connection._nested_transaction is old(connection._nested_transaction)"]},
   modifies=["self.connection", "self._savepoint", "self.is_active", "self._previous_nested", "connection._nested_transaction"])
import pyvc.contract as _pcn  # noqa: E402
_pcn.CLASSES["ConnN"].fields["_trans_context_manager"] = "v"

# ---- public end-of-life operations of a savepoint handle (Transaction.close / rollback / commit on a NestedTransaction)
for _n in ("_do_close", "_do_rollback"):
    fn(N + _n, cls="NTx", props=["C23"], types=TY, returns="none", requires=["self._previous_nested is not self"],
       ensures=["not self.is_active", "self.connection._nested_transaction is not self"],
       may_raise={"BaseException": "True"}, exc_ensures={"BaseException": ["not self.is_active", "self.connection._nested_transaction is not self"]},
       modifies=["self.is_active", "self.connection._nested_transaction"])
    _pcn.CLASSES["NTx"].methods[_n] = N + _n
TRN = "engine/base.py::Transaction."
for _n in ("close", "rollback", "commit"):
    fn(TRN + _n + "#nested", cls="NTx", props=["C23"], types=TY, returns="none", requires=["self._previous_nested is not self"],
       ensures=["not self.is_active", "self.connection._nested_transaction is not self"],
       may_raise={"BaseException": "True"},
       exc_ensures={"BaseException": ["not self.is_active"]},
       modifies=["self.is_active", "self.connection._nested_transaction"])
