"""C28 (part): event/attr.py::_ListenerCollection / _CompoundListener.__call__ and event/registry.py::_EventKey list helpers.

"dispatching an event calls exactly the listeners currently registered for the target and its ancestors, each once, in
registration order (inserted ones first)":
  __call__          calls every class-level (parent) listener, then every instance-level one, each exactly once, in the order of the
                    two sequences (ghost log of calls); a listener that raises stops the dispatch there
  append / insert   a newly registered listener goes to the END / to the FRONT of the instance-level sequence, everything else keeps
                    its relative order; a listener that is already registered for this collection is not added twice
  remove            exactly that listener leaves the sequence
The registry's own bookkeeping (`_stored_in_collection`: nested weak-key dictionaries) is an assumed contract: it answers whether
the (listener, collection) pair is new, and never touches the listener sequences.  DESIGN §5 C28.
"""
from pyvc.contract import fn, cls

A = "event/attr.py::"
Rg = "event/registry.py::"
cls("EKey", fields={"_listen_fn": "v", "_key": "v"},
    methods={"append_to_list": Rg + "_EventKey.append_to_list", "prepend_to_list": Rg + "_EventKey.prepend_to_list",
             "remove_from_list": Rg + "_EventKey.remove_from_list"})
cls("LColl", fields={"listeners": "deque", "parent_listeners": "seqv", "propagate": "set", "_g_calls": "seqv"})
fn(Rg + "_stored_in_collection", abstract=True, params=["event_key", "owner"], returns="bool", modifies=[],
   notes="registry bookkeeping: True iff the (listener, collection) pair was not registered yet; assumed, and assumed to agree with the sequence: "
         "the pair is registered iff the listener is in the collection's sequence (see requires of the callers)")
fn(Rg + "_removed_from_collection", abstract=True, params=["event_key", "owner"], returns="none", modifies=[])
fn(A + "listener@call", abstract=True, params=["fn_", "coll"], types={"coll": "LColl"}, returns="v", modifies=["coll._g_calls"],
   ensures=["coll._g_calls == old(coll._g_calls) + [fn_]"], may_raise={"BaseException": "True"},
   exc_ensures={"BaseException": ["coll._g_calls == old(coll._g_calls) + [fn_]"]},
   notes="calling one listener (ghost: logged, also when it raises)")

LS = "contents(list_)"
T = {"owner": "v", "list_": "deque"}
fn(Rg + "_EventKey.append_to_list", cls="EKey", props=["C28"], types=T, returns="bool", callees={"_stored_in_collection": Rg + "_stored_in_collection"},
   ensures=["implies(result, " + LS + " == old(" + LS + ") + [self._listen_fn])", "implies(not result, " + LS + " == old(" + LS + "))"],
   modifies=[LS])
fn(Rg + "_EventKey.prepend_to_list", cls="EKey", props=["C28"], types=T, returns="bool", callees={"_stored_in_collection": Rg + "_stored_in_collection"},
   ensures=["implies(result, " + LS + " == [self._listen_fn] + old(" + LS + "))", "implies(not result, " + LS + " == old(" + LS + "))"],
   modifies=[LS])
fn(Rg + "_EventKey.remove_from_list", cls="EKey", props=["C28"], types=T, returns="none", callees={"_removed_from_collection": "noop"},
   raises={"ValueError": "self._listen_fn not in " + LS},
   ensures=[LS + " == old(" + LS + ")[:index(old(" + LS + "), self._listen_fn)] + old(" + LS + ")[index(old(" + LS + "), self._listen_fn) + 1:]"],
   modifies=[LS])

L = A + "_ListenerCollection."
SEQ = "contents(self.listeners)"
TL = {"event_key": "EKey", "propagate": "bool"}
fn(L + "append", cls="LColl", props=["C28"], types=TL, returns="none",
   ensures=[SEQ + " == old(" + SEQ + ") or " + SEQ + " == old(" + SEQ + ") + [event_key._listen_fn]",
            "implies(propagate and len(" + SEQ + ") > len(old(" + SEQ + ")), event_key._listen_fn in self.propagate)"],
   modifies=[SEQ, "contents(self.propagate)"])
fn(L + "insert", cls="LColl", props=["C28"], types=TL, returns="none",
   ensures=[SEQ + " == old(" + SEQ + ") or " + SEQ + " == [event_key._listen_fn] + old(" + SEQ + ")",
            "implies(propagate and len(" + SEQ + ") > len(old(" + SEQ + ")), event_key._listen_fn in self.propagate)"],
   modifies=[SEQ, "contents(self.propagate)"])
fn(L + "remove", cls="LColl", props=["C28"], types=TL, returns="none", callees={"registry._removed_from_collection": "noop"},
   raises={"ValueError": "event_key._listen_fn not in " + SEQ},
   ensures=[SEQ + " == old(" + SEQ + ")[:index(old(" + SEQ + "), event_key._listen_fn)] + old(" + SEQ + ")[index(old(" + SEQ + "), event_key._listen_fn) + 1:]",
            "event_key._listen_fn not in self.propagate"],
   modifies=[SEQ, "contents(self.propagate)"])

fn(A + "_CompoundListener.__call__", cls="LColl", props=["C28"], returns="none",
   types={"args": "v", "kw": "v", "elems:self.parent_listeners": "v", "elems:self.listeners": "v"},
   callees={"fn": dict(fn=A + "listener@call", args=["fn", "self"])},
   invariant={0: ["self._g_calls == old(self._g_calls) + prefix(self.parent_listeners, _i)", SEQ + " == old(" + SEQ + ")"],
              1: ["self._g_calls == old(self._g_calls) + self.parent_listeners + prefix(old(" + SEQ + "), _i)", SEQ + " == old(" + SEQ + ")"]},
   loop_modifies={0: ["self._g_calls"], 1: ["self._g_calls"]},
   # every registered listener once: the class-level ones first, then the instance-level ones, each in sequence order
   ensures=["self._g_calls == old(self._g_calls) + self.parent_listeners + old(" + SEQ + ")"],
   may_raise={"BaseException": "True"},
   # a raising listener ends the dispatch: what was called is a prefix of that order (never a listener twice, never out of order)
   exc_ensures={"BaseException": ["forall(lambda f: implies(f in self._g_calls and f not in old(self._g_calls), f in self.parent_listeners or f in old(" + SEQ + ")))",
                                  "len(self._g_calls) <= len(old(self._g_calls)) + len(self.parent_listeners) + len(old(" + SEQ + "))"]},
   modifies=["self._g_calls"])

# ---- the collection's read-only protocol and clear(): what the dispatch sees is exactly the two sequences
C_ = A + "_CompoundListener."
fn(C_ + "__contains__", cls="LColl", props=["C28"], returns="bool",
   ensures=["result == (item in self.parent_listeners or item in " + SEQ + ")"], modifies=[])
fn(C_ + "__len__", cls="LColl", props=["C28"], returns="int",
   ensures=["result == len(self.parent_listeners) + len(" + SEQ + ")"], modifies=[])
fn(C_ + "__bool__", cls="LColl", props=["C28"], returns="bool",
   ensures=["result == (len(self.parent_listeners) + len(" + SEQ + ") > 0)"], modifies=[])
fn(L + "clear", cls="LColl", props=["C28"], returns="none", callees={"registry._clear": "noop"},
   # every instance-level listener is gone (and nothing is left to propagate); the class-level ones are not this collection's to clear
   ensures=["len(" + SEQ + ") == 0", "not any(True for x in self.propagate)", "self.parent_listeners == old(self.parent_listeners)"],
   modifies=[SEQ, "contents(self.propagate)"])
# _update: an instance-level collection takes over the listeners of another one (dispatch joining / class-level propagation):
# everything `other` propagates becomes propagated here, and of other's listeners exactly those are appended, in other's order,
# that are propagated -- or, when only_propagate is off, not here yet.  The existing listeners keep their places.
from pyvc.contract import CLASSES as _CL  # noqa: E402
_CL["LColl"].fields.update({"_is_asyncio": "bool"})
OSEQ = "contents(other.listeners)"
fn(L + "_update", cls="LColl", props=["C28"], returns="none", types={"other": "LColl", "only_propagate": "bool", "l": "v", "existing_listeners": "deque",
                                                                    "existing_listener_set": "set", "other_listeners": "list", "to_associate": "set"},
   callees={"registry._stored_in_collection_multi": "noop", "self._set_asyncio": "noop"},
   requires=["other is not self", "other.listeners is not self.listeners", "other.propagate is not self.propagate"],
   ensures=["forall(lambda x: (x in self.propagate) == (old(x in self.propagate) or x in other.propagate))",
            SEQ + " == old(" + SEQ + ") + filt(lambda l: (l not in old(" + SEQ + ") and not only_propagate) or l in self.propagate, " + OSEQ + ")",
            OSEQ + " == old(" + OSEQ + ")"],
   modifies=[SEQ, "contents(self.propagate)"])
