"""C52: ScopedRegistry — one object per scope key, other scopes untouched (sequential; DESIGN §5 C52)."""
from pyvc.contract import fn, cls

R = "util/_collections.py::ScopedRegistry."
cls("ScopedRegistry", fields={"createfunc": "fn", "scopefunc": "fn", "registry": "dict"},
    methods={n: R + n for n in ["__call__", "has", "set", "clear"]})

KEY = "call(self.scopefunc)"
OTHERS_UNTOUCHED = ("forall(lambda q: implies(q is not " + KEY + ", dhas(self.registry, q) == old(dhas(self.registry, q))"
                    " and implies(dhas(self.registry, q), dget(self.registry, q) is old(dget(self.registry, q)))))")
# the order of the other keys is untouched too (whole-view postcondition on the key sequence)
KEYS_ORDER = "all(implies(k is not " + KEY + ", k in keys(self.registry)) for k in old(keys(self.registry)))"

# Interference: the only point inside a registry operation where other threads' registry operations can be interleaved with
# an observable effect is the call out to foreign code (the factory).  Its assumed contract therefore lets the *environment*
# change the registry arbitrarily while it runs (rely condition: any registry operation of another thread sharing the scope).
fn(R + "createfunc@env", abstract=True, cls="ScopedRegistry", params=["self"], returns="v", modifies=["contents(self.registry)"],
   notes="the session factory; while it runs another thread may call the registry (any change to the map)")

fn(R + "__call__", cls="ScopedRegistry", props=["C52"],
   callees={"self.createfunc": dict(fn=R + "createfunc@env", recv="self", args=[])},
   s_ensures=[
       # no lost update: if the scope already had an entry when the factory returned (another thread won the race), that entry
       # is returned and kept -- "the same Session for repeated calls within one scope ... under any thread interleaving"
       "implies(after('self.createfunc', dhas(self.registry, " + KEY + ")), result is after('self.createfunc', dget(self.registry, " + KEY + ")))",
       "implies(after('self.createfunc', dhas(self.registry, " + KEY + ")), dget(self.registry, " + KEY + ") is after('self.createfunc', dget(self.registry, " + KEY + ")))",
       # every other scope is untouched by this call (relative to what the environment left when the factory returned)
       "forall(lambda q: implies(q is not " + KEY + ", dhas(self.registry, q) == after('self.createfunc', dhas(self.registry, q))"
       " and implies(dhas(self.registry, q), dget(self.registry, q) is after('self.createfunc', dget(self.registry, q)))))",
   ],
   ensures=["implies(old(dhas(self.registry, " + KEY + ")), result is old(dget(self.registry, " + KEY + ")))",
            "dhas(self.registry, " + KEY + ") and dget(self.registry, " + KEY + ") is result",
            "implies(old(dhas(self.registry, " + KEY + ")), keys(self.registry) == old(keys(self.registry)))",
            # a scope that already has its object: the call changes nothing at all
            "implies(old(dhas(self.registry, " + KEY + ")), " + OTHERS_UNTOUCHED + ")"],
   # every other scope is untouched *by this call*: relative to what the environment left when the factory returned
   # concrete counterpart of the interference clauses: the harness' factory lets a competing thread's entry appear
   c_ensures=["implies(competing is not None, result is competing and dget(self.registry, " + KEY + ") is competing)"],
   modifies=["contents(self.registry)"], harness="registry.call")
fn(R + "has", cls="ScopedRegistry", props=["C52"], returns="bool",
   ensures=["result == dhas(self.registry, " + KEY + ")"], modifies=[], harness="registry.has")
fn(R + "set", cls="ScopedRegistry", props=["C52"], returns="none",
   ensures=["dhas(self.registry, " + KEY + ") and dget(self.registry, " + KEY + ") is obj", OTHERS_UNTOUCHED, KEYS_ORDER],
   modifies=["contents(self.registry)"], harness="registry.set")
fn(R + "clear", cls="ScopedRegistry", props=["C52"], returns="none",
   ensures=["not dhas(self.registry, " + KEY + ")", OTHERS_UNTOUCHED, KEYS_ORDER],
   modifies=["contents(self.registry)"], harness="registry.clear")


# ---------------------------------------------------------------------------------------------------------------------
# ThreadLocalRegistry: the scope is the running thread; storage is a threading.local().  `tlocal` is the *current thread's
# view* of that object: one attribute `value` that may be absent.  Other threads' views are different storage by
# construction of threading.local (trusted: CPython), so "other scopes untouched" is the frame `self.registry.value` only.
cls("tlocal", fields={"value": "maybe:v"})
TL = "util/_collections.py::ThreadLocalRegistry."
cls("ThreadLocalRegistry", fields={"createfunc": "fn", "registry": "obj:tlocal"},
    methods={n: TL + n for n in ["__init__", "__call__", "has", "set", "clear"]})
HAS = "hasattr(self.registry, 'value')"
fn(TL + "__init__", cls="ThreadLocalRegistry", props=["C52"], returns="none", callees={"threading.local": "newobj:tlocal"},
   ensures=["self.createfunc is createfunc", "fresh(self.registry)", "not " + HAS, "isinst(self.registry, tlocal)"],
   modifies=["self.createfunc", "self.registry"])
fn(TL + "__call__", cls="ThreadLocalRegistry", props=["C52"], callees={"self.createfunc": "havoc:v"},
   ensures=["implies(old(" + HAS + "), result is old(self.registry.value))",
            HAS + " and self.registry.value is result"],
   s_ensures=["implies(old(" + HAS + "), not called('self.createfunc'))"],
   modifies=["self.registry.value"])
fn(TL + "has", cls="ThreadLocalRegistry", props=["C52"], returns="bool", ensures=["result == " + HAS], modifies=[])
fn(TL + "set", cls="ThreadLocalRegistry", props=["C52"], returns="none", ensures=[HAS + " and self.registry.value is obj"],
   modifies=["self.registry.value"])
fn(TL + "clear", cls="ThreadLocalRegistry", props=["C52"], returns="none", ensures=["not " + HAS], modifies=["self.registry.value"])

# ScopedRegistry.__init__ (used by scoped_session when a scopefunc is given)
fn(R + "__init__", cls="ScopedRegistry", props=["C52"], returns="none",
   ensures=["self.createfunc is createfunc", "self.scopefunc is scopefunc", "fresh(self.registry)", "len(keys(self.registry)) == 0"],
   modifies=["self.createfunc", "self.scopefunc", "self.registry"])
from pyvc.contract import CLASSES  # noqa: E402
CLASSES["ScopedRegistry"].methods["__init__"] = R + "__init__"

# ---------------------------------------------------------------------------------------------------------------------
# scoped_session: which registry carries the scope, and remove().  `Session._g_closed` is a ghost marker meaning "close()
# has been called on this object" (assumed contract of Session.close, which is outside the proof).
S = "orm/scoping.py::scoped_session."
cls("Session", fields={"_g_closed": "bool"}, methods={"close": "orm/session.py::Session.close@ghost"})
fn("orm/session.py::Session.close@ghost", abstract=True, cls="Session", params=["self"], returns="none",
   ensures=["self._g_closed"], modifies=["self._g_closed"], notes="ghost: close() was called on this session")
cls("scoped_session", fields={"session_factory": "fn", "registry": "v"}, methods={})
fn(S + "__init__", cls="scoped_session", props=["C52"], returns="none",
   ensures=["self.session_factory is session_factory", "fresh(self.registry)",
            # a given scopefunc defines the scope; its registry starts empty and creates with the session factory
            "implies(truth(scopefunc), isinst(self.registry, ScopedRegistry))",
            # no scopefunc: the scope is the running thread, and the slot lives in thread-local storage -- it dies with the
            # thread, so a later thread (even one that is given a recycled thread id) starts with no Session
            "implies(not truth(scopefunc), isinst(self.registry, ThreadLocalRegistry))"],
   modifies=["self.session_factory", "self.registry"])

# remove(): close and discard only the current scope's Session.  One contract per registry kind (tagged keys).
TLV = "self.registry.registry.value"
THAS = "hasattr(self.registry.registry, 'value')"
fn(S + "remove#threadlocal", cls="scoped_session", props=["C52"], returns="none",
   types={"expr:self.registry": "ThreadLocalRegistry", "expr:" + TLV: "Session", "._g_closed": "bool"},
   callees={"self.registry": dict(fn=TL + "__call__", recv="self.registry", args=[], returns="Session")},
   requires=["isinst(self.registry, ThreadLocalRegistry)", "implies(" + THAS + ", isinst(" + TLV + ", Session))"],
   ensures=["not " + THAS,
            # the Session that was current is closed before it is discarded
            "implies(old(" + THAS + "), old(" + TLV + ")._g_closed)"],
   # nothing but the current thread's slot and that Session is touched; no factory call (no Session is created to be closed)
   s_ensures=["not called('self.registry')  or  old(" + THAS + ")"],
   modifies=[TLV, TLV + "._g_closed"])
SKEY = "call(self.registry.scopefunc)"
SREG = "self.registry.registry"
fn(S + "remove#scopefunc", cls="scoped_session", props=["C52"], returns="none",
   types={"expr:self.registry": "ScopedRegistry", "expr:dget(" + SREG + ", " + SKEY + ")": "Session", "._g_closed": "bool"},
   callees={"self.registry": dict(fn=R + "__call__", recv="self.registry", args=[], returns="Session"),
            "self.createfunc": dict(fn=R + "createfunc@env", recv="self", args=[])},
   requires=["isinst(self.registry, ScopedRegistry)",
             "all(isinst(dget(" + SREG + ", k), Session) for k in keys(" + SREG + "))"],
   ensures=["not dhas(" + SREG + ", " + SKEY + ")",
            "implies(old(dhas(" + SREG + ", " + SKEY + ")), old(dget(" + SREG + ", " + SKEY + "))._g_closed)",
            # every other scope keeps its Session, and none of those is closed by this call
            "forall(lambda q: implies(q is not " + SKEY + ", dhas(" + SREG + ", q) == old(dhas(" + SREG + ", q)) and implies(dhas(" + SREG + ", q), "
            "dget(" + SREG + ", q) is old(dget(" + SREG + ", q)))))"],
   modifies=["contents(" + SREG + ")", "dget(" + SREG + ", " + SKEY + ")._g_closed"])

# scoped_session.__call__(**kw): the scope's Session -- the existing one, or a new one (configured by kw only when the scope has
# none yet; asking for a configured Session while one exists is refused, not silently answered with the old one)
CLASSES["scoped_session"].fields.update({"_support_async": "bool"})
CLASSES["Session"].fields.update({"_is_asyncio": "bool"})
fn("orm/scoping.py::scoped_session.session_factory@call", abstract=True, params=[], returns="Session", fresh_result=True, modifies=[],
   may_raise={"Exception": "True"}, notes="the session factory called with the keyword arguments")
KWT = "truth(kw)"
fn(S + "__call__#threadlocal", cls="scoped_session", props=["C52"], returns="Session",
   types={"expr:self.registry": "ThreadLocalRegistry", "expr:" + TLV: "Session", "sess": "Session", "kw": "v"},
   consts={"sa_exc.InvalidRequestError": "class"},
   callees={"self.session_factory": dict(fn="orm/scoping.py::scoped_session.session_factory@call", args=[]),
            "self.registry": dict(fn=TL + "__call__", recv="self.registry", args=[], returns="Session"),
            "warn_deprecated": "noop"},
   requires=["isinst(self.registry, ThreadLocalRegistry)", "implies(" + THAS + ", isinst(" + TLV + ", Session))"],
   raises={"InvalidRequestError": KWT + " and " + THAS},
   may_raise={"Exception": "True"},
   ensures=[THAS + " and " + TLV + " is result",
            # repeated calls within one scope return the same Session
            "implies(old(" + THAS + "), result is old(" + TLV + "))"],
   modifies=[TLV])

# the same with a scopefunc: the scope's Session lives in the ScopedRegistry's dictionary under the key the scopefunc returns now
SOTHERS = ("forall(lambda q: implies(q is not " + SKEY + ", dhas(" + SREG + ", q) == old(dhas(" + SREG + ", q)) and implies(dhas(" + SREG + ", q), "
           "dget(" + SREG + ", q) is old(dget(" + SREG + ", q)))))")
fn(S + "__call__#scopefunc", cls="scoped_session", props=["C52"], returns="Session",
   types={"expr:self.registry": "ScopedRegistry", "expr:dget(" + SREG + ", " + SKEY + ")": "Session", "sess": "Session", "kw": "v"},
   consts={"sa_exc.InvalidRequestError": "class"},
   callees={"self.session_factory": dict(fn="orm/scoping.py::scoped_session.session_factory@call", args=[]),
            "self.registry": dict(fn=R + "__call__", recv="self.registry", args=[], returns="Session"),
            "warn_deprecated": "noop"},
   requires=["isinst(self.registry, ScopedRegistry)", "all(isinst(dget(" + SREG + ", k), Session) for k in keys(" + SREG + "))"],
   raises={"InvalidRequestError": KWT + " and dhas(" + SREG + ", " + SKEY + ")"},
   may_raise={"Exception": "True"},
   ensures=["dhas(" + SREG + ", " + SKEY + ") and dget(" + SREG + ", " + SKEY + ") is result",
            # repeated calls within one scope return the same Session; no other scope's Session is touched
            "implies(old(dhas(" + SREG + ", " + SKEY + ")), result is old(dget(" + SREG + ", " + SKEY + ")))",
            "implies(" + KWT + " or old(dhas(" + SREG + ", " + SKEY + ")), " + SOTHERS + ")"],
   exc_ensures={"InvalidRequestError": ["keys(" + SREG + ") == old(keys(" + SREG + "))", "forall(lambda q: dget(" + SREG + ", q) is old(dget(" + SREG + ", q)))"]},
   modifies=["contents(" + SREG + ")"])
