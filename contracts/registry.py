"""C52: ScopedRegistry — one object per scope key, other scopes untouched (sequential; DESIGN §5 C52)."""
from pyvc.contract import fn, cls

R = "util/_collections.py::ScopedRegistry."
cls("ScopedRegistry", fields={"createfunc": "fn", "scopefunc": "fn", "registry": "dict"},
    methods={n: R + n for n in ["__call__", "has", "set", "clear"]})

KEY = "call(self.scopefunc)"
OTHERS_UNTOUCHED = ("forall(lambda q: implies(q is not " + KEY + ", dhas(self.registry, q) == old(dhas(self.registry, q))"
                    " and implies(dhas(self.registry, q), dget(self.registry, q) is old(dget(self.registry, q)))))")
# the order of the other keys is untouched too (whole-view postcondition on the key sequence)
KEYS_ORDER = "all(implies(k is not " + KEY + ", k in keys(self.registry)) for k in old(keys(self.registry)))"

fn(R + "__call__", cls="ScopedRegistry", props=["C52"],
   callees={"self.createfunc": "havoc:v"},
   ensures=["implies(old(dhas(self.registry, " + KEY + ")), result is old(dget(self.registry, " + KEY + ")))",
            "dhas(self.registry, " + KEY + ") and dget(self.registry, " + KEY + ") is result",
            "implies(old(dhas(self.registry, " + KEY + ")), keys(self.registry) == old(keys(self.registry)))",
            OTHERS_UNTOUCHED, KEYS_ORDER],
   modifies=["contents(self.registry)"], harness="registry.call")
fn(R + "has", cls="ScopedRegistry", props=["C52"], returns="bool",
   ensures=["result == dhas(self.registry, " + KEY + ")"], modifies=[], harness="registry.has")
fn(R + "set", cls="ScopedRegistry", props=["C52"], returns="none",
   ensures=["dhas(self.registry, " + KEY + ") and dget(self.registry, " + KEY + ") is obj", OTHERS_UNTOUCHED, KEYS_ORDER],
   modifies=["contents(self.registry)"], harness="registry.set")
fn(R + "clear", cls="ScopedRegistry", props=["C52"], returns="none",
   ensures=["not dhas(self.registry, " + KEY + ")", OTHERS_UNTOUCHED, KEYS_ORDER],
   modifies=["contents(self.registry)"], harness="registry.clear")
