"""C52: ScopedRegistry — one object per scope key, other scopes untouched (sequential; DESIGN §5 C52)."""
from pyvc.contract import fn, cls

R = "util/_collections.py::ScopedRegistry."
cls("ScopedRegistry", fields={"createfunc": "fn", "scopefunc": "fn", "registry": "dict"},
    methods={n: R + n for n in ["__call__", "has", "set", "clear"]})

KEY = "call(self.scopefunc)"
OTHERS_UNTOUCHED = ("forall(lambda q: implies(q is not " + KEY + ", dhas(self.registry, q) == old(dhas(self.registry, q))"
                    " and implies(dhas(self.registry, q), dget(self.registry, q) is old(dget(self.registry, q)))))")
# the order of the other keys is untouched too (whole-view postcondition on the key sequence)
KEYS_ORDER = "all(implies(k is not " + KEY + ", k in keys(self.registry)) for k in old(keys(self.registry)))"

# Interference: the only point inside a registry operation where other threads' registry operations can be interleaved with
# an observable effect is the call out to foreign code (the factory).  Its assumed contract therefore lets the *environment*
# change the registry arbitrarily while it runs (rely condition: any registry operation of another thread sharing the scope).
fn(R + "createfunc@env", abstract=True, cls="ScopedRegistry", params=["self"], returns="v", modifies=["contents(self.registry)"],
   notes="the session factory; while it runs another thread may call the registry (any change to the map)")

fn(R + "__call__", cls="ScopedRegistry", props=["C52"],
   callees={"self.createfunc": dict(fn=R + "createfunc@env", recv="self", args=[])},
   s_ensures=[
       # no lost update: if the scope already had an entry when the factory returned (another thread won the race), that entry
       # is returned and kept -- "the same Session for repeated calls within one scope ... under any thread interleaving"
       "implies(after('self.createfunc', dhas(self.registry, " + KEY + ")), result is after('self.createfunc', dget(self.registry, " + KEY + ")))",
       "implies(after('self.createfunc', dhas(self.registry, " + KEY + ")), dget(self.registry, " + KEY + ") is after('self.createfunc', dget(self.registry, " + KEY + ")))",
       # every other scope is untouched by this call (relative to what the environment left when the factory returned)
       "forall(lambda q: implies(q is not " + KEY + ", dhas(self.registry, q) == after('self.createfunc', dhas(self.registry, q))"
       " and implies(dhas(self.registry, q), dget(self.registry, q) is after('self.createfunc', dget(self.registry, q)))))",
   ],
   ensures=["implies(old(dhas(self.registry, " + KEY + ")), result is old(dget(self.registry, " + KEY + ")))",
            "dhas(self.registry, " + KEY + ") and dget(self.registry, " + KEY + ") is result",
            "implies(old(dhas(self.registry, " + KEY + ")), keys(self.registry) == old(keys(self.registry)))"],
   # every other scope is untouched *by this call*: relative to what the environment left when the factory returned
   # concrete counterpart of the interference clauses: the harness' factory lets a competing thread's entry appear
   c_ensures=["implies(competing is not None, result is competing and dget(self.registry, " + KEY + ") is competing)"],
   modifies=["contents(self.registry)"], harness="registry.call")
fn(R + "has", cls="ScopedRegistry", props=["C52"], returns="bool",
   ensures=["result == dhas(self.registry, " + KEY + ")"], modifies=[], harness="registry.has")
fn(R + "set", cls="ScopedRegistry", props=["C52"], returns="none",
   ensures=["dhas(self.registry, " + KEY + ") and dget(self.registry, " + KEY + ") is obj", OTHERS_UNTOUCHED, KEYS_ORDER],
   modifies=["contents(self.registry)"], harness="registry.set")
fn(R + "clear", cls="ScopedRegistry", props=["C52"], returns="none",
   ensures=["not dhas(self.registry, " + KEY + ")", OTHERS_UNTOUCHED, KEYS_ORDER],
   modifies=["contents(self.registry)"], harness="registry.clear")
