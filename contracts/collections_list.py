"""C38 (part): orm/collections.py::_list_decorators — the instrumented list operations with an integer index
(append, remove, insert, __setitem__(int), __delitem__(int), pop).  DESIGN §5 C38, App. B.5.

view (items, ev): items = the list contents, ev = ghost log of fired collection events ('A', x) / ('R', x).
`fn` is the wrapped builtin list method.  Slice forms of __setitem__/__delitem__, extend, += and clear are covered by the
bounded complement (the slice arithmetic has several known defects, DESIGN §6 #3-#5).
"""
from pyvc.contract import fn, cls

cls("IList", isa="list", fields={"ev": "seqv"})
L = "orm/collections.py::_list_decorators."
K = {"NO_KEY": "sentinel", "slice": "class"}
# event firing helpers (assumed): they log the event; __set returns the item unchanged (no listener replaces the value)
fn("orm/collections.py::__set", abstract=True, params=["collection", "item", "_sa_initiator", "key"], types={"collection": "IList"},
   modifies=["collection.ev"], ensures=["collection.ev == old(collection.ev) + [pair('A', item)]", "result is item"],
   notes="fires the append event; assumed to return the item unchanged")
fn("orm/collections.py::__del", abstract=True, params=["collection", "item", "_sa_initiator", "key"], types={"collection": "IList"},
   modifies=["collection.ev"], ensures=["collection.ev == old(collection.ev) + [pair('R', item)]"], returns="none",
   notes="fires the remove event")
CAL = {"__set": "orm/collections.py::__set", "__del": "orm/collections.py::__del", "__before_pop": "noop"}
I = "contents(self)"
OI = "old(contents(self))"
EV = "self.ev"
OEV = "old(self.ev)"
T = {"self": "IList"}
M = ["contents(self)", "self.ev"]

fn(L + "append.append", props=["C38"], types=T, consts=K, callees=dict(CAL, fn="builtin:list:append"), returns="none",
   ensures=[f"{I} == {OI} + [item]", f"{EV} == {OEV} + [pair('A', item)]"], modifies=M, harness="ilist.append")
fn(L + "insert.insert", props=["C38"], types=dict(T, index="int"), consts=K, callees=dict(CAL, fn="builtin:list:insert"), returns="none",
   ensures=[f"{I} == {OI}[:index] + [value] + {OI}[index:]", f"{EV} == {OEV} + [pair('A', value)]"], modifies=M, harness="ilist.insert")
fn(L + "remove.remove", props=["C38"], types=T, consts=K, callees=dict(CAL, fn="builtin:list:remove"), returns="none",
   raises={"ValueError": "value not in self"},
   # like list.remove: a failed remove changes nothing and fires nothing
   exc_ensures={"ValueError": [f"{I} == {OI}", f"{EV} == {OEV}"]},
   ensures=[f"{I} == {OI}[:index({OI}, value)] + {OI}[index({OI}, value) + 1:]", f"{EV} == {OEV} + [pair('R', value)]"],
   modifies=M, harness="ilist.remove")
INR = "(-len(self) <= index and index < len(self))"
fn(L + "__setitem__.__setitem__", props=["C38"], types=dict(T, index="int", existing="v"), consts=K,
   callees=dict(CAL, fn="builtin:list:__setitem__"), returns="none",
   raises={"IndexError": f"not {INR}"},
   exc_ensures={"IndexError": [f"{I} == {OI}", f"{EV} == {OEV}"]},
   ensures=[f"len({I}) == len({OI}) and {I}[index] is value",
            f"all({I}[j] is {OI}[j] for j in range(len({OI})) if j != ite(index < 0, index + len({OI}), index))",
            f"{EV} == ite({OI}[index] is None, {OEV} + [pair('A', value)], {OEV} + [pair('R', {OI}[index])] + [pair('A', value)])"],
   modifies=M, harness="ilist.setitem", notes="integer index only (isinstance(index, slice) is False for an int)")
fn(L + "__delitem__.__delitem__", props=["C38"], types=dict(T, index="int", item="v"), consts=K,
   callees=dict(CAL, fn="builtin:list:__delitem__"), returns="none",
   raises={"IndexError": f"not {INR}"},
   exc_ensures={"IndexError": [f"{I} == {OI}", f"{EV} == {OEV}"]},
   ensures=[f"{I} == {OI}[:ite(index < 0, index + len({OI}), index)] + {OI}[ite(index < 0, index + len({OI}), index) + 1:]",
            f"{EV} == {OEV} + [pair('R', {OI}[index])]"],
   modifies=M, harness="ilist.delitem")
fn(L + "pop.pop", props=["C38"], types=dict(T, index="int"), consts=K, callees=dict(CAL, fn="builtin:list:pop"),
   raises={"IndexError": f"not {INR}"},
   exc_ensures={"IndexError": [f"{I} == {OI}", f"{EV} == {OEV}"]},
   ensures=[f"result is {OI}[index]",
            f"{I} == {OI}[:ite(index < 0, index + len({OI}), index)] + {OI}[ite(index < 0, index + len({OI}), index) + 1:]",
            f"{EV} == {OEV} + [pair('R', {OI}[index])]"],
   modifies=M, harness="ilist.pop")

# ---- loop-based list operations: extend / += (one append event per item, in order) and clear (one remove event per item)
from pyvc.contract import CLASSES as _C  # noqa: E402
_C["IList"].methods = dict(_C["IList"].methods or {}, append=L + "append.append")
fn(L + "extend.extend", props=["C38"], types=dict(T, iterable="list"), consts=K, callees=CAL, returns="none",
   invariant={0: [f"{I} == {OI} + prefix(old(contents(iterable)), _i)", f"{EV} == {OEV} + tagall('A', prefix(old(contents(iterable)), _i))"]},
   loop_modifies={0: M},
   ensures=[f"{I} == {OI} + old(contents(iterable))", f"{EV} == {OEV} + tagall('A', old(contents(iterable)))"], modifies=M)
fn(L + "__iadd__.__iadd__", props=["C38"], types=dict(T, iterable="list"), consts=K, callees=CAL,
   invariant={0: [f"{I} == {OI} + prefix(old(contents(iterable)), _i)", f"{EV} == {OEV} + tagall('A', prefix(old(contents(iterable)), _i))"]},
   loop_modifies={0: M},
   ensures=["result is self", f"{I} == {OI} + old(contents(iterable))", f"{EV} == {OEV} + tagall('A', old(contents(iterable)))"], modifies=M)
fn(L + "clear.clear", props=["C38"], types=dict(T, index="int"), consts=K, callees=dict(CAL, fn="builtin:list:clear"), returns="none",
   invariant={0: [f"{I} == {OI}", f"{EV} == {OEV} + tagall('R', prefix({OI}, _i))"]},
   loop_modifies={0: ["self.ev"]},
   ensures=[f"len({I}) == 0", f"{EV} == {OEV} + tagall('R', {OI})"], modifies=M)
