"""C36 (part): orm/attributes.py::_ScalarAttributeImpl.set / delete — a scalar assignment or deletion records the value that
was there BEFORE the first change since the last flush, and only that.

set():     the instance dict holds the new value (as returned by the `set` listeners); committed_state[key] is the old value if
           this is the first change, else what it already was; no other attribute's committed value is touched.
delete():  the attribute leaves the instance dict; committed_state likewise; deleting what is not there raises AttributeError
           (unless the attribute is expired).
`InstanceState._modified_event` is used through a summary contract (first write wins, every other key untouched) — the clauses
its own proof establishes in the thorough tier (contracts/state_modified.py, variant "all").  DESIGN §5 C36.
"""
from pyvc.contract import fn, cls

A = "orm/attributes.py::_ScalarAttributeImpl."
cls("DispS", fields={"_active_history": "bool", "set": "v", "remove": "v"})
cls("ScalarImpl", fields={"key": "v", "dispatch": "DispS", "send_modified_events": "bool", "_replace_token": "v", "_remove_token": "v"},
    methods={"fire_replace_event": A + "fire_replace_event@ghost", "fire_remove_event": A + "fire_remove_event@ghost", "get": A + "get@ghost"})
cls("IStateS", fields={"committed_state": "dict", "expired": "bool", "expired_attributes": "set"},
    methods={"_modified_event": "orm/state.py::InstanceState._modified_event@c36"})
CS = "state.committed_state"
fn("orm/state.py::InstanceState._modified_event@c36", abstract=True, cls="IStateS", params=["self", "dict_", "attr", "previous"],
   types={"attr": "ScalarImpl", "dict_": "dict"}, returns="none", modifies=["contents(self.committed_state)"],
   ensures=["implies(attr.send_modified_events and not old(dhas(self.committed_state, attr.key)), dhas(self.committed_state, attr.key) and dget(self.committed_state, attr.key) is previous)",
            "implies(old(dhas(self.committed_state, attr.key)), dhas(self.committed_state, attr.key) and dget(self.committed_state, attr.key) is old(dget(self.committed_state, attr.key)))",
            "implies(not attr.send_modified_events, dhas(self.committed_state, attr.key) == old(dhas(self.committed_state, attr.key)))",
            "forall(lambda q: implies(q is not attr.key, dhas(self.committed_state, q) == old(dhas(self.committed_state, q)) and "
            "implies(dhas(self.committed_state, q), dget(self.committed_state, q) is old(dget(self.committed_state, q)))))"],
   notes="summary of InstanceState._modified_event for a scalar attribute: proved by its own contract (thorough tier, variant 'all')")
fn(A + "fire_replace_event@ghost", abstract=True, cls="ScalarImpl", params=["self", "state", "dict_", "value", "previous", "initiator"], returns="v",
   modifies=[], may_raise={"Exception": "True"}, notes="`set` listeners (retval): may replace the value, may raise; assumed not to touch the state")
fn(A + "fire_remove_event@ghost", abstract=True, cls="ScalarImpl", params=["self", "state", "dict_", "value", "initiator"], returns="none",
   modifies=[], may_raise={"Exception": "True"})
fn(A + "get@ghost", abstract=True, cls="ScalarImpl", params=["self", "state", "dict_", "passive"], returns="v", modifies=[], may_raise={"Exception": "True"},
   notes="AttributeImpl.get with PASSIVE_RETURN_NO_VALUE: the loaded value or NO_VALUE; loading is outside")

K = {"DONT_SET": "sentinel", "NO_VALUE": "sentinel", "PASSIVE_RETURN_NO_VALUE": "sentinel", "PASSIVE_OFF": "sentinel"}
T = {"state": "IStateS", "dict_": "dict", "value": "v", "initiator": "v", "passive": "v", "check_old": "v", "pop": "bool", "old": "v", "existing": "v"}
OTHERS = ("forall(lambda q: implies(q is not self.key, dhas(" + CS + ", q) == old(dhas(" + CS + ", q)) and "
          "implies(dhas(" + CS + ", q), dget(" + CS + ", q) is old(dget(" + CS + ", q)))))")
FIRST = "implies(old(dhas(" + CS + ", self.key)), dhas(" + CS + ", self.key) and dget(" + CS + ", self.key) is old(dget(" + CS + ", self.key)))"
fn(A + "set", cls="ScalarImpl", props=["C36"], types=T, consts=K, returns="none",
   requires=["dict_ is not state.committed_state"],
   ensures=["implies(value is DONT_SET, dhas(dict_, self.key) == old(dhas(dict_, self.key)) and " + "dhas(" + CS + ", self.key) == old(dhas(" + CS + ", self.key)))",
            "implies(value is not DONT_SET, dhas(dict_, self.key))",
            # without `set` listeners the stored value is the assigned one
            "implies(value is not DONT_SET and not truth(self.dispatch.set), dget(dict_, self.key) is value)",
            # first change since the last flush: the previous in-memory value (or NO_VALUE) is remembered
            "implies(value is not DONT_SET and self.send_modified_events and not self.dispatch._active_history and not old(dhas(" + CS + ", self.key)), "
            "dhas(" + CS + ", self.key) and dget(" + CS + ", self.key) is ite(old(dhas(dict_, self.key)), old(dget(dict_, self.key)), NO_VALUE))",
            FIRST, OTHERS,
            "forall(lambda q: implies(q is not self.key, dhas(dict_, q) == old(dhas(dict_, q)) and implies(dhas(dict_, q), dget(dict_, q) is old(dget(dict_, q)))))"],
   may_raise={"Exception": "True"},
   # a failing listener leaves both the instance dict and the committed state as they were
   exc_ensures={"Exception": ["dhas(dict_, self.key) == old(dhas(dict_, self.key))", FIRST, OTHERS]},
   modifies=["contents(dict_)", "contents(state.committed_state)"])

fn(A + "delete", cls="ScalarImpl", props=["C36"], types=T, consts=K, returns="none",
   requires=["dict_ is not state.committed_state"],
   raises={"AttributeError": "not self.dispatch._active_history and not truth(self.dispatch.remove) and not dhas(dict_, self.key) and not state.expired "
                             "and self.key not in state.expired_attributes"},
   may_raise={"Exception": "True", "AttributeError": "True"},
   ensures=["not dhas(dict_, self.key)",
            "implies(self.send_modified_events and not self.dispatch._active_history and not old(dhas(" + CS + ", self.key)), "
            "dhas(" + CS + ", self.key) and dget(" + CS + ", self.key) is ite(old(dhas(dict_, self.key)), old(dget(dict_, self.key)), NO_VALUE))",
            FIRST, OTHERS,
            "forall(lambda q: implies(q is not self.key, dhas(dict_, q) == old(dhas(dict_, q)) and implies(dhas(dict_, q), dget(dict_, q) is old(dget(dict_, q)))))"],
   exc_ensures={"BaseException": [FIRST, OTHERS]},
   modifies=["contents(dict_)", "contents(state.committed_state)"])
