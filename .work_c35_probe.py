import json, collections, sys
sys.path.insert(0, "/verif")
import checks.C35_bounded as m
from rtc import ormharness as H
tier = sys.argv[1] if len(sys.argv) > 1 else "quick"
l1, l2 = m.scope_for(tier)
jl = []
for start in ("transient", "persistent"):
    jl += H.jobs(len(m.OPS1), l1, min_jobs=100, nobj=1, start=start) + H.jobs(len(m.OPS2), l2, min_jobs=100, nobj=2, start=start)
agg = H.Agg()
for r in H.run_sharded(m._worker, jl): agg.add(r)
cls = collections.Counter(); first = {}
for d in agg["failures"]:
    key = (d["last_op"].split("(")[0], str(d["before"]), str(d["after"]), tuple(d["events"]), d["raised"])
    cls[key] += 1
    if key not in first or len(d["ops"]) < len(first[key]["ops"]): first[key] = d
for k, v in sorted(cls.items(), key=str):
    print(v, k, first[k]["start"], first[k]["ops"], first[k]["object"])
print("transitions:")
for t in sorted(agg["transitions"], key=str): print("  ", t)
