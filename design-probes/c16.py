import itertools, collections, warnings
warnings.simplefilter("ignore")
from sqlalchemy import *
from sqlalchemy.schema import CreateTable, DropTable, CreateIndex
from sqlalchemy.dialects import sqlite, postgresql, mysql, mssql, oracle
def build(s1, s2):
    m = MetaData()
    a = Table("a", m, Column("id", Integer, primary_key=True), Column("x", Integer), schema=s1)
    b = Table("b", m, Column("id", Integer, primary_key=True), Column("a_id", ForeignKey(a.c.id)), schema=s2)
    ix = Index("ix_b", b.c.a_id)
    return m, a, b, ix
def stmts(a, b, ix):
    return {"select": select(a.c.x, b.c.id).join(b, a.c.id == b.c.a_id).where(a.c.x > 1), "insert": insert(a).values(x=1), "update": update(b).values(a_id=select(a.c.id).scalar_subquery()),
            "delete": delete(a).where(a.c.id.in_(select(b.c.a_id))), "create_a": CreateTable(a), "create_b": CreateTable(b), "drop": DropTable(b), "index": CreateIndex(ix), "cte": select(select(a.c.id).cte("c"))}
schemas = [None, "s1", "S 2", 'q"x']
targets = ["t1", "T 2"]
D = {"sqlite": sqlite.dialect(), "pg": postgresql.dialect(), "mysql": mysql.dialect(), "mssql": mssql.dialect(), "oracle": oracle.dialect()}
bad = collections.Counter(); first = {}; n = 0
for s1, s2 in itertools.product(schemas, repeat=2):
    m, a, b, ix = build(s1, s2)
    keys = sorted({s1, s2}, key=str)
    for tvals in itertools.product(targets, repeat=len(keys)):
        stm = dict(zip(keys, tvals))
        # reference: same construct with the schemas replaced
        m2, a2, b2, ix2 = build(stm.get(s1, s1) if s1 in stm else s1, stm.get(s2, s2) if s2 in stm else s2)
        for dn, d in D.items():
            st1 = stmts(a, b, ix); st2 = stmts(a2, b2, ix2)
            for name in st1:
                n += 1
                try:
                    c = st1[name].compile(dialect=d, schema_translate_map=stm)
                    got = c.string if not c.schema_translate_map else c.preparer._render_schema_translates(c.string, dict(stm))
                except Exception as e: got = ("EXC", type(e).__name__, str(e)[:60])
                try: exp = st2[name].compile(dialect=d).string
                except Exception as e: exp = ("EXC", type(e).__name__, str(e)[:60])
                if got != exp:
                    key = (name, dn, (s1, s2), tuple(stm.items())) ; cls = (name if isinstance(got, tuple) else "text", isinstance(got, tuple) and got[1]); bad[cls] += 1; first.setdefault(cls, (key, got, exp))
print("checked", n, "mismatches", sum(bad.values()))
for k, v in first.items(): print(k, bad[k], v)
