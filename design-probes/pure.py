import importlib.util, sys
def load_pure(modname):
    """load the .py of a *_cy module under an alias, even while the .so shadows it"""
    pkg, _, leaf = modname.rpartition(".")
    path = "/repo/lib/" + modname.replace(".", "/") + ".py"
    alias = pkg + "._pure_" + leaf
    spec = importlib.util.spec_from_file_location(alias, path)
    m = importlib.util.module_from_spec(spec); sys.modules[alias] = m; spec.loader.exec_module(m)
    assert not m._is_compiled()
    return m
