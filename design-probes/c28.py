import itertools, collections, warnings
warnings.simplefilter("ignore")
from sqlalchemy import event
def fresh():
    class TargetEvents(event.Events):
        def ev(self, x): pass
    class A:
        dispatch = event.dispatcher(TargetEvents)
        def __init__(self): self.dispatch = self.dispatch._for_instance(self) if hasattr(self.dispatch, "_for_instance") else self.dispatch._for_class(type(self))
    return TargetEvents, A
# operations: (kind, target, fn, insert, once)
targets = ["A", "B", "C", "a1", "c1"]          # B(A), C(B); a1 instance of A, c1 instance of C
fns = ["f", "g"]
ops = [("listen", t, f, ins, once) for t in targets for f in fns for ins in (False, True) for once in (False,)] + \
      [("listen", t, "f", False, True) for t in ("A", "c1")] + \
      [("remove", t, f) for t in targets for f in fns] + [("mkB",), ("mkC",), ("fire", "a1"), ("fire", "c1"), ("fire", "b_new")]
bad = collections.Counter(); first = {}; n = 0
def run(seq):
    global n
    TE, A = fresh(); env = {"A": A}; calls = []
    F = {name: (lambda name: (lambda x: calls.append(name)))(name) for name in fns}
    def cls(name):
        if name in env: return env[name]
        if name == "B": env["B"] = type("B", (cls("A"),), {})
        elif name == "C": env["C"] = type("C", (cls("B"),), {})
        elif name == "a1": env["a1"] = cls("A")()
        elif name == "c1": env["c1"] = cls("C")()
        return env[name]
    # model: ordered registrations per target; once flags; a class-level registration applies to the class and all subclasses; instance-level to the instance
    reg = []     # list of [target, fn, insert, once, alive]
    parents = {"A": [], "B": ["A"], "C": ["B", "A"], "a1": ["A"], "c1": ["C", "B", "A"], "b_new": ["B", "A"]}
    def expected(tname):
        chain = [tname] + parents[tname]
        clsl = []; inst = []
        for r in reg:
            if not r[4]: continue
            if r[0] in chain:
                lst = inst if r[0] in ("a1", "c1") else clsl
                if r[2]: lst.insert(0, r)
                else: lst.append(r)
        return clsl + inst
    for op in seq:
        n += 1
        try:
            if op[0] == "mkB": cls("B")
            elif op[0] == "mkC": cls("C")
            elif op[0] == "listen":
                _, t, f, ins, once = op
                dup = any(r[0] == t and r[1] == f and r[4] for r in reg)
                event.listen(cls(t), "ev", F[f], insert=ins, once=once)
                if not dup: reg.append([t, f, ins, once, True])
            elif op[0] == "remove":
                _, t, f = op
                hit = [r for r in reg if r[0] == t and r[1] == f and r[4] and not r[3]]
                try:
                    event.remove(cls(t), "ev", F[f]); ok = True
                except Exception as e: ok = False
                if hit and ok: hit[0][4] = False
                elif bool(hit) != ok: bad[("remove-outcome", bool(hit), ok)] += 1; first.setdefault(("remove-outcome", bool(hit), ok), (seq, op))
            elif op[0] == "fire":
                tn = op[1]
                obj = cls("B")() if tn == "b_new" else cls(tn)
                del calls[:]; exp_regs = expected(tn)
                obj.dispatch.ev(1)
                exp = [r[1] for r in exp_regs]
                for r in exp_regs:
                    if r[3]: r[4] = False      # once listeners disappear after first call
                if calls != exp:
                    key = ("fire", tn, tuple(sorted(collections.Counter(calls).items())) == tuple(sorted(collections.Counter(exp).items())) and "order" or "membership"); bad[key] += 1; first.setdefault(key, (seq, calls[:], exp))
        except Exception as e:
            key = ("exc", op[0], type(e).__name__); bad[key] += 1; first.setdefault(key, (seq, str(e)[:80]))
import random
random.seed(1)
allseq = list(itertools.product(range(len(ops)), repeat=3))
random.shuffle(allseq)
for idx in allseq[:1500]:
    run([ops[i] for i in idx] + [("fire", "a1"), ("fire", "c1"), ("fire", "b_new")])
print("ops", n, "problems", dict(bad))
for k, v in first.items(): print(k, v)
