import itertools, collections, pickle, copy
from sqlalchemy import *
from sqlalchemy.dialects import sqlite, postgresql, mysql, mssql, oracle
m = MetaData()
a = Table("a", m, Column("id", Integer, primary_key=True), Column("x", Integer), Column("s", String))
b = Table("b", m, Column("id", Integer, primary_key=True), Column("a_id", ForeignKey("a.id")), Column("x", Integer))
dialects = [None, sqlite.dialect(), postgresql.dialect(), mysql.dialect(), mssql.dialect(), oracle.dialect()]
def snap(s):
    out = []
    for d in dialects:
        try:
            c = s.compile(dialect=d); out.append((str(c), tuple(sorted((k, repr(v)) for k, v in c.params.items()))))
        except Exception as e: out.append(("EXC", type(e).__name__))
    try: out.append(("key", s._generate_cache_key().key if s._generate_cache_key() else None))
    except Exception as e: out.append(("keyexc", type(e).__name__))
    return out
sel_methods = {
 "where": lambda s: s.where(a.c.x > 5), "where2": lambda s: s.where(a.c.s == "q"), "join": lambda s: s.join(b, a.c.id == b.c.a_id), "outerjoin": lambda s: s.outerjoin(b),
 "order_by": lambda s: s.order_by(a.c.x.desc()), "order_by_none": lambda s: s.order_by(None), "group_by": lambda s: s.group_by(a.c.x), "having": lambda s: s.having(func.count(a.c.id) > 1),
 "limit": lambda s: s.limit(5), "offset": lambda s: s.offset(2), "fetch": lambda s: s.fetch(3), "distinct": lambda s: s.distinct(), "with_only_columns": lambda s: s.with_only_columns(a.c.id),
 "add_columns": lambda s: s.add_columns(b.c.x), "select_from": lambda s: s.select_from(a), "correlate": lambda s: s.correlate(b), "prefix_with": lambda s: s.prefix_with("/*p*/"),
 "suffix_with": lambda s: s.suffix_with("/*s*/"), "with_for_update": lambda s: s.with_for_update(), "execution_options": lambda s: s.execution_options(foo=1), "with_hint": lambda s: s.with_hint(a, "HINT"),
 "filter_by": lambda s: s.filter_by(x=3), "set_label_style": lambda s: s.set_label_style(LABEL_STYLE_TABLENAME_PLUS_COL), "slice": lambda s: s.slice(1, 3), "with_statement_hint": lambda s: s.with_statement_hint("sh"),
 "reduce_columns": lambda s: s.reduce_columns(), "params?": lambda s: s.where(a.c.x == bindparam("p", 3)),
}
ins_methods = {"values": lambda s: s.values(x=1), "values2": lambda s: s.values(s="z"), "returning": lambda s: s.returning(a.c.id), "prefix_with": lambda s: s.prefix_with("/*p*/"), "from_select": lambda s: s.from_select(["x"], select(b.c.x)),
               "inline": lambda s: s.inline(), "return_defaults": lambda s: s.return_defaults(), "execution_options": lambda s: s.execution_options(foo=1), "with_hint": lambda s: s.with_hint("H")}
upd_methods = {"where": lambda s: s.where(a.c.x > 5), "values": lambda s: s.values(x=1), "values2": lambda s: s.values(s="z"), "returning": lambda s: s.returning(a.c.id), "ordered_values": lambda s: s.ordered_values((a.c.x, 1)),
               "prefix_with": lambda s: s.prefix_with("/*p*/"), "execution_options": lambda s: s.execution_options(foo=1), "return_defaults": lambda s: s.return_defaults()}
del_methods = {"where": lambda s: s.where(a.c.x > 5), "returning": lambda s: s.returning(a.c.id), "prefix_with": lambda s: s.prefix_with("/*p*/"), "where2": lambda s: s.where(a.c.id.in_(select(b.c.a_id)))}
bad = collections.Counter(); first = {}; n = 0
for label, base, meths in (("select", select(a), sel_methods), ("select2", select(a.c.id, b.c.x).join_from(a, b), sel_methods), ("insert", insert(a), ins_methods), ("update", update(a), upd_methods), ("delete", delete(a), del_methods)):
    for seq in itertools.chain(itertools.product(meths, repeat=1), itertools.product(meths, repeat=2), itertools.product(list(meths)[:12], repeat=3)):
        chain = [base]; snaps = [snap(base)]; ok = True
        for name in seq:
            try: nxt = meths[name](chain[-1])
            except Exception as e: break
            n += 1
            if nxt is chain[-1]: bad[(label, name, "returned self")] += 1; first.setdefault((label, name, "returned self"), seq)
            chain.append(nxt); snaps.append(snap(nxt))
            for k, (st, sn) in enumerate(zip(chain[:-1], snaps[:-1])):
                if snap(st) != sn:
                    key = (label, name, "ancestor changed"); bad[key] += 1; first.setdefault(key, (seq, k)); ok = False
        # determinism / copy / pickle on the last one
        last = chain[-1]
        if snap(last) != snaps[-1]: bad[(label, "recompile")] += 1; first.setdefault((label, "recompile"), seq)
        for how, f in (("copy", copy.copy), ("pickle", lambda s: pickle.loads(pickle.dumps(s)))):
            try: c2 = f(last)
            except Exception as e: bad[(label, how, type(e).__name__)] += 1; first.setdefault((label, how, type(e).__name__), seq); continue
            if snap(c2)[:-1] != snaps[-1][:-1]: bad[(label, how, "differs")] += 1; first.setdefault((label, how, "differs"), seq)
print("generative calls", n, "issues", dict(bad))
for k, v in first.items(): print(k, v)
