# hand-written VC feasibility probe for sort_as_subsets (NOT framework code)
from z3 import *
import time
N = DeclareSort('Node')
SeqN = SeqSort(N)
SetN = ArraySort(N, BoolSort())
edge = Function('edge', N, N, BoolSort())       # edge(parent, child) from tuples
allitems = Const('allitems', SeqN)
def distinct_seq(s):
    i,j = Ints('i j')
    return ForAll([i,j], Implies(And(0<=i, i<j, j<Length(s)), s[i]!=s[j]))
def mem(s, x):
    return Contains(s, Unit(x))
x,y,p,c = Consts('x y p c', N)
inA = lambda v: mem(allitems, v)

# state at loop head
todo = Const('todo', SeqN); todo_set = Const('todo_set', SetN)
emitted = Const('emitted', SetN); rank = Function('rank', N, IntSort()); rnd = Int('rnd')
def ready(ts, v):  # todo_set.isdisjoint(edges[v])  where edges[v] = {p | edge(p,v)}
    q = Const('q', N)
    return ForAll([q], Implies(edge(q, v), Not(ts[q])))
def Inv(todo, todo_set, emitted, rank, rnd):
    return And(
        distinct_seq(todo),
        ForAll([x], todo_set[x] == mem(todo, x)),
        ForAll([x], inA(x) == Xor(emitted[x], todo_set[x])),
        ForAll([x], Not(And(emitted[x], todo_set[x]))),
        ForAll([x], Implies(emitted[x], And(0 <= rank(x), rank(x) < rnd))),
        ForAll([p,c], Implies(And(edge(p,c), inA(p), emitted[c]), And(emitted[p], rank(p) < rank(c)))),
        rnd >= 0)
# inner loop result: output = [n for n in todo if ready(n)] characterized
output = Const('output', SeqN)
idx = Function('idx', IntSort(), IntSort())  # ghost: output[k] = todo[idx(k)]
k,k2 = Ints('k k2')
filt = And(
    ForAll([k], Implies(And(0<=k, k<Length(output)), And(0<=idx(k), idx(k)<Length(todo), output[k]==todo[idx(k)], ready(todo_set, output[k])))),
    ForAll([k,k2], Implies(And(0<=k, k<k2, k2<Length(output)), idx(k)<idx(k2))),
    ForAll([k], Implies(And(0<=k, k<Length(todo), ready(todo_set, todo[k])), mem(output, todo[k]))))
# after: todo_set' = todo_set - output ; todo' = [t for t in todo if t in todo_set']
todo2 = Const('todo2', SeqN); todo_set2 = Const('todo_set2', SetN); emitted2 = Const('emitted2', SetN)
rank2 = Function('rank2', N, IntSort())
idx2 = Function('idx2', IntSort(), IntSort())
step = And(
    ForAll([x], todo_set2[x] == And(todo_set[x], Not(mem(output, x)))),
    ForAll([k], Implies(And(0<=k, k<Length(todo2)), And(0<=idx2(k), idx2(k)<Length(todo), todo2[k]==todo[idx2(k)], todo_set2[todo2[k]]))),
    ForAll([k,k2], Implies(And(0<=k, k<k2, k2<Length(todo2)), idx2(k)<idx2(k2))),
    ForAll([k], Implies(And(0<=k, k<Length(todo), todo_set2[todo[k]]), mem(todo2, todo[k]))),
    ForAll([x], emitted2[x] == Or(emitted[x], mem(output, x))),
    ForAll([x], rank2(x) == If(mem(output, x), rnd, rank(x))))
def prove(name, hyp, goal, timeout=60000):
    s = Solver(); s.set('timeout', timeout)
    s.add(hyp); s.add(Not(goal))
    t=time.time(); r = s.check(); print(name, r, '%.2fs'%(time.time()-t))
hyp = [distinct_seq(allitems), Inv(todo,todo_set,emitted,rank,rnd), filt, Length(output)>0, step]
goals = Inv(todo2, todo_set2, emitted2, rank2, rnd+1)
for i,g in enumerate(goals.children()):
    prove('preserve[%d]'%i, hyp, g)
# progress: |todo2| < |todo|  (termination)
prove('progress', hyp, Length(todo2) < Length(todo))
