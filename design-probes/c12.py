import itertools, collections, warnings, random, uuid
warnings.simplefilter("ignore")
from sqlalchemy import *
from sqlalchemy import event
def mk(style):
    m = MetaData()
    if style == "autoinc": t = Table("t", m, Column("id", Integer, primary_key=True), Column("x", Integer), Column("d", Integer, default=5))
    elif style == "uuid": t = Table("t", m, Column("id", Uuid, primary_key=True, default=uuid.uuid4), Column("x", Integer), Column("d", Integer, default=5))
    elif style == "sentinel": t = Table("t", m, Column("id", Integer, primary_key=True, autoincrement=False), Column("x", Integer), Column("d", Integer, default=5), insert_sentinel("sn"))
    elif style == "explicit_pk": t = Table("t", m, Column("id", Integer, primary_key=True, autoincrement=False), Column("x", Integer), Column("d", Integer, default=5))
    return m, t
bad = collections.Counter(); first = {}; n = 0
for style in ("autoinc", "uuid", "sentinel", "explicit_pk"):
    for page in (1, 2, 3, 5, 100):
        for rows in range(0, 8):
            for sort in (True, False):
                for shuffle in (False, True):
                    e = create_engine("sqlite://", insertmanyvalues_page_size=page)
                    m, t = mk(style); m.create_all(e)
                    batches = []
                    if shuffle:
                        # reverse the RETURNING rows of every batch at the cursor level (backend returning rows out of order)
                        @event.listens_for(e, "do_execute")
                        def _de(cursor, statement, parameters, context):
                            return None
                        orig = e.dialect.__class__.__dict__.get("x")
                        import types
                        ctxcls = e.dialect.execution_ctx_cls
                        def fetchall_for_returning(self, cursor, _o=ctxcls.fetchall_for_returning):
                            r = list(_o(self, cursor)); r.reverse(); return r
                        e.dialect.execution_ctx_cls = type("Ctx", (ctxcls,), {"fetchall_for_returning": fetchall_for_returning})
                    params = [({"id": 100 + i} if style in ("explicit_pk", "sentinel") else {}) | {"x": i * 10} for i in range(rows)]
                    if rows == 0: continue
                    n += 1
                    with e.begin() as c:
                        try:
                            res = c.execute(insert(t).returning(t.c.id, t.c.x, sort_by_parameter_order=sort), params)
                            got = res.all()
                        except Exception as ex:
                            key = (style, "exc", type(ex).__name__); bad[key] += 1; first.setdefault(key, (page, rows, sort, shuffle, str(ex)[:100])); continue
                        stored = c.execute(select(t.c.id, t.c.x, t.c.d).order_by(t.c.x)).all()
                    if len(stored) != rows or [r[1] for r in stored] != [p["x"] for p in params] or any(r[2] != 5 for r in stored):
                        key = (style, "stored"); bad[key] += 1; first.setdefault(key, (page, rows, sort, shuffle, stored))
                    if len(got) != rows: key = (style, "count"); bad[key] += 1; first.setdefault(key, (page, rows, sort, shuffle, got))
                    if sort and [r[1] for r in got] != [p["x"] for p in params]:
                        key = (style, "order", "shuffle" if shuffle else "plain"); bad[key] += 1; first.setdefault(key, (page, rows, sort, shuffle, got))
                    if sorted(got) != sorted((r[0], r[1]) for r in stored):
                        key = (style, "returned!=stored"); bad[key] += 1; first.setdefault(key, (page, rows, sort, shuffle, got, stored))
print("executions", n, "problems", dict(bad))
for k, v in first.items(): print(k, v)
