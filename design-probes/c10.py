import itertools, collections
from sqlalchemy import create_engine, text, exc
from sqlalchemy.engine.result import IteratorResult, SimpleResultMetaData
rowsets = [[], [(1, 'a')], [(1, 'a'), (2, 'b')], [(1, 'a'), (1, 'a'), (2, 'b')], [(1, 'a'), (2, 'b'), (1, 'a'), (3, 'c')]]
e = create_engine("sqlite://")
def make(kind, rows):
    if kind == "iter":
        return IteratorResult(SimpleResultMetaData(["x", "y"]), iter(list(rows)))
    conn = e.connect()
    if not rows:
        sql = "select 1 as x, 'a' as y where 0"
    else:
        sql = " union all ".join(f"select {a} as x, '{b}' as y" for a, b in rows)
    opts = {"buffered": {}, "stream": {"stream_results": True, "max_row_buffer": 2}, "yield2": {"yield_per": 2}}[kind]
    return conn.execution_options(**opts).execute(text(sql))
# model: remaining list; ops return (model_result, new_remaining, closed?)
class Exh(Exception): pass
def m_fetchone(rem): return (rem[0] if rem else None), rem[1:]
def m_fetchmany(n):
    def f(rem):
        k = len(rem) if n is None else n
        return rem[:k], rem[k:]
    return f
def m_all(rem): return list(rem), []
def m_first(rem): return (rem[0] if rem else None), []
def m_one(rem):
    if len(rem) == 0: raise exc.NoResultFound()
    if len(rem) > 1: raise exc.MultipleResultsFound()
    return rem[0], []
def m_one_or_none(rem):
    if len(rem) > 1: raise exc.MultipleResultsFound()
    return (rem[0] if rem else None), []
def m_scalar(rem): return (rem[0][0] if rem else None), []
def m_next(rem):
    if not rem: raise StopIteration()
    return rem[0], rem[1:]
def m_part2(rem): return [rem[i:i+2] for i in range(0, len(rem), 2)], []
ops = {
 "fetchone": (lambda r: r.fetchone(), m_fetchone), "fetchmany(1)": (lambda r: r.fetchmany(1), m_fetchmany(1)), "fetchmany(2)": (lambda r: r.fetchmany(2), m_fetchmany(2)),
 "fetchmany(0)": (lambda r: r.fetchmany(0), m_fetchmany(0)),
 "fetchall": (lambda r: r.fetchall(), m_all), "all": (lambda r: r.all(), m_all), "first": (lambda r: r.first(), m_first), "one": (lambda r: r.one(), m_one),
 "one_or_none": (lambda r: r.one_or_none(), m_one_or_none), "scalar": (lambda r: r.scalar(), m_scalar), "next": (lambda r: next(r), m_next),
 "partitions(2)": (lambda r: [list(p) for p in r.partitions(2)], m_part2), "list(iter)": (lambda r: list(r), m_all),
}
def norm(v):
    if v is None: return None
    if isinstance(v, list): return [norm(x) for x in v]
    try: return tuple(v)
    except TypeError: return v
bad = collections.Counter(); first = {}; n = 0
for kind in ("iter", "buffered", "stream", "yield2"):
    for rows in rowsets:
        for L in (1, 2, 3):
            for seq in itertools.product(ops, repeat=L):
                r = make(kind, rows); rem = list(rows); closed = False; trace = []
                for name in seq:
                    f, mf = ops[name]
                    if name == "fetchmany(0)" and kind != "iter": break   # driver-defined (sqlite3 returns all rows)
                    if closed:
                        try: got = ("ok", norm(f(r)))
                        except Exception as ex: got = ("exc", type(ex).__name__)
                        n += 1
                        if got != ("exc", "ResourceClosedError"):
                            key = (kind, name, "after-close", str(got)); bad[key] += 1; first.setdefault(key, (rows, trace[:]))
                        break
                    try: exp = ("ok",) + tuple([norm(mf(rem)[0])]); newrem = mf(rem)[1]
                    except Exception as ex: exp = ("exc", type(ex).__name__); newrem = [] if not isinstance(ex, StopIteration) else rem
                    try: got = ("ok", norm(f(r)))
                    except Exception as ex: got = ("exc", type(ex).__name__)
                    trace.append((name, got, exp))
                    n += 1
                    if got != exp:
                        key = (kind, name, got[0], exp[0], got[1] if got[0] == "exc" else "value"); bad[key] += 1; first.setdefault(key, (rows, trace[:])); break
                    rem = newrem
                    if name in ('first', 'one', 'one_or_none', 'scalar'): closed = True
                try: r.close()
                except Exception: pass
print("calls checked", n, "divergences", sum(bad.values()))
for k, v in sorted(first.items(), key=str)[:25]: print(k, bad[k], v)
