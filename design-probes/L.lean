import Mathlib.Data.List.Basic
import Mathlib.Data.Finset.Card
theorem filter_lt {α} (p : α → Bool) (l : List α) (x : α) (hx : x ∈ l) (hp : p x = false) :
    (l.filter p).length < l.length := by
  exact List.length_filter_lt_length_iff_exists.mpr ⟨x, hx, by simp [hp]⟩
