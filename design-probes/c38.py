import itertools, collections, copy
from sqlalchemy import Column, Integer, ForeignKey, event
from sqlalchemy.orm import declarative_base, relationship
from sqlalchemy.orm.collections import attribute_keyed_dict
Base = declarative_base()
class P(Base):
    __tablename__='p'; id=Column(Integer, primary_key=True)
    clist = relationship("C")
    cset = relationship("D", collection_class=set)
class C(Base):
    __tablename__='c'; id=Column(Integer, primary_key=True); pid=Column(ForeignKey('p.id'))
    def __repr__(s): return f"c{s.id}"
class D(Base):
    __tablename__='d'; id=Column(Integer, primary_key=True); pid=Column(ForeignKey('p.id'))
    def __repr__(s): return f"d{s.id}"
log=[]
for attr in (P.clist, P.cset):
    event.listen(attr, "remove", lambda t,v,i: log.append(("R", v)))
    event.listen(attr, "append", lambda t,v,i: log.append(("A", v)))
    event.listen(attr, "bulk_replace", lambda t,v,i: None)
pool = [C(id=i) for i in range(6)]
def run(op, n):
    p = P(); p.clist = pool[:n]; model = pool[:n]
    del log[:]
    try: r1 = op(p.clist); e1 = None
    except Exception as e: r1 = None; e1 = type(e).__name__
    try: r2 = op(model); e2 = None
    except Exception as e: r2 = None; e2 = type(e).__name__
    old = pool[:n]
    # expected events: multiset difference by identity
    removed = [x for x in old if not any(x is y for y in model)]
    added = [x for x in model if not any(x is y for y in old)]
    evR = sorted(id(v) for k,v in log if k=="R"); evA = sorted(id(v) for k,v in log if k=="A")
    okc = [id(x) for x in p.clist] == [id(x) for x in model]
    okr = (r1 is r2) or (r1 == r2) or (r1 is p.clist and r2 is model)
    oke = e1 == e2
    okev = (e2 is not None and not log) or (e2 is None and evR == sorted(map(id, removed)) and evA == sorted(map(id, added)))
    return okc, okr, oke, okev, (list(p.clist), model, e1, e2, list(log))
fails = collections.defaultdict(list); total = 0
vals = [None] + list(range(-6, 7))
new = [pool[4], pool[5]]
ops = []
for a in vals:
    for b in vals:
        for c in [None, -2, -1, 1, 2, 0]:
            for k in (0, 1, 2):
                ops.append((f"l[{a}:{b}:{c}]=new[:{k}]", lambda l, a=a, b=b, c=c, k=k: l.__setitem__(slice(a, b, c), new[:k])))
            ops.append((f"del l[{a}:{b}:{c}]", lambda l, a=a, b=b, c=c: l.__delitem__(slice(a, b, c))))
for i in range(-6, 7):
    ops += [(f"l[{i}]=x", lambda l, i=i: l.__setitem__(i, new[0])), (f"del l[{i}]", lambda l, i=i: l.__delitem__(i)), (f"l.pop({i})", lambda l, i=i: l.pop(i)), (f"l.insert({i},x)", lambda l, i=i: l.insert(i, new[0]))]
ops += [("l.remove(absent)", lambda l: l.remove(new[1])), ("l.remove(present)", lambda l: l.remove(pool[0])), ("l.pop()", lambda l: l.pop()), ("l.clear()", lambda l: l.clear()),
        ("l.extend(new)", lambda l: l.extend(new)), ("l+=new", lambda l: l.__iadd__(new)), ("l*=2", lambda l: l.__imul__(2)), ("l.reverse()", lambda l: l.reverse()), ("l.sort(key=id)", lambda l: l.sort(key=lambda x: -x.id)),
        ("l.append(x)", lambda l: l.append(new[0])), ("l.append(dup)", lambda l: l.append(pool[0]))]
for name, op in ops:
    for n in range(0, 4):
        total += 1
        okc, okr, oke, okev, info = run(op, n)
        if not (okc and okr and oke and okev):
            fails[(okc, okr, oke, okev)].append((name, n, info))
print("total", total, {k: len(v) for k, v in fails.items()})
seen = set()
for k, v in fails.items():
    for name, n, info in v:
        key = (k, name.split("=")[0].split("(")[0][:6])
        if key in seen: continue
        seen.add(key); print(k, name, "n=%d" % n, info)
print("=== by op kind (excluding slice-assign) ===")
import re
kinds = collections.Counter(); exs = {}
for k, v in fails.items():
    for name, n, info in v:
        if re.match(r"l\[.*:.*\]=", name): kind = "setslice"
        elif name.startswith("del l[") and ":" in name: kind = "delslice"
        else: kind = re.sub(r"-?\d+", "i", name)
        kinds[(kind, k)] += 1; exs.setdefault((kind, k), (name, n, info))
for kk, c in sorted(kinds.items(), key=str): print(kk, c, exs[kk])
