# hand VC probe: find_cycles inner DFS invariants (soundness + completeness certificate)
from z3 import *
import time
N = DeclareSort('Node')
edge = Function('edge', N, N, BoolSort())
R = Function('R', N, N, BoolSort())      # any transitive relation containing edge
x, y, z, p, c = Consts('x y z p c', N)
AXR = [ForAll([x, y], Implies(edge(x, y), R(x, y))), ForAll([x, y, z], Implies(And(R(x, y), R(y, z)), R(x, z)))]
parent = Function('parent', N, BoolSort())            # nodes_to_test = set(edges): nodes with an outgoing edge
AXP = [ForAll([x, y], Implies(edge(x, y), parent(x)))]
# sequence prelude (stack)
Sq = DeclareSort('PySeq'); at = Function('at', Sq, IntSort(), N); ln = Function('len', Sq, IntSort())
mem = Function('mem', Sq, N, BoolSort()); pos = Function('pos', Sq, N, IntSort())
s_, i, j = Const('s_', Sq), Int('i'), Int('j')
AXS = [ForAll([s_], ln(s_) >= 0, patterns=[ln(s_)]),
       ForAll([s_, i], Implies(And(0 <= i, i < ln(s_)), mem(s_, at(s_, i))), patterns=[at(s_, i)]),
       ForAll([s_, x], Implies(mem(s_, x), And(0 <= pos(s_, x), pos(s_, x) < ln(s_), at(s_, pos(s_, x)) == x)), patterns=[mem(s_, x)])]
def nodup(s): return ForAll([i], Implies(And(0 <= i, i < ln(s)), pos(s, at(s, i)) == i), patterns=[at(s, i)])
start = Const('start', N)
def Inv(stack, todo, output, popped):
    return [nodup(stack),
        ForAll([i, j], Implies(And(0 <= i, i < j, j < ln(stack)), R(at(stack, i), at(stack, j)))),          # path
        Implies(ln(stack) > 0, at(stack, 0) == start),
        ForAll([x], Implies(mem(stack, x), And(parent(x), Not(todo(x)), Not(popped(x))))),
        ForAll([x], Implies(popped(x), And(parent(x), Not(todo(x))))),
        ForAll([x], Implies(output(x), R(x, x))),                                                              # soundness
        ForAll([x], Implies(And(parent(x), Not(todo(x))), Or(mem(stack, x), popped(x)))),                      # visited = stack U popped
        ForAll([x, y], Implies(And(popped(x), edge(x, y), parent(y)), Not(todo(y)))),                          # closure of popped
        ForAll([x], Implies(And(popped(x), edge(x, start)), output(start))),                                   # certificate
        Implies(ln(stack) == 0, popped(start)), Not(todo(start)), parent(start)]
stack = Const('stack', Sq); todo = Function('todo', N, BoolSort()); output = Function('output', N, BoolSort()); popped = Function('popped', N, BoolSort())
top = at(stack, ln(stack) - 1)
base = AXR + AXP + AXS + Inv(stack, todo, output, popped) + [ln(stack) > 0]
def prove(name, hyp, goals, t=20000):
    for k, g in enumerate(goals):
        s = Solver(); s.set('timeout', t); s.add(hyp); s.add(Not(g)); t0 = time.time(); r = s.check()
        print(f"{name}[{k}] {r} {1000*(time.time()-t0):.0f}ms")
# inner for over edges[top]: scanned set `sc` (successors already examined in this scan); invariant of the for:
sc = Function('sc', N, BoolSort()); out2 = Function('out2', N, BoolSort()); todo2 = Function('todo2', N, BoolSort())
forinv = [ForAll([x], Implies(sc(x), edge(top, x))),
          ForAll([x], Implies(sc(x), Not(todo2(x)))),                                   # no scanned successor is still todo (else we would have broken out)
          ForAll([x], Implies(And(sc(x), mem(stack, x), x == start), out2(start))),      # if start was seen as successor it is in output
          ForAll([x], Implies(output(x), out2(x))), ForAll([x], Implies(out2(x), R(x, x))),
          ForAll([x], todo2(x) == todo(x))]
# case A: successor node in stack -> cyc = stack[idx:], output |= cyc ; (todo -= cyc is a no-op)
node = Const('node', N); out3 = Function('out3', N, BoolSort())
hypA = base + forinv + [edge(top, node), Not(sc(node)), mem(stack, node),
        ForAll([x], out3(x) == Or(out2(x), And(mem(stack, x), pos(stack, x) >= pos(stack, node))))]
prove("A: cyc sound", hypA, [ForAll([x], Implies(out3(x), R(x, x))), Implies(node == start, out3(start))])
# case B: node in todo -> push, remove from todo, break : while-invariant re-established
stack2 = Const('stack2', Sq); todo3 = Function('todo3', N, BoolSort())
hypB = base + forinv + [edge(top, node), Not(sc(node)), todo2(node), parent(node),
        ln(stack2) == ln(stack) + 1, ForAll([i], Implies(And(0 <= i, i < ln(stack)), at(stack2, i) == at(stack, i)), patterns=[at(stack2, i)]),
        at(stack2, ln(stack)) == node, ForAll([x], mem(stack2, x) == Or(mem(stack, x), x == node)),
        ForAll([x], pos(stack2, x) == If(x == node, ln(stack), pos(stack, x))),
        ForAll([x], todo3(x) == And(todo2(x), x != node))]
prove("B: push preserves Inv", hypB, Inv(stack2, todo3, out2, popped))
# case C: for-else (all successors scanned, none in todo) -> pop
stack3 = Const('stack3', Sq); popped2 = Function('popped2', N, BoolSort())
hypC = base + forinv + [ForAll([x], Implies(edge(top, x), sc(x))),
        ln(stack3) == ln(stack) - 1, ForAll([i], Implies(And(0 <= i, i < ln(stack3)), at(stack3, i) == at(stack, i)), patterns=[at(stack3, i)]),
        ForAll([x], mem(stack3, x) == And(mem(stack, x), x != top)), ForAll([x], pos(stack3, x) == pos(stack, x)),
        ForAll([x], popped2(x) == Or(popped(x), x == top))]
prove("C: pop preserves Inv", hypC, Inv(stack3, todo2, out2, popped2))
# exit: stack empty -> certificate: start not in output => W = (popped \ {start}) U nonparents is succ-closed, contains succ(start), excludes start
W = lambda v: Or(And(popped(v), v != start), Not(parent(v)))
hypE = AXR + AXP + AXS + Inv(stack, todo, output, popped) + [ln(stack) == 0, Not(output(start))]
prove("E: certificate", hypE, [ForAll([x], Implies(edge(start, x), W(x))), ForAll([x, y], Implies(And(W(x), edge(x, y)), W(y))), Not(W(start))])
print("--- sanity: hypotheses must be consistent (expect sat/unknown, never unsat)")
for nm, h in (("base", base), ("hypA", hypA), ("hypB", hypB), ("hypC", hypC), ("hypE", hypE)):
    s = Solver(); s.set('timeout', 5000); s.add(h); print(nm, s.check())
# for-loop step: after examining `node` without break, the for-invariant holds with sc' = sc U {node}
sc2 = Function('sc2', N, BoolSort())
def forinv_of(sc_, out_, todo_):
    return [ForAll([x], Implies(sc_(x), edge(top, x))), ForAll([x], Implies(sc_(x), Not(todo_(x)))),
            ForAll([x], Implies(And(sc_(x), mem(stack, x), x == start), out_(start))),
            ForAll([x], Implies(output(x), out_(x))), ForAll([x], Implies(out_(x), R(x, x))), ForAll([x], todo_(x) == todo(x))]
# A': node in stack, not in todo (continue scanning)
hypA2 = hypA + [Not(todo2(node)), ForAll([x], sc2(x) == Or(sc(x), x == node))]
prove("A': continue scan keeps for-inv", hypA2, forinv_of(sc2, out3, todo2))
# D: node neither in stack nor in todo (already popped, or a non-parent)
hypD = base + forinv + [edge(top, node), Not(sc(node)), Not(mem(stack, node)), Not(todo2(node)), ForAll([x], sc2(x) == Or(sc(x), x == node))]
prove("D: skip keeps for-inv", hypD, forinv_of(sc2, out2, todo2))
# for-entry: sc empty
hyp0 = base + [ForAll([x], Not(sc(x))), ForAll([x], out2(x) == output(x)), ForAll([x], todo2(x) == todo(x))]
prove("for entry", hyp0, forinv)
# deliberately wrong: drop the 'certificate' conjunct use -> E must fail
hypE_bad = AXR + AXP + AXS + [g for k, g in enumerate(Inv(stack, todo, output, popped)) if k != 8] + [ln(stack) == 0, Not(output(start))]
s = Solver(); s.set('timeout', 5000); s.add(hypE_bad); s.add(Not(Not(W(start)))); print("E without certificate conjunct, goal ~W(start):", s.check())
s = Solver(); s.set('timeout', 5000); s.add(hypE_bad); s.add(Not(ForAll([x, y], Implies(And(W(x), edge(x, y)), W(y))))); print("E without certificate conjunct, closure goal (expected NOT unsat):", s.check())
