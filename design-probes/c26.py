import itertools, collections, gc, warnings, logging
warnings.simplefilter("ignore")
from sqlalchemy import pool, exc
from sqlalchemy.engine import default
class DBErr(Exception): pass
class Ledger:
    def __init__(s): s.open = set(); s.closed = set(); s.n = 0; s.calls = collections.Counter(); s.plan = {}
    def fault(s, kind):
        s.calls[kind] += 1
        if s.plan.get((kind, s.calls[kind])): raise DBErr(f"{kind}#{s.calls[kind]}")
class Conn:
    def __init__(s, L): s.L = L; L.fault("connect"); L.n += 1; s.id = L.n; L.open.add(s); s.txn = False
    def rollback(s): s.L.fault("rollback"); s.txn = False
    def commit(s): s.L.fault("commit"); s.txn = False
    def close(s):
        s.L.open.discard(s); s.L.closed.add(s)      # the ledger counts a close *attempt* as closed
        s.L.fault("close")
    def cursor(s): return s
    def execute(s, *a): s.L.fault("execute"); s.txn = True
    def __repr__(s): return f"C{s.id}"
class Dialect(default.DefaultDialect):
    def do_rollback(self, c): c.rollback()
    def do_commit(self, c): c.commit()
    def do_close(self, c): c.close()
    def do_ping(self, c): c.L.fault("ping"); return True
    def is_disconnect(self, e, c, cur): return False
def mkpool(L, **kw):
    return pool.QueuePool(lambda: Conn(L), pool_size=1, max_overflow=1, timeout=0.01, dialect=Dialect(), **kw)
OPS = ["co", "ci0", "ci1", "inv0", "inv1", "soft0", "poolinv", "gc0", "use0"]
faultkinds = [None, ("connect", 1), ("connect", 2), ("rollback", 1), ("close", 1), ("ping", 1), ("ping", 2)]
bad = collections.Counter(); first = {}; n = 0
for pre_ping in (False, True):
    for seq in itertools.product(OPS, repeat=3):
        for flt in faultkinds:
            if flt and flt[0] == "ping" and not pre_ping: continue
            L = Ledger(); 
            if flt: L.plan[flt] = True
            p = mkpool(L, pre_ping=pre_ping); held = []; handed = []; n += 1
            for op in seq:
                try:
                    if op == "co":
                        held.append(p.connect()); c = held[-1].dbapi_connection; handed.append(c)
                        if c in L.closed: bad[("handed-out-closed", op)] += 1; first.setdefault(("handed-out-closed", op), (pre_ping, seq, flt))
                        if c.txn: bad[("handed-out-in-txn", op)] += 1; first.setdefault(("handed-out-in-txn", op), (pre_ping, seq, flt))
                        live = [h.dbapi_connection for h in held if h.dbapi_connection is not None]
                        if len(set(map(id, live))) != len(live): bad[("two-holders", op)] += 1; first.setdefault(("two-holders", op), (pre_ping, seq, flt))
                    elif op.startswith("ci") and len(held) > int(op[2]): held.pop(int(op[2])).close()
                    elif op.startswith("inv") and len(held) > int(op[3]): held.pop(int(op[3])).invalidate()   # fairy.invalidate() also checks the record in
                    elif op == "soft0" and held: held.pop(0).invalidate(soft=True)
                    elif op == "poolinv" and held: p._invalidate(held[0], None)
                    elif op == "gc0" and held: held.pop(0); gc.collect()
                    elif op == "use0" and held and held[0].dbapi_connection is not None: held[0].dbapi_connection.execute("x")
                except (DBErr, exc.TimeoutError, exc.InvalidRequestError, exc.DBAPIError) as e: pass
                # limits
                if len(L.open) > 2: bad[("limit", op)] += 1; first.setdefault(("limit", op), (pre_ping, seq, flt, len(L.open)))
                if p.checkedout() != len(held): bad[("checkedout-count", op)] += 1; first.setdefault(("checkedout-count", op), (pre_ping, seq, flt, p.checkedout(), len(held)))
            # release everything
            for h in held:
                try: h.close()
                except DBErr: pass
            held = []; gc.collect()
            if p.checkedout() != 0: bad[("final-checkedout",)] += 1; first.setdefault(("final-checkedout",), (pre_ping, seq, flt, p.checkedout()))
            idle = set()
            while True:
                try: rec = p._pool.get(False)
                except Exception: break
                if rec.dbapi_connection is not None: idle.add(rec.dbapi_connection)
            leaked = L.open - idle
            if leaked: bad[("leak",)] += 1; first.setdefault(("leak",), (pre_ping, seq, flt, leaked))
            if idle & L.closed: bad[("idle-closed",)] += 1; first.setdefault(("idle-closed",), (pre_ping, seq, flt))
print("histories", n, "problems", dict(bad))
import sys; sys.stdout.flush()
for k, v in first.items(): print(k, v)
