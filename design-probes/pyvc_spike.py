"""Throw-away spike: path-based symbolic execution of real SQLAlchemy functions -> SMT obligations.
Not framework code; validates the architecture described in DESIGN.md section 2.2."""
import ast, sys, time, subprocess, tempfile, os
from z3 import *

# ---------- logic prelude: PySeq ----------
class Prelude:
    def __init__(self, elem_sorts):
        self.ax = []
        self.seq = {}
        for name, T in elem_sorts.items():
            Sq = DeclareSort('PySeq_' + name)
            at = Function('at_' + name, Sq, IntSort(), T); ln = Function('len_' + name, Sq, IntSort())
            mem = Function('mem_' + name, Sq, T, BoolSort()); pos = Function('pos_' + name, Sq, T, IntSort())
            s, i, x = Const('s', Sq), Int('i'), Const('x', T)
            self.ax += [ForAll([s], ln(s) >= 0, patterns=[ln(s)]),
                        ForAll([s, i], Implies(And(0 <= i, i < ln(s)), mem(s, at(s, i))), patterns=[at(s, i)]),
                        ForAll([s, x], Implies(mem(s, x), And(0 <= pos(s, x), pos(s, x) < ln(s), at(s, pos(s, x)) == x)), patterns=[mem(s, x)])]
            self.seq[name] = dict(sort=Sq, at=at, len=ln, mem=mem, pos=pos, elem=T)

def find_function(path, qualname):
    tree = ast.parse(open(path).read())
    node = tree
    for part in qualname.split('.'):
        found = None
        for child in ast.walk(node) if node is tree else ast.iter_child_nodes(node):
            pass
        # search direct/nested body statements
        stack = list(getattr(node, 'body', []))
        while stack:
            n = stack.pop(0)
            if isinstance(n, (ast.FunctionDef, ast.ClassDef)) and n.name == part:
                found = n; break
            if isinstance(n, (ast.If, ast.Try, ast.With)):
                stack = list(getattr(n, 'body', [])) + list(getattr(n, 'orelse', [])) + stack
        if found is None: raise SystemExit(f"exit 3: {qualname}: {part} not found")
        node = found
    return node

class Path(Exception): pass
class Outcome:
    def __init__(s, kind, value, pc, st): s.kind, s.value, s.pc, s.st = kind, value, pc, st

class Exec:
    """forward symbolic execution; every path yields an Outcome; loops cut by invariants."""
    def __init__(self, fn, model):
        self.fn, self.m = fn, model
        self.obligations = []   # (name, hyps, goal)
        self.outcomes = []
        self.fresh = 0
    def new(self, name, sort):
        self.fresh += 1; return Const(f"{name}!{self.fresh}", sort)
    def run(self, env, pc, st):
        self.block(self.fn.body, env, pc, st, lambda env, pc, st: self.outcomes.append(Outcome('return', self.m.none(), pc, st)))
    def block(self, stmts, env, pc, st, k):
        if not stmts: return k(env, pc, st)
        s, rest = stmts[0], stmts[1:]
        cont = lambda env, pc, st: self.block(rest, env, pc, st, k)
        self.stmt(s, env, pc, st, cont)
    def stmt(self, s, env, pc, st, k):
        m = self.m
        if isinstance(s, ast.Expr) and isinstance(s.value, ast.Constant): return k(env, pc, st)   # docstring
        if isinstance(s, ast.Assign) and len(s.targets) == 1 and isinstance(s.targets[0], ast.Name):
            for (v, pc2, st2) in m.eval(self, s.value, env, pc, st):
                env2 = dict(env); env2[s.targets[0].id] = v; k(env2, pc2, st2)
            return
        if isinstance(s, ast.Return):
            if s.value is None: self.outcomes.append(Outcome('return', m.none(), pc, st)); return
            for (v, pc2, st2) in m.eval(self, s.value, env, pc, st): self.outcomes.append(Outcome('return', v, pc2, st2))
            return
        if isinstance(s, ast.If):
            for (c, pc2, st2) in m.eval_bool(self, s.test, env, pc, st):
                self.block(s.body, env, pc2 + [c], st2, k)
                self.block(s.orelse, env, pc2 + [Not(c)], st2, k)
            return
        if isinstance(s, ast.For):
            return m.for_loop(self, s, env, pc, st, k)
        if isinstance(s, ast.AugAssign) or isinstance(s, ast.Assign) or isinstance(s, ast.Expr):
            return m.effect(self, s, env, pc, st, k)
        raise SystemExit(f"exit 3: out of subset: {ast.dump(s)[:80]}")

def discharge(name, hyps, goal, timeout=20000):
    s = Solver(); s.set('timeout', timeout); s.add(hyps); s.add(Not(goal))
    t = time.time(); r = s.check(); dt = time.time() - t
    info = ''
    if r != unsat:
        f = tempfile.NamedTemporaryFile('w', suffix='.smt2', delete=False)
        f.write("(set-logic ALL)\n(set-option :produce-models true)\n" + s.to_smt2().replace("(check-sat)", "(check-sat)\n(get-model)")); f.close()
        out = subprocess.run(["/usr/bin/cvc5", "--finite-model-find", "--mbqi", "--tlimit=20000", f.name], capture_output=True, text=True).stdout
        info = 'cvc5-fmf: ' + out.split("\n")[0]; model = out
        os.unlink(f.name)
        return str(r), dt, info, model
    return 'unsat', dt, info, None
