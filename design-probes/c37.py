import itertools, collections
from sqlalchemy import Column, Integer, ForeignKey, Table
from sqlalchemy.orm import declarative_base, relationship
Base = declarative_base()
class P(Base):
    __tablename__='p'; id=Column(Integer, primary_key=True)
    children = relationship("C", back_populates="parent")
    one = relationship("O", back_populates="owner", uselist=False)
class C(Base):
    __tablename__='c'; id=Column(Integer, primary_key=True); pid=Column(ForeignKey('p.id'))
    parent = relationship("P", back_populates="children")
class O(Base):
    __tablename__='o'; id=Column(Integer, primary_key=True); pid=Column(ForeignKey('p.id'))
    owner = relationship("P", back_populates="one")
def fresh(): return [P(id=1), P(id=2)], [C(id=1), C(id=2), C(id=3)], [O(id=1), O(id=2)]
def ops():
    o = []
    for pi in range(2):
        for ci in range(3):
            o += [(f"p{pi}.children.append(c{ci})", lambda ps, cs, os_, pi=pi, ci=ci: ps[pi].children.append(cs[ci])),
                  (f"p{pi}.children.remove(c{ci})", lambda ps, cs, os_, pi=pi, ci=ci: ps[pi].children.remove(cs[ci])),
                  (f"c{ci}.parent=p{pi}", lambda ps, cs, os_, pi=pi, ci=ci: setattr(cs[ci], "parent", ps[pi])),
                  (f"p{pi}.children.insert(0,c{ci})", lambda ps, cs, os_, pi=pi, ci=ci: ps[pi].children.insert(0, cs[ci]))]
        o += [(f"p{pi}.children=[c0,c1]", lambda ps, cs, os_, pi=pi: setattr(ps[pi], "children", [cs[0], cs[1]])),
              (f"p{pi}.children=[]", lambda ps, cs, os_, pi=pi: setattr(ps[pi], "children", [])),
              (f"p{pi}.children[0:1]=[c2]", lambda ps, cs, os_, pi=pi: ps[pi].children.__setitem__(slice(0, 1), [cs[2]])),
              (f"p{pi}.children.pop()", lambda ps, cs, os_, pi=pi: ps[pi].children.pop()),
              (f"del p{pi}.children[0]", lambda ps, cs, os_, pi=pi: ps[pi].children.__delitem__(0)),
              (f"p{pi}.children.clear()", lambda ps, cs, os_, pi=pi: ps[pi].children.clear()),
              (f"p{pi}.children[0]=c2", lambda ps, cs, os_, pi=pi: ps[pi].children.__setitem__(0, cs[2]))]
        for oi in range(2):
            o += [(f"p{pi}.one=o{oi}", lambda ps, cs, os_, pi=pi, oi=oi: setattr(ps[pi], "one", os_[oi])),
                  (f"o{oi}.owner=p{pi}", lambda ps, cs, os_, pi=pi, oi=oi: setattr(os_[oi], "owner", ps[pi]))]
        o += [(f"p{pi}.one=None", lambda ps, cs, os_, pi=pi: setattr(ps[pi], "one", None))]
    for ci in range(3): o.append((f"c{ci}.parent=None", lambda ps, cs, os_, ci=ci: setattr(cs[ci], "parent", None)))
    for oi in range(2): o.append((f"o{oi}.owner=None", lambda ps, cs, os_, oi=oi: setattr(os_[oi], "owner", None)))
    return o
OPS = ops()
def inv(ps, cs, os_):
    bad = []
    for p in ps:
        for c in cs:
            if (any(c is x for x in p.children)) != (c.parent is p): bad.append(("o2m", p.id, c.id, [x.id for x in p.children], getattr(c.parent, "id", None)))
        for o in os_:
            if (p.one is o) != (o.owner is p): bad.append(("o2o", p.id, o.id, getattr(p.one, "id", None), getattr(o.owner, "id", None)))
    return bad
viol = collections.Counter(); first = {}
n = 0
for seq in itertools.product(range(len(OPS)), repeat=2):
    ps, cs, os_ = fresh(); names = []
    for k in seq:
        name, f = OPS[k]; names.append(name)
        try: f(ps, cs, os_)
        except (ValueError, IndexError): pass
    n += 1
    b = inv(ps, cs, os_)
    if b:
        key = (b[0][0], names[-1].split("(")[0].split("=")[0][:14]); viol[key] += 1; first.setdefault(key, (names, b[:2]))
print("sequences", n, "ops", len(OPS), "violating", sum(viol.values()))
for k, v in first.items(): print(k, viol[k], v)
