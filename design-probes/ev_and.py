import sys; sys.path.insert(0, '/tmp/proto/spike')
from pyvc_spike import *
V, (NONE, TRUE, FALSE, EXPIRED, NOOBJ) = EnumSort('V', ['NONE', 'TRUE', 'FALSE', 'EXPIRED', 'NOOBJ'])
Ev = DeclareSort('Ev'); val = Function('val', Ev, V)
P = Prelude({'Ev': Ev}); SQ = P.seq['Ev']
def truthy(v): return Or(v == TRUE, v == NOOBJ, v == EXPIRED)   # objects are truthy, None/False falsy
class Model:
    consts = {'_EXPIRED_OBJECT': EXPIRED, '_NO_OBJECT': NOOBJ}
    def none(self): return NONE
    def eval(self, ex, e, env, pc, st):
        if isinstance(e, ast.Name):
            if e.id in env: return [(env[e.id], pc, st)]
            if e.id in self.consts: return [(self.consts[e.id], pc, st)]
        if isinstance(e, ast.Constant):
            return [({None: NONE, True: TRUE, False: FALSE}[e.value], pc, st)]
        if isinstance(e, ast.Call) and isinstance(e.func, ast.Name) and e.func.id == 'sub_evaluate':
            return [(val(env['sub_evaluate']), pc, st)]     # pure sub-evaluator (assumed contract)
        raise SystemExit("exit 3: expr out of subset " + ast.dump(e)[:80])
    def eval_bool(self, ex, e, env, pc, st):
        if isinstance(e, ast.Compare) and len(e.ops) == 1 and isinstance(e.ops[0], (ast.Is, ast.IsNot)):
            (a, pc, st), = self.eval(ex, e.left, env, pc, st); (b, pc, st), = self.eval(ex, e.comparators[0], env, pc, st)
            return [((a == b) if isinstance(e.ops[0], ast.Is) else (a != b), pc, st)]
        if isinstance(e, ast.UnaryOp) and isinstance(e.op, ast.Not):
            (v, pc, st), = self.eval(ex, e.operand, env, pc, st); return [(Not(truthy(v)), pc, st)]
        if isinstance(e, ast.BoolOp):
            parts = [self.eval_bool(ex, x, env, pc, st)[0][0] for x in e.values]
            return [((Or if isinstance(e.op, ast.Or) else And)(*parts), pc, st)]
        if isinstance(e, ast.Name):
            (v, pc, st), = self.eval(ex, e, env, pc, st); return [(truthy(v), pc, st)]
        raise SystemExit("exit 3: bool expr out of subset " + ast.dump(e)[:80])
    def for_loop(self, ex, s, env, pc, st, k):
        # for <target> in <PySeq variable>: body   -- cut with invariant from contract
        seq = env[s.iter.id]; inv = self.contract['invariant'][0]
        i = ex.new('i', IntSort())
        # entry
        ex.obligations.append(('loop0/entry', list(pc), inv(env, IntVal(0))))
        # arbitrary iteration: havoc assigned vars (here: value, sub_evaluate) -- none carried
        assigned = {t.id for n in ast.walk(s) if isinstance(n, ast.Assign) for t in n.targets if isinstance(t, ast.Name)} & set(env)
        env_h = dict(env)
        for a in assigned: env_h[a] = ex.new(a, env[a].sort())
        pc_it = pc + [0 <= i, i < SQ['len'](seq), inv(env_h, i)]
        env_it = dict(env_h); env_it[s.target.id] = SQ['at'](seq, i)
        def after_body(env2, pc2, st2):
            ex.obligations.append(('loop0/preserve', list(pc2), inv(env2, i + 1)))
        ex.block(s.body, env_it, pc_it, st, after_body)
        # exit
        n = SQ['len'](seq)
        env_x = dict(env)
        for a in assigned: env_x[a] = ex.new(a, env[a].sort())
        k(env_x, pc + [inv(env_x, n)], st)
    def effect(self, *a): raise SystemExit("exit 3")
def and3(seq, res):
    j = Int('j'); n = SQ['len'](seq); v = lambda k: val(SQ['at'](seq, k))
    anyF = Exists([j], And(0 <= j, j < n, v(j) == FALSE)); anyN = Exists([j], And(0 <= j, j < n, v(j) == NONE))
    return If(anyF, res == FALSE, If(anyN, res == NONE, res == TRUE))
def run(path, qual, label):
    fn = find_function(path, qual)
    m = Model(); evs = Const('evaluators', SQ['sort']); j = Int('j')
    dom = ForAll([j], Implies(And(0 <= j, j < SQ['len'](evs)), And(val(SQ['at'](evs, j)) != EXPIRED, val(SQ['at'](evs, j)) != NOOBJ)))
    if 'fixed' in label:
        m.contract = {'invariant': {0: lambda env, i: And(ForAll([j], Implies(And(0 <= j, j < i), val(SQ['at'](evs, j)) != FALSE)),
                                                          (env['has_null'] == TRUE) == Exists([j], And(0 <= j, j < i, val(SQ['at'](evs, j)) == NONE)),
                                                          Or(env['has_null'] == TRUE, env['has_null'] == FALSE))}}
    else:
        m.contract = {'invariant': {0: lambda env, i: ForAll([j], Implies(And(0 <= j, j < i), val(SQ['at'](evs, j)) == TRUE))}}
    ex = Exec(fn, m); ex.run({'evaluators': evs, 'obj': Const('obj', DeclareSort('Ref'))}, [dom], None)
    obl = list(ex.obligations) + [(f'return{n}/ensures', o.pc, and3(evs, o.value)) for n, o in enumerate(ex.outcomes)]
    print(f"== {label}: {len(ex.outcomes)} outcomes, {len(obl)} obligations")
    for name, hyps, goal in obl:
        r, dt, info, model = discharge(name, P.ax + hyps, goal)
        print(f"  {name:22s} {r:8s} {dt*1000:7.1f} ms  {info}")
        if r == 'sat':
            sol = Solver(); sol.add(P.ax + hyps); sol.add(Not(goal)); sol.check(); mm = sol.model()
            n_ = mm.eval(SQ['len'](evs)).as_long(); print('       counterexample values =', [mm.eval(val(SQ['at'](evs, IntVal(q)))) for q in range(n_)])
        if model and 'sat' == info.split(': ')[-1]:
            for line in model.split("\n"):
                if 'define-fun val ' in line or 'define-fun len_Ev' in line or 'define-fun at_Ev' in line: print("      ", line.strip()[:160])
run('/repo/lib/sqlalchemy/orm/evaluator.py', '_EvaluatorCompiler.visit_and_clauselist_op.evaluate', 'unchanged tree')
# deliberately repaired copy (scratch) must verify
src = open('/repo/lib/sqlalchemy/orm/evaluator.py').read()
old = """            for sub_evaluate in evaluators:
                value = sub_evaluate(obj)
                if value is _EXPIRED_OBJECT:
                    return _EXPIRED_OBJECT

                if not value:
                    if value is None or value is _NO_OBJECT:
                        return None
                    return False
            return True
"""
new = """            has_null = False
            for sub_evaluate in evaluators:
                value = sub_evaluate(obj)
                if value is _EXPIRED_OBJECT:
                    return _EXPIRED_OBJECT

                if not value:
                    if value is None or value is _NO_OBJECT:
                        has_null = True
                    else:
                        return False
            if has_null:
                return None
            return True
"""
assert old in src
open('/tmp/proto/spike/evaluator_fixed.py', 'w').write(src.replace(old, new))

run('/tmp/proto/spike/evaluator_fixed.py', '_EvaluatorCompiler.visit_and_clauselist_op.evaluate', 'fixed scratch copy')
