import itertools, sqlite3
from sqlalchemy import String, literal, select, Integer, Unicode
from sqlalchemy.dialects import sqlite, postgresql, mysql, mssql, oracle
alpha = "'\"\\%:;-a\n"
strs = [''.join(t) for n in range(0, 4) for t in itertools.product(alpha, repeat=n)]
def decode_ansi(lit, backslash=False, nprefix=False, pct=False):
    # returns decoded string if lit is exactly ONE string literal token, else None
    if nprefix and lit.startswith("N"): lit = lit[1:]
    if len(lit) < 2 or lit[0] != "'" : return None
    i = 1; out = []
    while i < len(lit):
        c = lit[i]
        if backslash and c == "\\":
            if i + 1 >= len(lit): return None
            out.append(lit[i+1]); i += 2; continue   # (only \\ and \' matter for our alphabet; \n etc. would map specially)
        if c == "'":
            if i + 1 < len(lit) and lit[i+1] == "'": out.append("'"); i += 2; continue
            return ''.join(out) if i == len(lit) - 1 else None
        out.append(c); i += 1
    return None
con = sqlite3.connect(":memory:")
for name, d, kw in (("sqlite", sqlite.dialect(), {}), ("pg", postgresql.dialect(), {"pct": True}), ("mysql", mysql.dialect(), {"backslash": True, "pct": True}), ("mssql", mssql.dialect(), {"nprefix": True}), ("oracle", oracle.dialect(), {})):
    bad = []
    for s in strs:
        lit = str(select(literal(s, String)).compile(dialect=d, compile_kwargs={"literal_binds": True}))
        body = lit[len("SELECT "):].split(" AS ")[0].strip()
        if " AS " in lit: body = lit[len("SELECT "):lit.rindex(" AS ")]
        if kw.get("pct") and d.paramstyle in ("format", "pyformat"): body = body.replace("%%", "%")
        dec = decode_ansi(body, backslash=kw.get("backslash", False), nprefix=kw.get("nprefix", False))
        if kw.get("backslash") and dec is not None and "\\" in s:
            pass
        if dec != s: bad.append((s, body, dec))
        if name == "sqlite":
            r = con.execute("SELECT " + body).fetchone()[0]
            if r != s: bad.append(("sqlite-exec", s, body, r))
    print(name, "n", len(strs), "fails", len(bad), bad[:4])
