import itertools, collections
from sqlalchemy import Column, Integer, ForeignKey, inspect, String
from sqlalchemy.orm import declarative_base, relationship, attributes
Base = declarative_base()
class P(Base):
    __tablename__='p'; id=Column(Integer, primary_key=True); x=Column(Integer)
    children = relationship("C", foreign_keys="C.pid")
    best = relationship("C", foreign_keys="P.best_id", uselist=False); best_id = Column(ForeignKey('c.id'))
class C(Base):
    __tablename__='c'; id=Column(Integer, primary_key=True); pid=Column(ForeignKey('p.id'))
    def __repr__(s): return f"c{s.id}"
cs = [C(id=i) for i in range(3)]
def mk(x0, ch0, b0, committed=True):
    p = P(id=1)
    if committed:
        attributes.set_committed_value(p, "x", x0); attributes.set_committed_value(p, "children", list(ch0)); attributes.set_committed_value(p, "best", b0)
    return p
scalar_ops = [("x=%r" % v, lambda p, v=v: setattr(p, "x", v)) for v in (None, 1, 2)] + [("del x", lambda p: delattr(p, "x"))]
obj_ops = [("best=%r" % v, lambda p, v=v: setattr(p, "best", v)) for v in (None, cs[0], cs[1])] + [("del best", lambda p: delattr(p, "best"))]
coll_ops = [(f"append c{i}", lambda p, i=i: p.children.append(cs[i])) for i in range(3)] + [(f"remove c{i}", lambda p, i=i: p.children.remove(cs[i])) for i in range(3)] + \
           [("children=[c2,c0]", lambda p: setattr(p, "children", [cs[2], cs[0]])), ("children=[]", lambda p: setattr(p, "children", [])), ("pop", lambda p: p.children.pop()), ("clear", lambda p: p.children.clear())]
bad = collections.Counter(); first = {}
n = 0
def run(kind, ops, init_vals, getcur):
    global n
    for init in init_vals:
        for L in (1, 2, 3):
            for seq in itertools.product(range(len(ops)), repeat=L):
                p = mk(*init); names = []
                for k in seq:
                    names.append(ops[k][0])
                    try: ops[k][1](p)
                    except (ValueError, IndexError, AttributeError): pass
                h = getattr(inspect(p).attrs, kind).history
                orig = init[{"x": 0, "children": 1, "best": 2}[kind]]
                n += 1
                try: cur = getcur(p)
                except AttributeError: cur = "<deleted>"
                if kind == "children":
                    ok = (sorted(map(id, list(h.added) + list(h.unchanged))) == sorted(map(id, cur))) and \
                         set(map(id, h.added)) == set(map(id, cur)) - set(map(id, orig)) and set(map(id, h.deleted)) == set(map(id, orig)) - set(map(id, cur)) and \
                         set(map(id, h.unchanged)) == set(map(id, orig)) & set(map(id, cur))
                else:
                    curv = None if cur == "<deleted>" else cur
                    if curv is orig or curv == orig and kind == "x":
                        ok = (not h.added and not h.deleted) if cur != "<deleted>" else True
                    else:
                        ok = list(h.added) == [curv] and (list(h.deleted) == [orig] or (orig is None and kind == "best" and not h.deleted))
                if not ok:
                    key = (kind, names[-1]); bad[key] += 1; first.setdefault(key, (init, names, h, cur))
run("x", scalar_ops, [(None, [], None), (1, [], None)], lambda p: p.__dict__["x"] if "x" in p.__dict__ else (_ for _ in ()).throw(AttributeError()))
run("best", obj_ops, [(None, [], None), (None, [], cs[0])], lambda p: p.__dict__["best"] if "best" in p.__dict__ else (_ for _ in ()).throw(AttributeError()))
run("children", coll_ops, [(None, [], None), (None, [cs[0], cs[1]], None)], lambda p: list(p.children))
print("histories checked", n, "bad", sum(bad.values()))
for k, v in list(first.items())[:12]: print(k, bad[k], v)
