# probe: first-class axiomatised Seq sort + OrderedSet.symmetric_difference_update (fixed and unfixed variants)
from z3 import *
import time
T = DeclareSort('T'); Sq = DeclareSort('Seq')
at = Function('at', Sq, IntSort(), T); ln = Function('len', Sq, IntSort())
mem = Function('mem', Sq, T, BoolSort()); pos = Function('pos', Sq, T, IntSort())
s_,i_,j_,x_ = Const('s_',Sq), Int('i_'), Int('j_'), Const('x_',T)
AX = [ForAll([s_], ln(s_) >= 0, patterns=[ln(s_)]),
      ForAll([s_,i_], Implies(And(0<=i_, i_<ln(s_)), mem(s_, at(s_,i_))), patterns=[at(s_,i_)]),
      ForAll([s_,x_], Implies(mem(s_,x_), And(0<=pos(s_,x_), pos(s_,x_)<ln(s_), at(s_,pos(s_,x_))==x_)), patterns=[mem(s_,x_)])]
def nodup(s): return ForAll([i_], Implies(And(0<=i_, i_<ln(s)), pos(s, at(s,i_))==i_), patterns=[at(s,i_)])
cnt=[0]
def filt(src, P):
    """r = [x for x in src if P(x)]"""
    cnt[0]+=1; r = Const('f%d'%cnt[0], Sq); ix = Function('ix%d'%cnt[0], IntSort(), IntSort())
    k,k2 = Ints('k k2')
    ax = [ForAll([k], Implies(And(0<=k,k<ln(r)), And(0<=ix(k), ix(k)<ln(src), at(r,k)==at(src,ix(k)), P(at(r,k)))), patterns=[at(r,k)]),
          ForAll([k,k2], Implies(And(0<=k,k<k2,k2<ln(r)), ix(k)<ix(k2))),
          ForAll([k], Implies(And(0<=k,k<ln(src), P(at(src,k))), And(mem(r, at(src,k)))), patterns=[at(src,k)])]
    return r, ax, ix
def concat(a,b):
    cnt[0]+=1; r = Const('c%d'%cnt[0], Sq); k=Int('k')
    ax=[ln(r)==ln(a)+ln(b),
        ForAll([k], Implies(And(0<=k,k<ln(a)), at(r,k)==at(a,k)), patterns=[at(r,k)]),
        ForAll([k], Implies(And(ln(a)<=k,k<ln(r)), at(r,k)==at(b,k-ln(a))), patterns=[at(r,k)]),
        ForAll([k], Implies(And(0<=k,k<ln(a)), at(r,k)==at(a,k)), patterns=[at(a,k)]),
        ForAll([k], Implies(And(0<=k,k<ln(b)), at(r,k+ln(a))==at(b,k)), patterns=[at(b,k)]),
        ForAll([x_], mem(r,x_) == Or(mem(a,x_), mem(b,x_)), patterns=[mem(r,x_)])]
    return r, ax
# pre-state: self._list = L (nodup), set part S == set(L); other = collection C (a sized non-set, may have dups)
L = Const('L',Sq); C = Const('C',Sq)
S = Function('S', T, BoolSort()); S2 = Function('S2', T, BoolSort())
pre = AX + [nodup(L), ForAll([x_], S(x_)==mem(L,x_))]
# set.symmetric_difference_update(self, collection): builtin contract (collection is converted to a set first)
pre += [ForAll([x_], S2(x_) == Xor(S(x_), mem(C,x_)))]
# self._list = [a for a in self._list if a in self]
L1, ax1, _ = filt(L, lambda v: S2(v))
# self._list += [a for a in collection if a in self]
A, ax2, ixA = filt(C, lambda v: S2(v))
L2, ax3 = concat(L1, A)
hyp = pre+ax1+ax2+ax3
def prove(name, hyp, goal, t=30000):
    s=Solver(); s.set('timeout',t); s.add(hyp); s.add(Not(goal)); t0=time.time(); r=s.check()
    print(name, r, '%.2fs'%(time.time()-t0)); return s,r
prove('rep: set(_list)==setpart', hyp, ForAll([x_], S2(x_)==mem(L2,x_)))
s,r = prove('rep: nodup(_list)  [expected to FAIL on unchanged code]', hyp, nodup(L2))
if r==sat:
    m=s.model(); print('  model: len L=%s len C=%s len L2=%s'%(m.eval(ln(L)), m.eval(ln(C)), m.eval(ln(L2))))
# fixed variant: appended part de-duplicated: A' = unique(A): nodup, same members, (order = first occurrences: subsequence)
A2 = Const('A2',Sq)
fix = [nodup(A2), ForAll([x_], mem(A2,x_)==mem(A,x_))]
L3, ax4 = concat(L1, A2)
hyp2 = pre+ax1+ax2+fix+ax4
prove('fixed rep: set', hyp2, ForAll([x_], S2(x_)==mem(L3,x_)))
prove('fixed rep: nodup', hyp2, nodup(L3))
s=Solver(); s.add(hyp); s.add(Not(nodup(L2)))
open('fail.smt2','w').write("(set-logic ALL)\n"+s.to_smt2())
