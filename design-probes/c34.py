import itertools, collections, warnings, gc
warnings.simplefilter("ignore")
from sqlalchemy import Column, Integer, create_engine, event, inspect, select, update
from sqlalchemy.orm import declarative_base, Session
Base = declarative_base()
class A(Base):
    __tablename__ = 'a'; id = Column(Integer, primary_key=True); x = Column(Integer)
e = create_engine("sqlite://"); Base.metadata.create_all(e)
sqlcount = [0]
@event.listens_for(e, "before_cursor_execute")
def _c(*a): sqlcount[0] += 1
OPS = ["query", "get1", "get2", "expunge1", "readd1", "modify1", "pk1to3", "flush", "commit", "rollback", "merge1", "refresh1", "populate", "expire1", "delete1", "dropref_gc", "new3"]
bad = collections.Counter(); first = {}; n = 0
for seq in itertools.product(OPS, repeat=3):
    with e.begin() as c: c.exec_driver_sql("delete from a"); c.exec_driver_sql("insert into a values (1, 10), (2, 20)")
    s = Session(e); held = {}; n += 1
    try:
        held[1] = s.get(A, 1)
        for op in seq:
            o1 = held.get(1)
            try:
                if op == "query": rows = s.scalars(select(A).order_by(A.id)).all(); held.update({r.id: r for r in rows if r.id not in held})
                elif op == "get1":
                    present = inspect(A).identity_key_from_primary_key((1,)) in s.identity_map and o1 is not None and not inspect(o1).expired and o1 in s
                    before = sqlcount[0]; r = s.get(A, 1)
                    if present and sqlcount[0] != before: bad[("get emitted SQL though present", op)] += 1; first.setdefault(("get emitted SQL though present", op), seq)
                    if r is not None and o1 is not None and o1 in s and r is not o1 and inspect(o1).key == inspect(r).key: bad[("two objects one identity",)] += 1; first.setdefault(("two objects one identity",), seq)
                    if r is not None: held.setdefault(1, r)
                elif op == "get2": r = s.get(A, 2); held.setdefault(2, r)
                elif op == "expunge1" and o1 is not None and o1 in s: s.expunge(o1)
                elif op == "readd1" and o1 is not None: s.add(o1)
                elif op == "modify1" and o1 is not None: o1.x = (o1.x or 0) + 1
                elif op == "pk1to3" and o1 is not None: o1.id = 3
                elif op == "flush": s.flush()
                elif op == "commit": s.commit()
                elif op == "rollback": s.rollback()
                elif op == "merge1": m_ = s.merge(A(id=1, x=99)); 
                elif op == "refresh1" and o1 is not None and o1 in s: s.refresh(o1)
                elif op == "populate": s.scalars(select(A).execution_options(populate_existing=True)).all()
                elif op == "expire1" and o1 is not None and o1 in s: s.expire(o1)
                elif op == "delete1" and o1 is not None and o1 in s: s.delete(o1)
                elif op == "dropref_gc": held.clear(); o1 = None; gc.collect()
                elif op == "new3": s.add(A(id=4, x=40))
            except Exception as ex:
                s.rollback()
            # invariant: identity map has at most one object per key and every query returns that object
            try: objs = s.scalars(select(A).order_by(A.id)).all() if s.is_active else []
            except Exception: s.rollback(); objs = []
            for o in objs:
                k = inspect(o).key
                if s.identity_map.get(k) is not o: bad[("query result is not the identity-map object",)] += 1; first.setdefault(("query result is not the identity-map object",), seq)
            keys = [inspect(o).key for o in s.identity_map.values()]
            if len(keys) != len(set(keys)): bad[("dup keys",)] += 1
            for k, o in list(s.identity_map.items()):
                if inspect(o).key != k: bad[("key mismatch", op)] += 1; first.setdefault(("key mismatch", op), seq)
    finally:
        s.close()
print("histories", n, "problems", {str(k): v for k, v in bad.items()})
for k, v in first.items(): print(k, v)
