from sqlalchemy import Column, Integer, ForeignKey, String
from sqlalchemy.orm import declarative_base, relationship, deferred
Base = declarative_base()
class P(Base):
    __tablename__ = 'p'; id = Column(Integer, primary_key=True); x = Column(Integer); big = deferred(Column(String))
    children = relationship("C", back_populates="parent", order_by="C.id")
class C(Base):
    __tablename__ = 'c'; id = Column(Integer, primary_key=True); pid = Column(ForeignKey('p.id')); y = Column(Integer)
    parent = relationship("P", back_populates="children")
