import itertools, collections, warnings, gc
warnings.simplefilter("ignore")
from sqlalchemy import Column, Integer, ForeignKey, create_engine, select, inspect
from sqlalchemy.orm import declarative_base, Session, relationship
Base = declarative_base()
class P(Base):
    __tablename__ = 'p'; id = Column(Integer, primary_key=True); x = Column(Integer)
    children = relationship("C", backref="parent")
class C(Base):
    __tablename__ = 'c'; id = Column(Integer, primary_key=True); pid = Column(ForeignKey('p.id')); y = Column(Integer)
e = create_engine("sqlite://"); Base.metadata.create_all(e)
OPS = ["mod_x", "append_child", "remove_child", "mod_child", "drop_all_refs", "gc", "flush", "commit", "load_again", "add_new"]
bad = collections.Counter(); first = {}; n = 0
for seq in itertools.product(OPS, repeat=4):
    with e.begin() as c:
        c.exec_driver_sql("delete from c"); c.exec_driver_sql("delete from p"); c.exec_driver_sql("insert into p values (1, 10)"); c.exec_driver_sql("insert into c values (1, 1, 100), (2, 1, 200)")
    s = Session(e); refs = {"p": s.get(P, 1)}; n += 1
    model = {"x": 10, "children": {1: 100, 2: 200}, "new": set()}
    try:
        for op in seq:
            p = refs.get("p")
            if op == "mod_x" and p is not None: p.x += 1; model["x"] += 1
            elif op == "append_child" and p is not None:
                model["seqn"] = model.get("seqn", 10) + 1; k = model["seqn"]; p.children.append(C(id=k, y=k)); model["children"][k] = k
            elif op == "remove_child" and p is not None and p.children:
                ch = p.children[0]; p.children.remove(ch); model["children"].pop(ch.id, None); model.setdefault("orphans", {})[ch.id] = ch.y
            elif op == "mod_child" and p is not None and p.children:
                ch = p.children[-1]; ch.y += 1; model["children"][ch.id] = ch.y; del ch
            elif op == "drop_all_refs": refs.clear(); p = None; ch = None
            elif op == "gc": p = None; ch = None; gc.collect()
            elif op == "flush": s.flush()
            elif op == "commit": s.commit()
            elif op == "load_again": refs["p"] = s.get(P, 1)
            elif op == "add_new": s.add(P(id=50 + len(model["new"]), x=7)); model["new"].add(50 + len(model["new"]))
        p = None; ch = None; refs.clear(); gc.collect()
        s.commit()
        with e.connect() as c:
            x = c.exec_driver_sql("select x from p where id=1").scalar()
            kids = dict(c.exec_driver_sql("select id, y from c where pid=1").all())
            news = {r[0] for r in c.exec_driver_sql("select id from p where id>=50").all()}
        if x != model["x"]: bad["lost scalar change"] += 1; first.setdefault("lost scalar change", (seq, x, model["x"]))
        if kids != model["children"]: bad["lost collection change"] += 1; first.setdefault("lost collection change", (seq, kids, model["children"]))
        if news != model["new"]: bad["lost pending object"] += 1; first.setdefault("lost pending object", (seq, news, model["new"]))
        gc.collect()
        if len(s.identity_map) != 0 and not s.in_transaction():
            # after commit with expire_on_commit, unreferenced unmodified objects may be released
            pass
    finally: s.close()
print("histories", n, "problems", dict(bad))
for k, v in first.items(): print(k, v)
