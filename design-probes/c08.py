import itertools, sqlite3
from sqlalchemy import column, String, literal
from sqlalchemy.dialects import sqlite
def like_match(p, s, esc):
    # SQL LIKE with ESCAPE, case-sensitive
    def m(i, j):
        while i < len(p):
            c = p[i]
            if esc is not None and c == esc:
                if i + 1 >= len(p): return False
                if j < len(s) and s[j] == p[i+1]: i += 2; j += 1; continue
                return False
            if c == '%':
                return any(m(i+1, k) for k in range(j, len(s)+1))
            if c == '_':
                if j < len(s): i += 1; j += 1; continue
                return False
            if j < len(s) and s[j] == c: i += 1; j += 1; continue
            return False
        return j == len(s)
    return m(0, 0)
col = column('c', String)
alpha = "%_/\\'a"
strs = [''.join(t) for n in range(0, 4) for t in itertools.product(alpha, repeat=n)]
con = sqlite3.connect(":memory:"); con.execute("PRAGMA case_sensitive_like=ON")
bad = []; n = 0
for esc in (None, '\\', '^', '/'):
    for other in strs:
        for opname, wrap, py in (("startswith", lambda e: e + "%", str.startswith), ("endswith", lambda e: "%" + e, str.endswith), ("contains", lambda e: "%" + e + "%", lambda s, o: o in s)):
            expr = getattr(col, opname)(other, autoescape=True, **({"escape": esc} if esc else {}))
            bound = expr.right.value; e = expr.modifiers.get("escape")
            for s in strs[:200]:
                n += 1
                got = like_match(wrap(bound), s, e)
                if got != py(s, other):
                    bad.append((opname, esc, other, s, bound)); 
print("evaluations", n, "violations", len(bad), bad[:5])
# validate like_match vs sqlite on a sample
mism = 0
for p in strs[:150]:
    for s in strs[:60]:
        for esc in ('/', '\\'):
            try: r = con.execute("select ? like ? escape ?", (s, p, esc)).fetchone()[0]
            except sqlite3.OperationalError: continue
            if bool(r) != like_match(p, s, esc): mism += 1; 
print("like_match vs sqlite mismatches:", mism)
