import itertools, collections
from sqlalchemy.engine import make_url, URL
alpha = "@:/?%+&=#[ aü"
strs = [None, ""] + [''.join(t) for n in range(1, 3) for t in itertools.product(alpha, repeat=n)]
fails = collections.Counter(); ex = {}
n = 0
def chk(kind, **kw):
    global n; n += 1
    try:
        u = URL.create("drv", **kw); s = u.render_as_string(hide_password=False); v = make_url(s)
        ok = (v == u)
    except Exception as e:
        ok = False; s = repr(e); v = None
    if not ok:
        fails[kind] += 1; ex.setdefault(kind, []).append((kw, s, v))
for u_ in strs:
    for p_ in strs:
        if u_ is None and p_ is not None: continue
        chk("user/pass", username=u_, password=p_, host="h")
        chk("user/pass/nohost", username=u_, password=p_)
for d_ in strs:
    chk("database", host="h", database=d_); chk("database/nohost", database=d_); chk("database+port", host="h", port=5, database=d_)
    for k in strs[2:60]:
        for v in strs[1:60]:
            pass
for k in strs[2:]:
    for v in strs[2:40]:
        chk("query", host="h", database="db", query={k: v}); 
    chk("query-multi", host="h", query={k: ("x", "y")})
    chk("query-blank", host="h", query={k: ""})
for h in ("h", "1.2.3.4", "::1", "fe80::1", None):
    for port in (None, 0, 5432):
        chk("host", host=h, port=port, database="d")
print("n", n, dict(fails))
for k, v in ex.items(): print(k, v[:4])
