import itertools, collections, warnings
warnings.simplefilter("ignore")
from sqlalchemy import *
from sqlalchemy import exc
from sqlalchemy.schema import CreateTable, CreateIndex, DropTable, AddConstraint, CreateSequence
from sqlalchemy.dialects import sqlite, postgresql, mysql, mssql, oracle
from sqlalchemy.dialects.postgresql import insert as pg_insert
from sqlalchemy.dialects.sqlite import insert as sl_insert
from sqlalchemy.dialects.mysql import insert as my_insert
m = MetaData()
a = Table("a", m, Column("id", Integer, primary_key=True), Column("x", Integer), Column("s", String(20)), Column("d", DateTime), Column("j", JSON))
b = Table("b", m, Column("id", Integer, primary_key=True), Column("a_id", ForeignKey("a.id")), Column("x", Numeric(10, 2)), schema="sch")
Index("ix_a_x", a.c.x)
dialects = {"default": None, "sqlite": sqlite.dialect(), "pg": postgresql.dialect(), "mysql": mysql.dialect(), "mariadb": mysql.dialect(is_mariadb=True), "mssql": mssql.dialect(), "oracle": oracle.dialect(),
            "pg-asyncpg": __import__("sqlalchemy.dialects.postgresql.asyncpg", fromlist=["x"]).dialect(), "sqlite-numeric": sqlite.dialect(paramstyle="numeric")}
cols = [a.c.x, a.c.s, a.c.x + 1, func.count(a.c.id), a.c.s.concat("z"), case((a.c.x > 1, "p"), else_="q"), cast(a.c.x, String), a.c.x.label("lbl"), literal(5), null(), a.c.j["k"], func.row_number().over(order_by=a.c.x),
        a.c.x.in_([1, 2]), a.c.x.in_([]), a.c.s.like("a%"), a.c.s.startswith("q", autoescape=True), a.c.x.between(1, 3), ~(a.c.x == 1), a.c.x.is_(None), a.c.x.is_distinct_from(2), a.c.x % 3, a.c.x // 2, a.c.x / 2,
        func.coalesce(a.c.x, 0), extract("year", a.c.d), a.c.s.collate("C"), tuple_(a.c.x, a.c.id).in_([(1, 2)]), exists().where(b.c.a_id == a.c.id), select(func.max(b.c.x)).scalar_subquery(), a.c.s.regexp_match("^a"),
        a.c.x.bitwise_xor(3), type_coerce(a.c.x, String), a.c.x.desc().nulls_last(), func.lower(a.c.s), a.c.d > func.now(), bindparam("bp", expanding=True), bindparam("lit", 5, literal_execute=True), text("1"), column("adhoc")]
stmts = []
for c in cols:
    stmts.append(("sel", select(c)))
    if hasattr(c, "type") and not isinstance(c, TextClause):
        try: stmts.append(("where", select(a.c.id).where(c if c.type._type_affinity is Boolean else c == c)))
        except Exception: pass
sub = select(a.c.id, a.c.x).where(a.c.x > 1)
stmts += [("subq", select(sub.subquery())), ("cte", select(sub.cte("c1"))), ("rcte", None), ("union", union(sub, sub)), ("union_all_lim", union_all(sub, sub).limit(3)), ("join", select(a, b).join(b)), ("outer", select(a).outerjoin(b).order_by(a.c.id).limit(2).offset(1)),
          ("fetch", select(a).order_by(a.c.id).fetch(2, with_ties=True)), ("distinct", select(a.c.x).distinct()), ("group", select(a.c.x, func.count()).group_by(a.c.x).having(func.count() > 1)), ("forupd", select(a).with_for_update(nowait=True)),
          ("ins", insert(a).values(x=1)), ("ins_ret", insert(a).values(x=1).returning(a.c.id)), ("ins_many", insert(a).values([{"x": 1}, {"x": 2}])), ("ins_sel", insert(a).from_select(["x"], select(b.c.id))), ("ins_cte", insert(a).from_select(["x"], select(sub.cte("q").c.x))),
          ("upd", update(a).where(a.c.id == 1).values(x=a.c.x + 1)), ("upd_ret", update(a).values(x=2).returning(a.c.x)), ("upd_from", update(a).where(a.c.id == b.c.a_id).values(x=b.c.id)), ("del", delete(a).where(a.c.x.in_(select(b.c.id)))), ("del_ret", delete(a).returning(a.c.id)),
          ("pg_upsert", pg_insert(a).values(id=1, x=2).on_conflict_do_update(index_elements=[a.c.id], set_={"x": 3})), ("sl_upsert", sl_insert(a).values(id=1, x=2).on_conflict_do_nothing()), ("my_upsert", my_insert(a).values(id=1, x=2).on_duplicate_key_update(x=5)),
          ("pg_upsert_ret_cte", pg_insert(a).values(id=1).on_conflict_do_update(index_elements=["id"], set_={"x": select(sub.cte("z").c.x).scalar_subquery()}).returning(a.c.id)),
          ("create", CreateTable(a)), ("create_b", CreateTable(b)), ("drop", DropTable(a)), ("index", CreateIndex(list(a.indexes)[0])), ("seq", CreateSequence(Sequence("sq"))), ("values", select(values(column("q", Integer), name="v").data([(1,), (2,)]))),
          ("lateral", select(a.c.id, sub.lateral("l").c.x)), ("tablesample", select(tablesample(a, 10))), ("within_group", select(func.percentile_cont(0.5).within_group(a.c.x))), ("filter", select(func.count().filter(a.c.x > 1))), ("any", select(a).where(a.c.x == any_(select(b.c.id).scalar_subquery()))),
          ("textcols", text("select 1 as q").columns(column("q", Integer)).subquery().select())]
stmts = [(n, s) for n, s in stmts if s is not None]
documented = (exc.CompileError, exc.InvalidRequestError, exc.ArgumentError)
bad = collections.Counter(); first = {}; n = 0; doc = collections.Counter()
# also compositions: statement as subquery / CTE of another
comp = []
for (n1, s1) in stmts:
    if isinstance(s1, Select):
        comp.append((n1 + ">subq", select(s1.subquery())))
        comp.append((n1 + ">cte", select(s1.cte("w"))))
        comp.append((n1 + ">ins_from", insert(a).from_select(["x"], s1) if len(s1.selected_columns) == 1 else None))
        comp.append((n1 + ">exists", select(a.c.id).where(s1.exists())))
for name, s in stmts + [c for c in comp if c[1] is not None]:
    for dn, d in dialects.items():
        for kw in ({}, {"compile_kwargs": {"literal_binds": True}}, {"compile_kwargs": {"render_postcompile": True}}):
            n += 1
            try: str(s.compile(dialect=d, **kw))
            except documented as e: doc[type(e).__name__] += 1
            except Exception as e:
                key = (type(e).__name__, name.split(">")[0] if ">" not in name else name, dn, tuple(kw.get("compile_kwargs", {}))); bad[key] += 1; first.setdefault(key, str(e)[:100])
print("compiles", n, "documented errors", dict(doc), "internal errors", sum(bad.values()))
for k, v in list(first.items())[:40]: print(k, "|", v)
