import sys; sys.path.insert(0, "/tmp/proto")
import pickle, collections, warnings, itertools
warnings.simplefilter("ignore")
from sqlalchemy import create_engine, select, inspect, text, MetaData
from sqlalchemy.orm import Session, selectinload, joinedload, defer, lazyload
from sqlalchemy.ext import serializer
from pm import Base, P, C
e = create_engine("sqlite://"); Base.metadata.create_all(e)
with Session(e) as s:
    s.add(P(id=1, x=10, big="B", children=[C(id=1, y=100), C(id=2, y=200)])); s.commit()
def view(o, depth=1):
    st = inspect(o)
    d = {"key": st.key, "modified": st.modified, "expired": st.expired, "expired_attrs": sorted(st.expired_attributes), "committed": {k: repr(v) for k, v in st.committed_state.items()},
         "loaded": sorted(k for k in st.dict if not k.startswith("_")), "vals": {k: (v if isinstance(v, (int, str, type(None))) else type(v).__name__) for k, v in st.dict.items() if not k.startswith("_")},
         "flags": [n for n in ("transient", "pending", "persistent", "detached") if getattr(st, n)], "callables": sorted(getattr(st, "callables", {}) or {}), "load_path": repr(st.load_path), "load_options": repr(st.load_options)}
    if depth and "children" in st.dict: d["children"] = [view(c, 0)["vals"] for c in st.dict["children"]]
    return d
def makers():
    yield "transient", lambda: (None, P(id=9, x=1))
    def pending():
        s = Session(e); o = P(id=8, x=2, children=[C(id=80)]); s.add(o); return s, o
    yield "pending", pending
    for optname, opt in (("none", ()), ("selectin", (selectinload(P.children),)), ("joined", (joinedload(P.children),)), ("defer", (defer(P.x),)), ("lazy", (lazyload(P.children),))):
        def persistent(opt=opt):
            s = Session(e); o = s.scalars(select(P).options(*opt)).unique().first(); return s, o
        yield "persistent-" + optname, persistent
        def detached(opt=opt):
            s = Session(e); o = s.scalars(select(P).options(*opt)).unique().first(); s.close(); return None, o
        yield "detached-" + optname, detached
    def expired():
        s = Session(e); o = s.get(P, 1); s.expire(o); return s, o
    yield "expired", expired
    def partexp():
        s = Session(e); o = s.get(P, 1); s.expire(o, ["x"]); return s, o
    yield "partially-expired", partexp
    def modified():
        s = Session(e); o = s.get(P, 1); o.x = 11; o.children.pop(); return s, o
    yield "modified", modified
bad = collections.Counter(); first = {}; n = 0
for name, mk in makers():
    for proto in (2, 3, 4, 5):
        s, o = mk(); n += 1
        try:
            v1 = view(o); o2 = pickle.loads(pickle.dumps(o, proto)); v2 = view(o2)
        except Exception as ex:
            bad[(name, "exc", type(ex).__name__)] += 1; first.setdefault((name, "exc", type(ex).__name__), str(ex)[:100]); continue
        finally:
            if s is not None: s.close()
        v1c = dict(v1); v2c = dict(v2)
        # a pickled persistent/pending object comes back detached/transient: flags are expected to change that way
        exp_flags = {"persistent": ["detached"], "pending": ["transient"]}.get(v1["flags"][0], v1["flags"])
        if v2["flags"] != exp_flags: bad[(name, "flags")] += 1; first.setdefault((name, "flags"), (v1["flags"], v2["flags"]))
        for k in ("key", "modified", "expired", "expired_attrs", "committed", "loaded", "vals", "children", "callables", "load_options"):
            if v1.get(k) != v2.get(k): bad[(name, k)] += 1; first.setdefault((name, k), (v1.get(k), v2.get(k)))
# rows / results
with e.connect() as c:
    for sql in ("select 1 as a, 'x' as b", "select id, x from p", "select 1 as a, 2 as a"):
        r = c.execute(text(sql)); rows = r.all()
        for proto in (2, 5):
            n += 1
            back = pickle.loads(pickle.dumps(rows, proto))
            if [tuple(x) for x in back] != [tuple(x) for x in rows] or [list(x._mapping.keys()) for x in back] != [list(x._mapping.keys()) for x in rows]: bad[("row", sql)] += 1
        fr = c.execute(text(sql)).freeze(); back = pickle.loads(pickle.dumps(fr)); n += 1
        if [tuple(x) for x in back().all()] != [tuple(x) for x in rows]: bad[("frozen", sql)] += 1
# metadata + serializer
md2 = pickle.loads(pickle.dumps(Base.metadata)); n += 1
if sorted(md2.tables) != sorted(Base.metadata.tables) or [c.name for c in md2.tables["c"].c] != [c.name for c in Base.metadata.tables["c"].c] or len(md2.tables["c"].foreign_keys) != 1: bad[("metadata",)] += 1
for st in (select(P).where(P.x > 5).order_by(P.id), select(P.id, C.y).join(C).where(C.y.in_([100, 200])), select(P).options(selectinload(P.children))):
    n += 1
    try:
        d = serializer.dumps(st); st2 = serializer.loads(d, Base.metadata)
        with Session(e) as s:
            r1 = [tuple(r) if not hasattr(r[0], "id") else (r[0].id,) for r in s.execute(st).unique().all()]; r2 = [tuple(r) if not hasattr(r[0], "id") else (r[0].id,) for r in s.execute(st2).unique().all()]
        if str(st) != str(st2) or r1 != r2: bad[("serializer", str(st)[:40])] += 1; first.setdefault(("serializer", str(st)[:40]), (str(st2)[:80], r1, r2))
    except Exception as ex: bad[("serializer-exc", type(ex).__name__)] += 1; first.setdefault(("serializer-exc", type(ex).__name__), str(ex)[:100])
print("round trips", n, "problems", {str(k): v for k, v in bad.items()})
for k, v in first.items(): print(k, v)
