import itertools
from sqlalchemy.dialects import sqlite, postgresql, mysql, mssql, oracle
from sqlalchemy.engine import default
alpha = "\"`[].% aA'"
strs = [''.join(t) for n in range(1, 4) for t in itertools.product(alpha, repeat=n)]
for name, d in (("default", default.DefaultDialect()), ("sqlite", sqlite.dialect()), ("pg", postgresql.dialect()), ("mysql", mysql.dialect()), ("mssql", mssql.dialect()), ("oracle", oracle.dialect())):
    p = d.identifier_preparer
    bad_esc = []; bad_unf = []; n = 0
    for s in strs:
        n += 1
        e = p._escape_identifier(s)
        u = p._unescape_identifier(e)
        exp = s.replace("%", "%%") if p._double_percents else s
        if u != exp: bad_esc.append((s, e, u))
    for comps in itertools.chain(((a,) for a in strs[:300]), itertools.product(strs[:40], repeat=2)):
        n += 1
        txt = ".".join(p.quote_identifier(c) for c in comps)
        try: got = list(p.unformat_identifiers(txt))
        except Exception as ex: got = type(ex).__name__
        exp = [c.replace("%", "%%") if p._double_percents else c for c in comps]
        if got != exp: bad_unf.append((comps, txt, got))
    print(name, "paramstyle", d.paramstyle, "n", n, "escape-roundtrip fails", len(bad_esc), bad_esc[:3], "| unformat fails", len(bad_unf), bad_unf[:4])
