from z3 import *
import time
N = DeclareSort('Node')
edge = Function('edge', N, N, BoolSort())
class S:  # sequence as (at, len, mem, pos) with bridging axioms
    def __init__(self, name):
        self.at = Function(name+'_at', IntSort(), N); self.len = Int(name+'_len')
        self.mem = Function(name+'_mem', N, BoolSort()); self.pos = Function(name+'_pos', N, IntSort())
    def ax(self):
        i = Int('i'); x = Const('x', N)
        return [self.len >= 0,
                ForAll([i], Implies(And(0<=i, i<self.len), self.mem(self.at(i))), patterns=[self.at(i)]),
                ForAll([x], Implies(self.mem(x), And(0<=self.pos(x), self.pos(x)<self.len, self.at(self.pos(x))==x)), patterns=[self.mem(x)])]
    def distinct(self):
        i,j = Ints('i j')
        return ForAll([i,j], Implies(And(0<=i, i<j, j<self.len), self.at(i)!=self.at(j)))
    def distinct2(self):  # equivalent via pos: pos(at(i)) == i
        i = Int('i')
        return ForAll([i], Implies(And(0<=i, i<self.len), self.pos(self.at(i))==i), patterns=[self.at(i)])
x,y,p,c,q = Consts('x y p c q', N)
A = S('A'); todo=S('todo'); out=S('out'); todo2=S('todo2')
SetN = ArraySort(N, BoolSort())
todo_set = Function('todo_set', N, BoolSort()); todo_set2 = Function('todo_set2', N, BoolSort())
emitted = Function('emitted', N, BoolSort()); emitted2 = Function('emitted2', N, BoolSort())
rank = Function('rank', N, IntSort()); rank2 = Function('rank2', N, IntSort()); rnd = Int('rnd')
def ready(ts, v): return ForAll([q], Implies(edge(q, v), Not(ts(q))))
def Inv(todo, ts, em, rk, rnd):
    return [todo.distinct2(),
        ForAll([x], ts(x) == todo.mem(x)),
        ForAll([x], A.mem(x) == Xor(em(x), ts(x))),
        ForAll([x], Implies(em(x), And(0 <= rk(x), rk(x) < rnd))),
        ForAll([p,c], Implies(And(edge(p,c), A.mem(p), em(c)), And(em(p), rk(p) < rk(c)))),
        rnd >= 0]
idx = Function('idx', IntSort(), IntSort()); idx2 = Function('idx2', IntSort(), IntSort())
k,k2 = Ints('k k2')
def filtered(res, src, ix, pred):
    return [ForAll([k], Implies(And(0<=k, k<res.len), And(0<=ix(k), ix(k)<src.len, res.at(k)==src.at(ix(k)), pred(res.at(k)))), patterns=[res.at(k)]),
            ForAll([k,k2], Implies(And(0<=k, k<k2, k2<res.len), ix(k)<ix(k2))),
            ForAll([k], Implies(And(0<=k, k<src.len, pred(src.at(k))), res.mem(src.at(k))), patterns=[src.at(k)])]
hyp = A.ax()+todo.ax()+out.ax()+todo2.ax()+[A.distinct2()] + Inv(todo,todo_set,emitted,rank,rnd) \
  + filtered(out, todo, idx, lambda v: ready(todo_set, v)) + [out.len>0] \
  + [ForAll([x], todo_set2(x) == And(todo_set(x), Not(out.mem(x))))] \
  + filtered(todo2, todo, idx2, lambda v: todo_set2(v)) \
  + [ForAll([x], emitted2(x) == Or(emitted(x), out.mem(x))), ForAll([x], rank2(x) == If(out.mem(x), rnd, rank(x)))]
def prove(name, hyp, goal, timeout=60000):
    s = Solver(); s.set('timeout', timeout); s.add(hyp); s.add(Not(goal))
    t=time.time(); r = s.check(); print(name, r, '%.2fs'%(time.time()-t)); return r
goals = Inv(todo2, todo_set2, emitted2, rank2, rnd+1)
for i,g in enumerate(goals): prove('preserve[%d]'%i, hyp, g)
prove('progress', hyp, todo2.len < todo.len)
prove('sanity-should-fail', hyp, todo2.len == todo.len, 10000)
prove('vacuity(hyp sat?)', hyp, BoolVal(False), 20000)
