import itertools, collections, warnings
warnings.simplefilter("ignore")
from sqlalchemy import *
from sqlalchemy.dialects import sqlite, postgresql, mysql, mssql, oracle
from sqlalchemy.util import LRUCache
m = MetaData()
a = Table("a", m, Column("id", Integer, primary_key=True), Column("x", Integer), Column("s", String(20)))
b = Table("b", m, Column("id", Integer, primary_key=True), Column("a_id", ForeignKey("a.id")), Column("x", Numeric(10, 2)))
def variants():
    out = []
    for v in (1, 2, None):
        for op in ("eq", "gt", "in", "like", "between"):
            for col in (a.c.x, a.c.s, b.c.x):
                try:
                    crit = {"eq": lambda: col == v, "gt": lambda: col > v, "in": lambda: col.in_([v, 5]), "like": lambda: col.like(str(v)), "between": lambda: col.between(v, 9)}[op]()
                except Exception: continue
                out.append(select(a.c.id).where(crit))
                out.append(select(a.c.id, b.c.id).join(b).where(crit).order_by(a.c.id).limit(v or 3))
                out.append(update(a).where(crit).values(x=v))
                out.append(delete(a).where(crit))
    for n1 in (1, 2, 3):
        out.append(select(a.c.id).where(a.c.x.in_(list(range(n1)))))
        out.append(select(literal(n1)))
        out.append(select(literal(str(n1))))
        out.append(select(a.c.id).limit(n1).offset(n1))
        out.append(select(a.c.x.label("l%d" % n1)))
        out.append(select(cast(a.c.x, String(n1))))
        out.append(select(func.coalesce(a.c.x, n1)))
        out.append(select(a.c.id).where(a.c.x == bindparam("p%d" % n1, n1)))
        out.append(select(a.c.id).where(a.c.x == bindparam("p", n1, literal_execute=True)))
        out.append(select(a.c.id).with_hint(a, "h%d" % n1))
        out.append(select(a.c.id).prefix_with("/*%d*/" % n1))
        out.append(select(a.c.id).with_for_update(nowait=bool(n1 % 2)))
        out.append(select(a.c.id).order_by(a.c.x.desc() if n1 % 2 else a.c.x.asc()))
        out.append(select(case((a.c.x > n1, "y"), else_="n")))
        out.append(select(type_coerce(a.c.x, String if n1 % 2 else Integer)))
        out.append(insert(a).values(x=n1)); out.append(insert(a).values(s=str(n1))); out.append(insert(a).values(x=n1, s="q"))
        out.append(insert(a).values([{"x": i} for i in range(n1)]))
        out.append(select(a.c.id).where(tuple_(a.c.x, a.c.id).in_([(i, i) for i in range(n1)])))
        out.append(select(text("x%d" % n1)))
        out.append(select(a.c.id).execution_options(foo=n1))
        out.append(select(a.c.id).distinct() if n1 % 2 else select(a.c.id))
        out.append(select(a.alias("al%d" % n1).c.id))
        out.append(select(a.c.id).set_label_style(LABEL_STYLE_TABLENAME_PLUS_COL if n1 % 2 else LABEL_STYLE_NONE))
        out.append(select(func.count().over(partition_by=a.c.x, rows=(None, n1))))
        out.append(select(a.c.x.op("%%" if n1 == 1 else "&")(3)))
    return out
stmts = variants()
D = [sqlite.dialect(), postgresql.dialect(), mysql.dialect(), mssql.dialect(), oracle.dialect()]
keys = []
for s in stmts:
    k = s._generate_cache_key(); keys.append(k.key if k else None)
bad = collections.Counter(); first = {}; n = 0
def comp(s, d):
    try:
        c = s.compile(dialect=d); return (c.string, tuple(sorted((k, type(v.type).__name__, repr(getattr(v.type, "length", None))) for k, v in c.binds.items())))
    except Exception as e: return ("EXC", type(e).__name__)
fresh = [[comp(s, d) for d in D] for s in stmts]
groups = collections.defaultdict(list)
for i, k in enumerate(keys):
    if k is not None: groups[k].append(i)
for k, idxs in groups.items():
    for i, j in itertools.combinations(idxs, 2):
        n += 1
        for di, d in enumerate(D):
            if fresh[i][di] != fresh[j][di]:
                key = ("equal-key-different-sql", d.name); bad[key] += 1; first.setdefault(key, (str(stmts[i])[:100], str(stmts[j])[:100], fresh[i][di][0][:100], fresh[j][di][0][:100]))
# cached path: for every statement, through a shared cache, params must equal fresh params
for d in D:
    cache = LRUCache(500)
    for rounds in range(2):
        for i, s in enumerate(stmts):
            n += 1
            try:
                compiled, ext, pd, hit = s._compile_w_cache(d, compiled_cache=cache, column_keys=[])
                got = (compiled.string, compiled.construct_params(extracted_parameters=ext, _collected_params=pd, escape_names=False))
                f = s.compile(dialect=d); exp = (f.string, f.construct_params(escape_names=False))
            except Exception as e:
                if fresh[i][D.index(d)][0] == "EXC": continue
                key = ("cached-exc", d.name, type(e).__name__); bad[key] += 1; first.setdefault(key, (str(s)[:100], str(e)[:100])); continue
            if got != exp:
                key = ("cached!=fresh", d.name, "sql" if got[0] != exp[0] else "params"); bad[key] += 1; first.setdefault(key, (str(s)[:120], got, exp))
print("statements", len(stmts), "distinct keys", len(groups), "checks", n, "problems", {str(k): v for k, v in bad.items()})
for k, v in first.items(): print(k, v)
shown = 0
for k, idxs in groups.items():
    for i, j in itertools.combinations(idxs, 2):
        if fresh[i][0] != fresh[j][0] and shown < 6:
            shown += 1; print("PAIR", str(stmts[i]).replace("\n", " ")[:90], "||", str(stmts[j]).replace("\n", " ")[:90]); print("   ", fresh[i][0]); print("   ", fresh[j][0])
