import sys; sys.path.insert(0, "/tmp/proto")
from pure import load_pure
import itertools, collections, datetime, decimal
import sqlalchemy
from sqlalchemy.util import _collections_cy as cc, _immutabledict_cy as ci
from sqlalchemy.engine import _processors_cy as cp, _util_cy as cu, _row_cy as cr
from sqlalchemy.sql import _util_cy as su
pc, pi, pp, pu, pr, psu = (load_pure(n) for n in ("sqlalchemy.util._collections_cy", "sqlalchemy.util._immutabledict_cy", "sqlalchemy.engine._processors_cy", "sqlalchemy.engine._util_cy", "sqlalchemy.engine._row_cy", "sqlalchemy.sql._util_cy"))
print("compiled:", cc._is_compiled(), " pure:", pc._is_compiled())
def outcome(f):
    try: return ("ok", f())
    except Exception as e: return ("exc", type(e).__name__)
diffs = collections.Counter(); first = {}; n = 0
def cmp(label, fa, fb, norm=lambda x: x):
    global n; n += 1
    a, b = outcome(fa), outcome(fb)
    if a[0] == "ok": a = ("ok", norm(a[1]))
    if b[0] == "ok": b = ("ok", norm(b[1]))
    if a != b: diffs[label] += 1; first.setdefault(label, (a, b))
pool = [1, 2, 3]
lists = [list(t) for k in range(0, 4) for t in itertools.product(pool, repeat=k)]
meths = ["union", "update", "intersection", "intersection_update", "difference", "difference_update", "symmetric_difference", "symmetric_difference_update", "__or__", "__and__", "__sub__", "__xor__", "__ior__", "__iand__", "__isub__", "__ixor__"]
for L0 in [l for l in lists if len(set(l)) == len(l)]:
    for arg in lists:
        for kind in ("list", "iter", "set"):
            if kind == "set" and len(set(arg)) != len(arg): continue
            for meth in meths:
                def run(mod):
                    s = mod.OrderedSet(L0); a = {"list": list(arg), "iter": iter(list(arg)), "set": set(arg)}[kind]
                    r = getattr(s, meth)(a)
                    return (list(s), sorted(set(s)), None if r is None else (list(r) if hasattr(r, "__iter__") else r), r is s)
                cmp(("OrderedSet", meth, kind), lambda: run(cc), lambda: run(pc), norm=lambda t: t if kind != "set" else (sorted(t[0]), t[1], sorted(t[2]) if t[2] else t[2], t[3]))
    for m_, args in (("add", (9,)), ("add", (1,)), ("remove", (1,)), ("remove", (9,)), ("discard", (9,)), ("pop", ()), ("insert", (0, 9)), ("insert", (-5, 9)), ("insert", (99, 9)), ("clear", ()), ("copy", ()), ("__getitem__", (0,)), ("__getitem__", (-9,))):
        def run2(mod):
            s = mod.OrderedSet(L0); r = getattr(s, m_)(*args); return (list(s), sorted(set(s)), list(r) if isinstance(r, mod.OrderedSet) else r)
        cmp(("OrderedSet", m_, args), lambda: run2(cc), lambda: run2(pc))
# immutabledict
dicts = [None, {}, {"a": 1}, {"a": 2, "b": 3}]
for d0 in dicts[1:]:
    for others in itertools.product(dicts, repeat=2):
        for wrap in (dict, "imm"):
            def run3(mod):
                base = mod.immutabledict(d0); os_ = [o if o is None else (mod.immutabledict(o) if wrap == "imm" else dict(o)) for o in others]
                r = base.union(*os_); return (dict(r), type(r).__name__, r is base, dict(base))
            cmp(("immutabledict.union", wrap), lambda: run3(ci), lambda: run3(pi))
    for m_, args in (("__setitem__", ("k", 1)), ("__delitem__", ("a",)), ("clear", ()), ("pop", ("a",)), ("popitem", ()), ("setdefault", ("k", 1)), ("update", ({"k": 1},)), ("__ior__", ({"k": 1},)), ("__or__", ({"k": 1},)), ("__ror__", ({"k": 1},)), ("copy", ())):
        def run4(mod):
            base = mod.immutabledict(d0); r = getattr(base, m_)(*args); return (dict(base), dict(r) if isinstance(r, dict) else r, type(r).__name__)
        cmp(("immutabledict", m_), lambda: run4(ci), lambda: run4(pi))
# processors
vals = [None, 0, 1, 2, -1, True, False, "1", "x", 1.5, decimal.Decimal("1.25"), "2020-01-02", "2020-01-02 03:04:05", "2020-01-02 03:04:05.123456", "03:04:05", "bad", b"x", "", "2020-13-45"]
for fn in ("int_to_boolean", "to_str", "to_float", "str_to_datetime", "str_to_time", "str_to_date"):
    for v in vals:
        cmp(("processors", fn), lambda: getattr(cp, fn)(v), lambda: getattr(pp, fn)(v), norm=repr)
for scale in (0, 2, 10):
    for v in vals:
        cmp(("to_decimal", scale), lambda: cp.to_decimal_processor_factory(decimal.Decimal, scale)(v), lambda: pp.to_decimal_processor_factory(decimal.Decimal, scale)(v), norm=repr)
# engine _util_cy
params = [None, (), [], {}, {"a": 1}, [{"a": 1}], [{"a": 1}, {"a": 2}], (1, 2), [(1, 2)], [(1, 2), (3, 4)], [[1, 2]], [1, 2], "abc", 5, [{"a": 1}, (1,)], ({"a": 1},), [()], [[]], [{}]]
for fn in ("_distill_params_20", "_distill_raw_params"):
    for p_ in params:
        cmp(("engine_util", fn), lambda: getattr(cu, fn)(p_), lambda: getattr(pu, fn)(p_), norm=repr)
print("comparisons", n, "differences", sum(diffs.values()))
for k, v in first.items(): print(k, diffs[k], v)
