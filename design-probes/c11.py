import itertools, collections, warnings
warnings.simplefilter("ignore")
from sqlalchemy import *
from sqlalchemy import exc
bad = collections.Counter(); first = {}; n = 0
for label_length in (None, 12):
    e = create_engine("sqlite://", label_length=label_length)
    m = MetaData()
    a = Table("a", m, Column("id", Integer, primary_key=True), Column("x", Integer), Column("a_very_long_column_name_one", Integer), Column("y", Integer))
    b = Table("b", m, Column("id", Integer, primary_key=True), Column("x", Integer), Column("a_very_long_column_name_one", Integer), Column("a_id", Integer))
    m.create_all(e)
    with e.begin() as c:
        c.execute(insert(a).values(id=1, x=2, a_very_long_column_name_one=3, y=4)); c.execute(insert(b).values(id=5, x=6, a_very_long_column_name_one=7, a_id=1))
    val = {a.c.id: 1, a.c.x: 2, a.c.a_very_long_column_name_one: 3, a.c.y: 4, b.c.id: 5, b.c.x: 6, b.c.a_very_long_column_name_one: 7, b.c.a_id: 1}
    colsets = []
    allcols = list(val)
    for k in (1, 2, 3):
        for cs in itertools.permutations(allcols, k): colsets.append(cs)
    colsets = colsets[::7]
    for cs in colsets:
        for style in (LABEL_STYLE_NONE, LABEL_STYLE_TABLENAME_PLUS_COL, LABEL_STYLE_DISAMBIGUATE_ONLY):
            for shape in ("plain", "labels", "subquery", "union", "cte", "dup"):
                exprs = list(cs); expect = {}
                if shape == "labels":
                    exprs = [c_.label(f"l{i}") for i, c_ in enumerate(cs)]
                    expect = {ex: val[c_] for ex, c_ in zip(exprs, cs)}; expect.update({f"l{i}": val[c_] for i, c_ in enumerate(cs)})
                    stmt = select(*exprs).select_from(a.join(b, a.c.id == b.c.a_id))
                elif shape == "dup":
                    exprs = list(cs) + [cs[0]]
                    stmt = select(*exprs).select_from(a.join(b, a.c.id == b.c.a_id)); expect = {c_: val[c_] for c_ in cs}
                elif shape in ("subquery", "cte"):
                    inner = select(*cs).select_from(a.join(b, a.c.id == b.c.a_id)).set_label_style(LABEL_STYLE_TABLENAME_PLUS_COL)
                    sq = inner.subquery() if shape == "subquery" else inner.cte("q")
                    stmt = select(sq); expect = {sq_c: val[c_] for sq_c, c_ in zip(sq.c, cs)}
                elif shape == "union":
                    s1 = select(*cs).select_from(a.join(b, a.c.id == b.c.a_id)); stmt = union_all(s1, s1); expect = {c_: val[c_] for c_ in cs} if len({c_.name for c_ in cs}) == len(cs) else {}
                else:
                    stmt = select(*cs).select_from(a.join(b, a.c.id == b.c.a_id)); expect = {c_: val[c_] for c_ in cs}
                if shape in ("plain", "labels", "dup"): stmt = stmt.set_label_style(style)
                n += 1
                with e.connect() as c:
                    try: row = c.execute(stmt).first()
                    except Exception as ex:
                        key = (shape, "exec", type(ex).__name__); bad[key] += 1; first.setdefault(key, (str(stmt)[:80], str(ex)[:80])); continue
                for k, v in expect.items():
                    try: got = row._mapping[k]
                    except exc.InvalidRequestError: got = "AMBIG"
                    except Exception as ex: got = ("EXC", type(ex).__name__)
                    if got != v:
                        key = (shape, str(style).split(".")[-1] if shape in ("plain", "labels", "dup") else "-", "wrong" if got not in ("AMBIG",) and not isinstance(got, tuple) else got)
                        bad[key] += 1; first.setdefault(key, (label_length, [str(x) for x in cs], str(k), got, v))
                # positional sanity
                if shape in ("plain", "labels") and tuple(row) != tuple(val[c_] for c_ in cs): bad[(shape, "positional")] += 1
print("selects", n, "problems", {str(k): v for k, v in bad.items()})
for k, v in first.items(): print(k, v)
