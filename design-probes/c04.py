import re, collections, warnings, itertools
warnings.simplefilter("ignore")
from sqlalchemy import *
from sqlalchemy.dialects import sqlite
m = MetaData()
a = Table("a", m, Column("id", Integer, primary_key=True), Column("x", Integer), Column("s", String))
b = Table("b", m, Column("id", Integer, primary_key=True), Column("a_id", ForeignKey("a.id")), Column("x", Integer))
names = ["p", "a.b", "a[1]", "a%b", "a b", "q:r", "x(y)"]
def catalogue():
    for n1, n2 in itertools.product(names, repeat=2):
        p1, p2 = bindparam(n1, 11), bindparam(n2, 22) if n2 != n1 else bindparam(n1, 11)
        yield f"where[{n1},{n2}]", select(a.c.id, literal(7)).where(a.c.x > p1).where(a.c.x < p2).order_by(a.c.x + 3).limit(5).offset(2)
        yield f"cte[{n1},{n2}]", select(select(a.c.id).where(a.c.x == p1).cte("c")).where(column("id") != p2)
        yield f"subq[{n1},{n2}]", select(a.c.id, select(func.max(b.c.x)).where(b.c.x > p2).scalar_subquery()).where(a.c.x.in_([1, 2, 3])).where(a.c.s == p1).having(func.count() > 4).group_by(a.c.id)
        yield f"upd[{n1},{n2}]", update(a).where(a.c.x == p1).values(s=p2, x=a.c.x + 9).returning(a.c.id + 5)
        yield f"ins[{n1},{n2}]", insert(a).values(x=p1, s=p2).returning(a.c.id, literal(8))
        yield f"expanding[{n1}]", select(a.c.id).where(a.c.x.in_(bindparam(n1, [4, 5, 6], expanding=True))).where(a.c.s == "z").where(a.c.x == bindparam("le", 9, literal_execute=True))
bad = collections.Counter(); first = {}; n = 0
for label, st in catalogue():
    ref = st.compile(dialect=sqlite.dialect(paramstyle="named"), compile_kwargs={"render_postcompile": True})
    ref_params = ref.params
    # reference evaluation: substitute each named placeholder with the repr of its value -> fully literal SQL text
    def literalize_named(c):
        s = c.string; params = c.construct_params(escape_names=False)
        esc = c.escaped_bind_names
        out = s
        for k in sorted(params, key=len, reverse=True):
            ek = esc.get(k, k)
            out = re.sub(r":" + re.escape(ek) + r"(?![A-Za-z0-9_])", lambda m_: repr(params[k]), out)
        return out
    want = literalize_named(ref)
    for ps in ("qmark", "format", "numeric", "numeric_dollar", "pyformat"):
        n += 1
        d = sqlite.dialect(paramstyle=ps)
        try:
            c = st.compile(dialect=d, compile_kwargs={"render_postcompile": True})
            params = c.construct_params(escape_names=False)
            if c.positional:
                tup = [params[k] for k in c.positiontup]
                if ps == "qmark": parts = c.string.split("?"); assert len(parts) - 1 == len(tup), (len(parts) - 1, len(tup)); got = "".join(p + (repr(v) if i < len(tup) else "") for i, (p, v) in enumerate(itertools.zip_longest(parts, tup)))
                elif ps == "format": parts = c.string.replace("%%", "\0").split("%s"); assert len(parts) - 1 == len(tup); got = "".join(p + (repr(v) if i < len(tup) else "") for i, (p, v) in enumerate(itertools.zip_longest(parts, tup))).replace("\0", "%")
                else:
                    ch = ":" if ps == "numeric" else "$"
                    got = re.sub(re.escape(ch) + r"(\d+)", lambda m_: repr(tup[int(m_.group(1)) - 1]), c.string)
            else:
                esc = c.escaped_bind_names; got = c.string
                for k in sorted(params, key=len, reverse=True):
                    got = got.replace("%(" + esc.get(k, k) + ")s", repr(params[k]))
                got = got.replace("%%", "%")
            w = want
        except AssertionError as e: got = ("COUNT", e.args); w = want
        except Exception as e: got = ("EXC", type(e).__name__, str(e)[:80]); w = want
        if got != w:
            key = (ps, label.split("[")[0], got[0] if isinstance(got, tuple) else "text"); bad[key] += 1; first.setdefault(key, (label, got, w))
print("checked", n, "mismatches", sum(bad.values()))
for k, v in first.items(): print(k, bad[k], v)
