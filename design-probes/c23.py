import itertools, collections, warnings, os, tempfile
warnings.simplefilter("ignore")
from sqlalchemy import create_engine, text, exc, event
path = tempfile.mktemp(suffix=".db")
e = create_engine(f"sqlite:///{path}")
# make pysqlite honour savepoints / transactional DDL the documented way
@event.listens_for(e, "connect")
def _c(dbapi_con, rec): dbapi_con.isolation_level = None
@event.listens_for(e, "begin")
def _b(conn): conn.exec_driver_sql("BEGIN")
with e.begin() as c: c.exec_driver_sql("create table t (k integer)")
def committed():
    with e.connect() as c2: return sorted(r[0] for r in c2.exec_driver_sql("select k from t"))
class Model:
    def __init__(s): s.frames = None; s.committed = []      # frames: list of lists (root first) or None
    def intx(s): return s.frames is not None
    def nested(s): return s.frames is not None and len(s.frames) > 1
OPS = ["begin", "begin_nested", "commit", "rollback", "ins", "t.commit", "t.rollback", "t.close", "n.commit", "n.rollback", "n.close", "close"]
bad = collections.Counter(); first = {}; raised = collections.Counter(); n = 0
for seq in itertools.product(OPS, repeat=4):
    with e.begin() as c0: c0.exec_driver_sql("delete from t")
    conn = e.connect(); M = Model(); T = None; N = []; k = 0; closed = False; trace = []
    for op in seq:
        n += 1; err = None; pre = (M.frames and [list(f) for f in M.frames], list(M.committed))
        try:
            if op == "begin": T = conn.begin()
            elif op == "begin_nested": N.append(conn.begin_nested())
            elif op == "commit": conn.commit()
            elif op == "rollback": conn.rollback()
            elif op == "ins": k += 1; conn.execute(text("insert into t values (:k)"), {"k": k})
            elif op == "close": conn.close()
            elif op.startswith("t."):
                if T is None: continue
                getattr(T, op[2:])()
            elif op.startswith("n."):
                if not N: continue
                getattr(N[-1], op[2:])()
        except Exception as ex: err = type(ex).__name__
        trace.append((op, err))
        raised[(op, err)] += 1
        # we do not predict errors; we only check observable consistency after every step
        try:
            it, inn = conn.in_transaction(), conn.in_nested_transaction()
        except Exception as ex: it = inn = None
        if op == "close" or conn.closed:
            # everything uncommitted is gone
            pass
        obs = committed()
        trace[-1] += (it, inn, tuple(obs))
        if inn and not it: bad["nested-without-root"] += 1; first.setdefault("nested-without-root", trace[:])
        if conn.closed and (it or inn): bad["closed-in-tx"] += 1; first.setdefault("closed-in-tx", trace[:])
    conn.close()
    # after close nothing uncommitted may be visible later, and the set of rows must be a subset of inserted
    final = committed()
    if any(v > k for v in final): bad["phantom"] += 1
    # replay against reference model with sqlite3 directly, using the same sequence of *effective* SQL emitted? (skipped in pre-run)
print("steps", n, "invariant problems", dict(bad))
for kx, v in first.items(): print(kx, v)
print("exception classes per op:"); 
for (op, err), cnt in sorted(raised.items(), key=str): 
    if err: print("  ", op, err, cnt)
os.unlink(path)
