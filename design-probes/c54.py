import itertools, collections
from sqlalchemy.util import OrderedSet, IdentitySet, immutabledict, LRUCache
# ---- OrderedSet vs model: list without dups, first-insertion order
def uniq(s):
    out=[]; 
    for x in s:
        if x not in out: out.append(x)
    return out
def m_update(L, *its): return L + uniq([x for it in its for x in it if x not in L])
model = {
 "union": lambda L,o: m_update(L,o), "update": lambda L,o: m_update(L,o), "__or__": lambda L,o: m_update(L,o), "__ior__": lambda L,o: m_update(L,o),
 "intersection": lambda L,o: [a for a in L if a in o], "intersection_update": lambda L,o: [a for a in L if a in o], "__and__": lambda L,o:[a for a in L if a in o], "__iand__": lambda L,o:[a for a in L if a in o],
 "difference": lambda L,o: [a for a in L if a not in o], "difference_update": lambda L,o: [a for a in L if a not in o], "__sub__": lambda L,o:[a for a in L if a not in o], "__isub__": lambda L,o:[a for a in L if a not in o],
 "symmetric_difference": lambda L,o: [a for a in L if a not in o] + uniq([a for a in o if a not in L]),
 "symmetric_difference_update": lambda L,o: [a for a in L if a not in o] + uniq([a for a in o if a not in L]),
 "__xor__": lambda L,o: [a for a in L if a not in o] + uniq([a for a in o if a not in L]), "__ixor__": lambda L,o: [a for a in L if a not in o] + uniq([a for a in o if a not in L]),
}
inplace = {"update","intersection_update","difference_update","symmetric_difference_update","__ior__","__iand__","__isub__","__ixor__"}
pool = [1,2,3]
lists = [list(t) for n in range(0,4) for t in itertools.product(pool, repeat=n)]
fails = collections.Counter(); ex = {}
n=0
for L0 in [l for l in lists if len(set(l))==len(l)]:
    for arg in lists:
        for kind in ("list","tuple","iter","set","oset"):
            if kind=="set" and len(set(arg))!=len(arg): continue
            if kind=="oset" and len(set(arg))!=len(arg): continue
            for meth, mf in model.items():
                if meth.startswith("__") and kind not in ("set","oset"): continue
                s = OrderedSet(L0)
                a = {"list": list(arg), "tuple": tuple(arg), "iter": iter(list(arg)), "set": set(arg), "oset": OrderedSet(arg)}[kind]
                n+=1
                try: r = getattr(s, meth)(a)
                except Exception as e: fails[(meth,kind,type(e).__name__)]+=1; ex.setdefault((meth,kind,type(e).__name__),(L0,arg)); continue
                tgt = s if meth in inplace else r
                got = list(tgt)
                exp = mf(L0, arg)
                ok = (sorted(got)==sorted(exp) and len(got)==len(set(got)) and set(got)==set(tgt) and len(tgt)==len(got)) if kind=="set" else (got==exp and set(tgt)==set(got) and len(tgt)==len(got))
                if meth not in inplace and list(s)!=L0: ok=False
                if meth.startswith("__i") and r is not s: ok=False
                if not ok: fails[(meth,kind)]+=1; ex.setdefault((meth,kind),(L0,arg,got,exp))
print("OrderedSet evals", n, dict(fails)); 
for k,v in ex.items(): print("  ",k,v)
# ---- IdentitySet
class O: 
    def __init__(s,n): s.n=n
    def __repr__(s): return "o%d"%s.n
objs=[O(i) for i in range(3)]
subs=[list(t) for n in range(0,3) for t in itertools.permutations(objs,n)]
ops = {"union": lambda a,b:a|b, "difference": lambda a,b:a-b, "intersection": lambda a,b:a&b, "symmetric_difference": lambda a,b:a^b}
fails=collections.Counter(); ex={}
for A in subs:
    for B in subs:
        for name,f in ops.items():
            exp = f(set(map(id,A)), set(map(id,B)))
            for form in ("method","operator","update","ioperator"):
                s=IdentitySet(A); t=IdentitySet(B)
                if form=="method": r=getattr(s,name)(t)
                elif form=="operator": r={"union":s.__or__,"difference":s.__sub__,"intersection":s.__and__,"symmetric_difference":s.__xor__}[name](t)
                elif form=="update": getattr(s, "update" if name=="union" else name+"_update")(t); r=s
                else:
                    r={"union":s.__ior__,"difference":s.__isub__,"intersection":s.__iand__,"symmetric_difference":s.__ixor__}[name](t)
                    if r is not s: fails[(name,form,"not self")]+=1
                    r=s
                got=set(map(id,r))
                if got!=exp or len(r)!=len(exp): fails[(name,form)]+=1; ex.setdefault((name,form),(A,B,list(r)))
print("IdentitySet", dict(fails), ex)
