import importlib.util, sys
def load_py(name, path):
    spec = importlib.util.spec_from_file_location(name, path, submodule_search_locations=None); m = importlib.util.module_from_spec(spec); spec.loader.exec_module(m); return m
from sqlalchemy.util import OrderedSet, IdentitySet
import sqlalchemy.util._collections_cy as cy
print("compiled:", cy._is_compiled())
pyc = load_py("sqlalchemy.util._purecoll", "/repo/lib/sqlalchemy/util/_collections_cy.py")
for label, OS, IS in (("so", OrderedSet, IdentitySet), ("py", pyc.OrderedSet, pyc.IdentitySet)):
    s = OS([1]); s.symmetric_difference_update([2,2]); print(label, "OrderedSet sdu dup:", list(s), len(s))
    a,b,c = object(),object(),object()
    i = IS([a,b]); j = IS([b,c]); i ^= j; print(label, "IdentitySet ixor len (expect 2):", len(i))
from sqlalchemy.orm.collections import InstrumentedList
from sqlalchemy.orm import collections as oc
class L(list): pass
oc._instrument_class(L)
def tryit(f):
    l = L([0,1,2]); m=[0,1,2]
    try: f(l); r1=list(l)
    except Exception as e: r1=type(e).__name__
    try: f(m); r2=m
    except Exception as e: r2=type(e).__name__
    print("  instrumented", r1, "list", r2, "OK" if r1==r2 else "DIVERGE")
print("setitem slices:")
def f1(l): l[-5:2] = ['x']
def f2(l): l[::-1] = ['a','b','c']
def f3(l): l[::0] = ['a']
def f4(l): l[1:5] = ['a']
def f5(l): l[2:1] = ['a']
def f6(l): l[-1:] = ['a','b']
def f7(l): l[:-5] = ['a']
for f in (f1,f2,f3,f4,f5,f6,f7): tryit(f)
from sqlalchemy.ext.orderinglist import OrderingList
class E:
    def __init__(s,n): s.n=n; s.position=None
    def __repr__(s): return f"{s.n}@{s.position}"
ol = OrderingList('position'); 
for n in "abc": ol.append(E(n))
try:
    ol[1:3] = [E('x'), E('y')]; print("orderinglist slice set:", ol)
except Exception as e: print("orderinglist slice set raised", type(e).__name__, e)
ol = OrderingList('position'); 
for n in "abc": ol.append(E(n))
ol[-1] = E('z'); print("orderinglist neg idx:", ol)
from sqlalchemy.engine import make_url, URL
for u in (URL.create("d", query={"a": ""}), URL.create("d", username=None, password="p", host="h"), URL.create("d", query={"a": ("x",)}), URL.create("d", username="", password="", host="h", database="")):
    s = u.render_as_string(hide_password=False); print(repr(s), make_url(s) == u, make_url(s))
import sqlite3
con = sqlite3.connect(":memory:")
from sqlalchemy.dialects.sqlite.base import RESERVED_WORDS
for w in ("returning","nothing","window","filter","over","generated","always","materialized","do","within","rows","range","groups","exclude","others","ties","first","last","nulls","partition","preceding","following","unbounded","current"):
    try:
        con.execute(f"create table t_{w} ({w} int)"); con.execute(f"select {w} from t_{w}"); ok=True
    except Exception as e: ok=False
    print(w, "usable-unquoted" if ok else "FAILS-unquoted", "in RESERVED" if w in RESERVED_WORDS else "not-reserved")
