import sqlite3
from sqlalchemy.dialects.sqlite.base import SQLiteIdentifierPreparer as P
from sqlalchemy.util import IdentitySet
a,b,c = object(),object(),object()
i = IdentitySet([a,b]); j = IdentitySet([b,c]); i ^= j; print("IdentitySet ixor contains c (expect True):", c in i, " contains b (expect False):", b in i)
R = P.reserved_words
con = sqlite3.connect(":memory:")
bad=[]
for w in ("returning","nothing","window","filter","over","generated","always","materialized","do","within","rows","range","groups","exclude","others","ties","first","last","nulls","partition","preceding","following","unbounded","current","true","false","recursive","without","with"):
    try:
        con.execute(f"create table t_{w} ({w} int)"); con.execute(f"select {w} from t_{w}"); con.execute(f"insert into t_{w} ({w}) values (1)");ok=True
    except Exception as e: ok=False
    print(w, "usable-unquoted" if ok else "FAILS-unquoted", "in RESERVED" if w in R else "not-reserved")
