import itertools, collections, warnings
warnings.simplefilter("ignore")
from sqlalchemy import Column, Integer, String, create_engine, select, and_, or_, not_, null, true, false
from sqlalchemy.orm import declarative_base, Session
from sqlalchemy.orm.evaluator import _EvaluatorCompiler, UnevaluatableError
Base = declarative_base()
class A(Base):
    __tablename__ = 'a'; id = Column(Integer, primary_key=True); x = Column(Integer); y = Column(Integer); s = Column(String)
e = create_engine("sqlite://"); Base.metadata.create_all(e)
vals = [None, -7, 0, 3]; svals = [None, "", "a%", "ab", "A_"]
rows = []
with Session(e) as s0:
    i = 0
    for x in vals:
        for y in vals:
            for sv in svals:
                i += 1; rows.append(A(id=i, x=x, y=y, s=sv))
    s0.add_all(rows); s0.commit()
ev = _EvaluatorCompiler(A)
atoms = {
 "x>1": A.x > 1, "x==y": A.x == A.y, "x!=y": A.x != A.y, "x<=y": A.x <= A.y, "x is None": A.x.is_(None), "x is not None": A.x.is_not(None), "x in (1,3)": A.x.in_([1, 3]), "x in (3,NULL)": A.x.in_([3, None]),
 "x not in (3,NULL)": A.x.not_in([3, None]), "x not in (0,3)": A.x.not_in([0, 3]), "x in ()": A.x.in_([]), "x not in ()": A.x.not_in([]), "x+y>0": A.x + A.y > 0, "x*y==0": A.x * A.y == 0, "x-y<0": A.x - A.y < 0,
 "x%3==0": A.x % 3 == 0, "x%3==2": A.x % 3 == 2, "x/3==1": A.x / 3 == 1, "x/y==1": A.x / A.y == 1, "x/2>1": A.x / 2 > 1, "s=='ab'": A.s == "ab", "s.startswith('a')": A.s.startswith("a"), "s.startswith('a%')": A.s.startswith("a%"),
 "s.startswith('a%',auto)": A.s.startswith("a%", autoescape=True), "s.endswith('b')": A.s.endswith("b"), "s.endswith('_')": A.s.endswith("_"), "s+'x'=='abx'": A.s + "x" == "abx", "s.contains('b')": A.s.contains("b"),
 "s.like('a%')": A.s.like("a%"), "s.ilike('a_')": A.s.ilike("a_"), "x.between(0,3)": A.x.between(0, 3), "is_true": (A.x > 1).is_(True), "x is distinct from y": A.x.is_distinct_from(A.y), "-x>0": -A.x > 0, "x==None": A.x == None,
 "x!=None": A.x != None, "(x,y) in": None, "x>y or None": or_(A.x > A.y, null() == 1),
}
atoms = {k: v for k, v in atoms.items() if v is not None}
def trees():
    for k, v in atoms.items(): yield k, v
    for (k1, v1), (k2, v2) in itertools.product(list(atoms.items())[:14], repeat=2):
        yield f"({k1}) AND ({k2})", and_(v1, v2); yield f"({k1}) OR ({k2})", or_(v1, v2)
        yield f"NOT(({k1}) AND ({k2}))", not_(and_(v1, v2)); yield f"NOT(({k1}) OR ({k2}))", not_(or_(v1, v2))
    for k, v in atoms.items(): yield f"NOT({k})", not_(v)
cls = collections.Counter(); first = {}; n = 0; uneval = collections.Counter()
with Session(e, expire_on_commit=False) as s:
    objs = s.scalars(select(A)).all()
    for name, crit in trees():
        try: fn = ev.process(crit)
        except UnevaluatableError as ex: uneval[name.split("(")[0][:30]] += 1; continue
        except Exception as ex: cls[("compile-exc", type(ex).__name__, name)] += 1; first.setdefault(("compile-exc", type(ex).__name__, name), str(ex)[:80]); continue
        try: matched = set(s.scalars(select(A.id).where(crit)).all())
        except Exception as ex: cls[("db-exc", name)] += 1; continue
        for o in objs:
            n += 1
            try: r = fn(o)
            except Exception as ex: key = ("eval-exc", type(ex).__name__, name if len(name) < 40 else "composite"); cls[key] += 1; first.setdefault(key, (name, o.x, o.y, o.s)); continue
            if bool(r) != (o.id in matched):
                key = ("desync", name if len(name) < 28 else ("AND/OR/NOT composite")); cls[key] += 1; first.setdefault(key, (name, (o.x, o.y, o.s), r, o.id in matched))
print("evaluations", n, "unevaluatable criteria:", dict(uneval))
for k, v in sorted(cls.items(), key=str): print(k, v, first.get(k))
