import itertools, collections, warnings
warnings.simplefilter("ignore")
from sqlalchemy import Column, Integer, create_engine, event, inspect
from sqlalchemy.orm import declarative_base, Session, make_transient, make_transient_to_detached
Base = declarative_base()
class A(Base):
    __tablename__ = 'a'; id = Column(Integer, primary_key=True); x = Column(Integer)
e = create_engine("sqlite://"); Base.metadata.create_all(e)
EV = ["transient_to_pending", "pending_to_transient", "pending_to_persistent", "persistent_to_transient", "persistent_to_deleted", "deleted_to_persistent", "deleted_to_detached", "persistent_to_detached", "detached_to_persistent", "loaded_as_persistent"]
def state_of(o):
    i = inspect(o); flags = [n for n in ("transient", "pending", "persistent", "deleted", "detached") if getattr(i, n)]
    return flags
rel = collections.Counter(); partition_bad = []; mism = collections.Counter(); firstm = {}
ops = {
 "add": lambda s, o: s.add(o), "delete": lambda s, o: s.delete(o), "expunge": lambda s, o: s.expunge(o), "flush": lambda s, o: s.flush(), "commit": lambda s, o: s.commit(),
 "rollback": lambda s, o: s.rollback(), "close": lambda s, o: s.close(), "begin_nested": lambda s, o: s.begin_nested(), "make_transient": lambda s, o: make_transient(o),
 "mt2d": lambda s, o: make_transient_to_detached(o), "modify": lambda s, o: setattr(o, "x", (o.x or 0) + 1), "refresh": lambda s, o: s.refresh(o), "merge": lambda s, o: s.merge(o), "get": lambda s, o: s.get(A, 1),
}
n = 0
for seq in itertools.product(ops, repeat=4):
    with e.begin() as c: c.exec_driver_sql("delete from a")
    s = Session(e); log = []
    for name in EV:
        event.listen(s, name, lambda sess, st, *a, name=name: log.append((name, st)))
    o = A(id=1)
    for name in seq:
        before = state_of(o); del log[:]
        try: ops[name](s, o); err = None
        except Exception as ex: err = type(ex).__name__
        after = state_of(o); n += 1
        if len(before) != 1 or len(after) != 1: partition_bad.append((seq, name, before, after)); break
        evs = tuple(ev for ev, ob in log if ob is o)
        rel[(before[0], name, after[0], evs, err is not None)] += 1
        # consistency: a change of state must be accompanied by exactly the event named before_to_after
        if before != after:
            want = f"{before[0]}_to_{after[0]}"
            if evs.count(want) != 1 and not (want in ("transient_to_detached", "persistent_to_transient", "detached_to_transient", "deleted_to_transient", "pending_to_detached") and name in ("make_transient", "mt2d")):
                key = (before[0], name, after[0], evs); mism[key] += 1; firstm.setdefault(key, seq)
        else:
            if any(ev.split("_to_")[0] != ev.split("_to_")[-1] for ev in evs if "_to_" in ev):
                # events fired although net state unchanged (e.g. intermediate transitions) – record
                key = (before[0], name, after[0], evs); mism[key] += 1; firstm.setdefault(key, seq)
    s.close()
print("steps", n, "partition violations", len(partition_bad), partition_bad[:2])
print("transition/event mismatches:", len(mism))
for k, v in sorted(mism.items(), key=str): print("  ", k, v, firstm[k])
print("observed relation (before, op, after, events, raised):")
for k, v in sorted(rel.items(), key=str):
    if k[0] != k[2] or k[3]: print("  ", k, v)
