from sqlalchemy import Column, Integer, String, and_, not_, or_, create_engine, select, update, MetaData, Table, ForeignKey, ForeignKeyConstraint
from sqlalchemy.orm import declarative_base, Session
from sqlalchemy.orm.evaluator import _EvaluatorCompiler
Base = declarative_base()
class A(Base):
    __tablename__='a'; id=Column(Integer, primary_key=True); x=Column(Integer); y=Column(Integer); s=Column(String)
e = create_engine("sqlite://"); Base.metadata.create_all(e)
ev = _EvaluatorCompiler(A)
def chk(label, crit, **vals):
    with Session(e, expire_on_commit=False) as sess:
        sess.query(A).delete()
        o = A(id=1, **vals); sess.add(o); sess.commit()
        py = ev.process(crit)(o)
        db = sess.execute(select(A.id).where(crit)).first() is not None
        print(f"{label}: evaluator={py!r} db_matches={db}", "DESYNC" if bool(py) != db else "ok")
chk("8 NOT(x>1 AND y>1), x NULL y 0", not_(and_(A.x > 1, A.y > 1)), x=None, y=0)
chk("9 x NOT IN (1,NULL), x=2", A.x.not_in([1, None]), x=2, y=0)
chk("10 x % 3 == 2, x=-7", A.x % 3 == 2, x=-7, y=0)
chk("11a s.startswith('a%'), s='ab'", A.s.startswith('a%'), s='ab')
chk("11b s.startswith('a%', autoescape), s='a%b'", A.s.startswith('a%', autoescape=True), s='a%b')
# 15
from sqlalchemy.sql.elements import _truncated_label
from sqlalchemy.dialects import sqlite
d = sqlite.dialect(); d.max_identifier_length = 6
print("15:", repr(d.identifier_preparer._truncate_and_render_maxlen_name(_truncated_label("abcdefghijklmnop"), 6, False)))
# 16
from sqlalchemy.sql.ddl import sort_tables_and_constraints
m = MetaData()
ta = Table('ta', m, Column('id', Integer, primary_key=True), Column('b1', Integer), Column('b2', Integer),
           ForeignKeyConstraint(['b1'], ['tb.id'], name='fk_named'), ForeignKeyConstraint(['b2'], ['tb.id']))
tb = Table('tb', m, Column('id', Integer, primary_key=True), Column('a1', Integer), ForeignKeyConstraint(['a1'], ['ta.id'], name='fk_ba'))
flt = lambda fkc: False if fkc.name is None else None
for order in ([ta, tb], [tb, ta]):
    res = sort_tables_and_constraints(order, filter_fn=flt)
    names = [t.name for t,_ in res[:-1]]
    bad = []
    for i,(t,fkcs) in enumerate(res[:-1]):
        for f in fkcs:
            if f.referred_table is not t and f.referred_table.name not in names[:i]: bad.append((t.name, f.name, f.referred_table.name))
    print("16 order", [t.name for t in order], "->", names, "inline-FK-to-later-table:", bad, "rest:", [f.name for f in res[-1][1]])
# 18
from sqlalchemy.ext.orderinglist import OrderingList
class E:
    def __init__(s,n): s.n=n; s.position=None
    def __repr__(s): return f"{s.n}@{s.position}"
ol = OrderingList('position')
for n in "abc": ol.append(E(n))
ol.reverse(); print("18 reverse:", ol)
