import datetime as dt, decimal, enum, uuid, collections, warnings, json
warnings.simplefilter("ignore")
from sqlalchemy import *
from sqlalchemy.types import TypeDecorator
from sqlalchemy.dialects import sqlite, postgresql, mysql, mssql, oracle
from sqlalchemy.dialects.sqlite import DATETIME, DATE, TIME
class Color(enum.Enum): red = 1; green = "g"; blue = None
class Calls(TypeDecorator):
    impl = String; cache_ok = True
    def process_bind_param(self, value, dialect): Calls.b += 1; return None if value is None else "x" + value
    def process_result_value(self, value, dialect): Calls.r += 1; return None if value is None else value[1:]
Calls.b = Calls.r = 0
D = {"sqlite": sqlite.dialect(), "pg": postgresql.dialect(), "mysql": mysql.dialect(), "mssql": mssql.dialect(), "oracle": oracle.dialect()}
dates = [dt.date(1, 1, 1), dt.date(9999, 12, 31), dt.date(2024, 2, 29), dt.date(1970, 1, 1)]
times = [dt.time(0, 0, 0), dt.time(23, 59, 59, 999999), dt.time(1, 2, 3, 1), dt.time(12, 0)]
dts = [dt.datetime.combine(d, t) for d in dates for t in times]
deltas = [dt.timedelta(0), dt.timedelta(days=-1, microseconds=1), dt.timedelta(days=99999, seconds=86399, microseconds=999999), dt.timedelta(microseconds=-1), dt.timedelta(days=-99999)]
cases = [
 (Boolean(create_constraint=False), [True, False, None]),
 (Interval(native=False), deltas + [None]), (Enum(Color, native_enum=False), list(Color) + [None]), (Enum("a", "b", native_enum=False), ["a", "b", None]),
 (PickleType(), [None, 1, "x", [1, {"a": (1, 2)}], b"\x00", dt.date(2020, 1, 1)]), (Uuid(native_uuid=False), [uuid.UUID(int=0), uuid.UUID(int=2**128 - 1), uuid.uuid4(), None]),
 (Uuid(as_uuid=False, native_uuid=False), [str(uuid.UUID(int=5)), None]), (JSON(), [None, 1, "s", [1, None, {"a": [1.5, "ü"]}], {}, True]),
 (Numeric(10, 2, asdecimal=True), [decimal.Decimal("0.00"), decimal.Decimal("-123.45"), decimal.Decimal("99999999.99"), None]), (Float(asdecimal=True, decimal_return_scale=4), [decimal.Decimal("1.5"), None]),
 (LargeBinary(), [b"", b"\x00\xff", None]), (DATETIME(), dts + [None]), (DATE(), dates + [None]), (TIME(), times + [None]), (DateTime(), dts[:4] + [None]), (Date(), dates + [None]), (Time(), times + [None]),
 (Calls(), ["a", "", None]), (Unicode(), ["ü", "", None]), (Integer(), [0, -2**63, 2**63 - 1, None]), (ARRAY(Integer), [[1, 2], [], None]),
]
bad = collections.Counter(); first = {}; n = 0
for t, vals in cases:
    for dn, d in D.items():
        try:
            impl = t.dialect_impl(d); bp = impl.bind_processor(d); rp = impl.result_processor(d, None)
        except Exception as e:
            bad[(type(t).__name__, dn, "setup", type(e).__name__)] += 1; first.setdefault((type(t).__name__, dn, "setup", type(e).__name__), str(e)[:80]); continue
        for v in vals:
            n += 1
            try:
                stored = bp(v) if bp else v
                # numeric types: the DB returns Decimal/float; emulate a driver that returns float for non-native decimals, str passthrough for others
                back = rp(stored) if rp else stored
            except Exception as e:
                bad[(type(t).__name__, dn, "exc", type(e).__name__)] += 1; first.setdefault((type(t).__name__, dn, "exc", type(e).__name__), (v, str(e)[:80])); continue
            if back != v or type(back) is not type(v):
                if isinstance(t, (Numeric, Float)) and v is not None and decimal.Decimal(str(back)) == v: continue
                bad[(type(t).__name__, dn, "value")] += 1; first.setdefault((type(t).__name__, dn, "value"), (v, stored, back))
print("round trips", n, "problems", sum(bad.values()), "| TypeDecorator calls bind/result:", Calls.b, Calls.r)
for k, v in first.items(): print(k, bad[k], v)
