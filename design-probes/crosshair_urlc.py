from typing import Optional
import sys
sys.path.insert(0, "/repo/lib")
from sqlalchemy.engine.url import URL, make_url

def roundtrip(username: Optional[str], password: Optional[str], database: Optional[str], qk: str, qv: str) -> bool:
    """
    pre: username is None or all(0x20 <= ord(c) < 0xD800 for c in username)
    pre: password is None or all(0x20 <= ord(c) < 0xD800 for c in password)
    pre: database is None or all(0x20 <= ord(c) < 0xD800 for c in database)
    pre: all(0x20 <= ord(c) < 0xD800 for c in qk) and all(0x20 <= ord(c) < 0xD800 for c in qv)
    pre: username is not None or password is None
    pre: len(qk) > 0
    post: __return__
    """
    u = URL.create("d", username=username, password=password, host="h", database=database, query={qk: qv})
    return make_url(u.render_as_string(hide_password=False)) == u
