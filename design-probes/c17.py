import itertools, collections, warnings
warnings.simplefilter("ignore")
from sqlalchemy import *
from sqlalchemy import lambda_stmt, exc
m = MetaData()
a = Table("a", m, Column("id", Integer, primary_key=True), Column("x", Integer), Column("s", String))
b = Table("b", m, Column("id", Integer, primary_key=True), Column("x", Integer))
e = create_engine("sqlite://"); m.create_all(e)
with e.begin() as c:
    c.execute(insert(a), [{"id": i, "x": i % 3, "s": "s%d" % i} for i in range(6)]); c.execute(insert(b), [{"id": i, "x": i} for i in range(3)])
def shape_scalar(v):
    return lambda_stmt(lambda: select(a.c.id).where(a.c.x == v).order_by(a.c.id)), select(a.c.id).where(a.c.x == v).order_by(a.c.id)
def shape_in(v):
    return lambda_stmt(lambda: select(a.c.id).where(a.c.x.in_(v)).order_by(a.c.id)), select(a.c.id).where(a.c.x.in_(v)).order_by(a.c.id)
def shape_col(col):
    return lambda_stmt(lambda: select(col).order_by(col)), select(col).order_by(col)
def shape_table(t):
    return lambda_stmt(lambda: select(t.c.id).order_by(t.c.id)), select(t.c.id).order_by(t.c.id)
def shape_add(v, w):
    st = lambda_stmt(lambda: select(a.c.id).order_by(a.c.id)); st += lambda s: s.where(a.c.x >= v); st += lambda s: s.where(a.c.id < w)
    return st, select(a.c.id).order_by(a.c.id).where(a.c.x >= v).where(a.c.id < w)
def shape_none(v):
    return lambda_stmt(lambda: select(a.c.id).where(a.c.s == v).order_by(a.c.id)), select(a.c.id).where(a.c.s == v).order_by(a.c.id)
def shape_limit(v):
    return lambda_stmt(lambda: select(a.c.id).order_by(a.c.id).limit(v)), select(a.c.id).order_by(a.c.id).limit(v)
def shape_cond(flag):
    return lambda_stmt(lambda: select(a.c.id).where(a.c.x == 1 if flag else a.c.x == 2).order_by(a.c.id)), select(a.c.id).where(a.c.x == 1 if flag else a.c.x == 2).order_by(a.c.id)
shapes = {"scalar": (shape_scalar, [(0,), (1,), (2,), (None,)]), "in": (shape_in, [([0],), ([1, 2],), ([],), ([0, 1, 2],)]), "col": (shape_col, [(a.c.id,), (a.c.x,), (b.c.x,)]),
          "table": (shape_table, [(a,), (b,)]), "add": (shape_add, [(0, 3), (1, 5), (2, 2)]), "none": (shape_none, [("s1",), (None,), ("s2",)]), "limit": (shape_limit, [(1,), (3,), (0,)]),
          "cond": (shape_cond, [(True,), (False,)])}
bad = collections.Counter(); first = {}; n = 0
with e.connect() as c:
    for name, (f, values) in shapes.items():
        for seq in itertools.product(values, repeat=3):
            for args in seq:
                n += 1
                try:
                    ls, plain = f(*args)
                    r1 = c.execute(ls).all(); r2 = c.execute(plain).all()
                    c1 = ls.compile(e); c2 = plain.compile(e)
                    ok = (r1 == r2)
                except Exception as ex:
                    key = (name, "exc", type(ex).__name__); bad[key] += 1; first.setdefault(key, (seq, args, str(ex)[:120])); continue
                if not ok: key = (name, "rows"); bad[key] += 1; first.setdefault(key, (seq, args, r1, r2))
print("invocations", n, "problems", {str(k): v for k, v in bad.items()})
for k, v in first.items(): print(k, v)
