"""C19 — topological sort: correct order, cycles exactly reported (util/topological.py)."""
import contracts.topological  # noqa: F401
from pyvc.contract import FUNCS
from vlib.proof import run_proofs, check_lemmas
from vlib.bounded import run_bounded

LEVEL = "proof"
KEYS = [k for k, c in FUNCS.items() if "C19" in c.props and c.proof]
BOUNDED_KEYS = [k for k, c in FUNCS.items() if "C19" in c.props]


def run(run, tier, seed, args):
    run_proofs(run, KEYS, tier, update_baseline=args.update_baseline, source_root=args.source_root)
    check_lemmas(run, tier)
    if not args.source_root:
        run_bounded(run, BOUNDED_KEYS, tier)
    run.assumptions += [
        "`tuples` and `allitems` are finite sequences; elements compare by identity/equality of the modelled value (hash/eq of user objects not modelled)",
        "Lean lemma pred_closed_iff_cycle (lemmas/Cycle.lean): a non-empty finite vertex set in which every member has a predecessor in the set contains a directed cycle — turns the proved exceptional postcondition into the property's wording",
        "find_cycles completeness: the cycle is a rigid ghost sequence; induction along it is the axiom chain_in_intro (lemmas/Chain.lean); set iteration order is an arbitrary duplicate-free enumeration; the defaultdict's keys are exactly the nodes with an outgoing edge (proved as an invariant of the edge-building loop)",
        "termination of the while loop (each round removes a non-empty output) needs filter_length_lt; partial correctness is what the SMT obligations give",
    ]
