"""C27 — A database disconnect invalidates the connection and blocks silent continuation (class B, fault enumeration).

Drives the REAL ``Engine`` / ``Connection`` / ``QueuePool`` (create_engine over the fake DBAPI of rtc/fakedbapi.py; pool_size=2,
max_overflow=0, two pooled connections opened before the history starts, the subject ``Connection`` holds one of them).
A history is a sequence of ``Connection`` operations; a *fault* is "the n-th DBAPI call made during the history raises"
either the exception the dialect classifies as a disconnect or an ordinary ``OperationalError``; a ``handle_error``
listener mode decides the final verdict.

Ghost: ``d`` = final disconnect verdict = ``dialect.is_disconnect(e)`` XOR (listener flips ``ctx.is_disconnect``);
``pool_inv`` = ``d`` and the listener did not clear ``ctx.invalidate_pool_on_disconnect``; the ledger of DBAPI connections
(open / closed / ``opened_at``); ``root`` = a transaction has been begun (begin / autobegin) and not ended by
commit / rollback / close; ``blocked`` = a transaction was in progress when ``d`` happened and ``rollback()`` has not been
called since.

Contract clauses, evaluated after EVERY step of every history (F = ``Connection._handle_dbapi_exception``,
``_revalidate_connection``, ``invalidate``, ``_invalid_transaction``, ``RootTransaction/NestedTransaction._do_rollback``,
``Pool._invalidate``):

 B1 raises        the operation in which the fault reaches the handler raises: the listener's exception if the listener
                  raised, otherwise a ``DBAPIError`` whose ``connection_invalidated == d``
 B2 d             ``d`` ⇒ ``conn.invalidated`` ∧ the failed DBAPI connection ∈ ledger.closed ∧
                  (``pool_inv`` ⇒ ``pool._invalidate_time`` advanced past the fault) ∧ (¬``pool_inv`` ⇒ unchanged)
 B3 not-d         ¬``d`` ⇒ ``pool._invalidate_time`` unchanged ∧ ``conn.invalidated`` unchanged ∧ the same DBAPI connection is
                  still the one in use and is open ∧ no DBAPI connection was closed or opened by the step
 B0 reset-path    a fault in the pool's own reset-on-return rollback (``close()`` with no transaction begun) is not raised
                  to the caller and the connection it happened on is closed (never handed out again)
 A1/A2 blocked    while ``blocked``: execute / begin / begin_nested / commit / release-savepoint raise an
                  ``InvalidRequestError`` (``PendingRollbackError`` is one) and make NO DBAPI call (no silent continuation on a
                  new connection);  A3: ``rollback()`` and ``close()`` do not raise; ``rollback()`` ends ``blocked``
 C1 identity      the DBAPI connection the Connection holds is never ledger-closed, never one a disconnect happened on, and
                  (after a ``pool_inv``) was opened after the fault;  C2: no DBAPI call ever reaches a closed connection
 C3 no orphan     ``in_nested_transaction() ⇒ in_transaction()`` and ``get_nested_transaction() is not None ⇒
                  get_transaction() is not None`` after every step (a savepoint handle of a transaction that was lost or
                  rolled back must not stay current: its use would continue silently on a new connection, or leave the
                  Connection demanding a rollback() that has nothing to roll back)
 D1 reconnect     after the history (and ``rollback()`` if ``blocked``) ``execute`` succeeds — the Connection reconnects
                  transparently — and C1 holds for it;  D2: two further ``engine.connect()`` satisfy C1 (the connection that sat
                  idle in the pool since before the failure is not reused);  D3: if no ``d`` ever happened and no reset-path
                  fault, no DBAPI connection was opened or closed at all (non-disconnect errors leave the pool untouched).

Fault SEQUENCES: a run carries up to three faults.  The k-fault runs are derived from every (k-1)-fault run that passed by
planting one more fault at every LATER DBAPI call position of that run — which includes the calls of the recovery path the
earlier faults opened up: the rollback that unblocks, the ``connect`` of the transparent reconnect (a reconnect that fails,
with either exception class, while the Connection is already invalidated), and the cursor / execute / commit calls on the new
connection.  Every clause is evaluated at every step regardless of what happened before; in particular B3 / B1 / D3 ("errors
not classified as disconnects leave the pool untouched", ``connection_invalidated == d``) are demanded of an ordinary error
that FOLLOWS earlier disconnects, failed reconnects and recoveries on the same Connection, and B2 of a disconnect that follows
ordinary errors.  ``fired_by_fault_order`` in the coverage block counts the runs per order of fired exception classes.

Scope: see coverage.scope.  Bounded; not a proof.
"""
import gc
import itertools
import json
import time

from rtc import fakedbapi as F
from rtc.shard import default_procs, shard_map

LEVEL = "fault_enumeration"
FUNCTION = "sqlalchemy.engine.base.Connection._handle_dbapi_exception"

OPS = ["execute", "begin", "begin_nested", "commit", "rollback", "release", "close"]
MODES = ["none", "flip", "raise", "nopool"]
EXCS = ["disconnect", "error"]
USE_OPS = ("execute", "begin", "begin_nested", "commit", "release")


class ListenerRaised(Exception):
    pass


def histories(maxlen):
    for n in range(1, maxlen + 1):
        for seq in itertools.product(OPS, repeat=n):
            # 'release' needs a savepoint handle: only after a begin_nested (otherwise it is a no-op = a shorter history)
            ok = True
            for i, op in enumerate(seq):
                if op == "release" and "begin_nested" not in seq[:i]:
                    ok = False
                    break
            if ok:
                yield seq


class Fail(Exception):
    def __init__(self, clause, detail):
        self.clause, self.detail = clause, detail


def run_case(ops, faults, mode, trace=False):
    """faults: list of (n, exc) — the n-th DBAPI call made after the set-up raises exc.  Returns a dict:
    calls (DBAPI calls made by the ops phase), fired (list), failure (None | dict), steps (trace)"""
    from sqlalchemy import event, exc as sa_exc, pool as sapool
    L = F.Ledger(trace=trace)
    F.install_clock(L.clock)
    e = F.make_engine(L, poolclass=sapool.QueuePool, pool_size=2, max_overflow=0, pool_timeout=0)
    if mode == "flip":
        def _l(ctx):
            ctx.is_disconnect = not ctx.is_disconnect
        event.listen(e, "handle_error", _l)
    elif mode == "raise":
        def _l(ctx):
            raise ListenerRaised("listener")
        event.listen(e, "handle_error", _l)
    elif mode == "nopool":
        def _l(ctx):
            ctx.invalidate_pool_on_disconnect = False
        event.listen(e, "handle_error", _l)
    a = e.connect()
    b = e.connect()
    b.close()
    a.close()
    del a, b
    conn = e.connect()
    base = L.total
    n_setup_conns = len(L.conns)
    for n, x in faults:
        L.plan[("*", base + n)] = x
    pool = e.pool

    G = dict(root=False, blocked=False, T=None, failed=set(), any_d=False, reset_fault=False, skipped=None,
             at_op=None, at_fired="")
    N = []
    steps = []
    failure = None

    def held():
        f = conn._dbapi_connection
        return None if f is None else f.dbapi_connection

    def c1(dc, where):
        if dc is None:
            return
        if dc.closed:
            raise Fail("C1-handed-out-closed", f"{where}: holds ledger-closed {dc!r}")
        if dc.id in G["failed"]:
            raise Fail("C1-handed-out-failed", f"{where}: holds {dc!r} on which a disconnect happened")
        if G["T"] is not None and not dc.opened_at > G["T"]:
            raise Fail("C1-predates-invalidation", f"{where}: holds {dc!r} opened_at={dc.opened_at} <= fault time {G['T']}")

    def call(op):
        """returns (raised?, info)"""
        try:
            if op == "execute":
                conn.exec_driver_sql("insert into t values (1)")
            elif op == "begin":
                conn.begin()
            elif op == "begin_nested":
                N.append(conn.begin_nested())
            elif op == "commit":
                conn.commit()
            elif op == "rollback":
                conn.rollback()
            elif op == "release":
                if not N:
                    return None
                N[-1].commit()
            elif op == "close":
                conn.close()
            elif op == "probe":
                conn.exec_driver_sql("select 1")
        except BaseException as ex:  # noqa: classified below; the object itself is not kept (it would pin frames)
            return dict(name=type(ex).__name__, dbapi=isinstance(ex, sa_exc.DBAPIError),
                        inv=getattr(ex, "connection_invalidated", None),
                        invreq=isinstance(ex, sa_exc.InvalidRequestError),
                        closed=isinstance(ex, sa_exc.ResourceClosedError),
                        listener=isinstance(ex, ListenerRaised), msg=str(ex)[:160])
        return False

    def step(i, op):
        pre = dict(total=L.total, nf=len(L.fired), inv_time=pool._invalidate_time, invalidated=conn.invalidated,
                   closed=conn.closed, cur=held(), nconns=len(L.conns), nclosed=len(L.closed),
                   root=G["root"], blocked=G["blocked"])
        r = call(op)
        fired = L.fired[pre["nf"]:]
        G["at_op"], G["at_fired"] = op, "+".join(f["kind"] for f in fired)
        if trace:
            steps.append(dict(op=op, raised=(r or None) and r["name"], fired=[dict(f) for f in fired],
                              invalidated=conn.invalidated, closed=conn.closed, held=repr(held()),
                              in_tx=conn.in_transaction() if not conn.closed else None,
                              pool_invalidate_time=pool._invalidate_time, ledger=[(repr(c), c.closed) for c in L.conns]))
        if r is None:                                   # not applicable (release without a handle)
            return
        eff = [f for f in fired if f["kind"] != "close"]  # close() errors are swallowed by Pool._close_connection
        if len(eff) > 1:
            G["skipped"] = "two faults inside one operation"
            return
        # ---- A: blocked
        if pre["blocked"] is True and not pre["closed"]:
            if op in USE_OPS or op == "probe":
                if not r or not (r["invreq"] or (mode == "raise" and r["listener"])):
                    # (a handle_error listener that raises replaces the PendingRollbackError where the handler sees it)
                    raise Fail("A1-blocked-use-did-not-raise",
                               f"step {i} {op}: {'no exception' if not r else r['name']} while a rollback() is pending")
                if L.total != pre["total"]:
                    raise Fail("A2-blocked-use-made-dbapi-calls", f"step {i} {op}: {L.total - pre['total']} DBAPI calls")
                return
            if r:
                raise Fail("A3-rollback-or-close-raised-while-blocked", f"step {i} {op}: {r['name']}: {r['msg']}")
            if op == "rollback":
                G["blocked"] = False
                G["root"] = False
            elif op == "close":
                G["blocked"] = False
                G["root"] = False
            return
        # ---- B: a fault fired in this step
        if eff:
            f = eff[0]
            marker = f["exc"] == "disconnect"
            d = marker != (mode == "flip")
            pool_inv = d and mode != "nopool"
            if op == "close" and f["kind"] == "rollback" and not pre["root"]:
                # the pool's own reset-on-return
                G["reset_fault"] = True
                if r:
                    raise Fail("B0-reset-fault-raised", f"step {i} close: {r['name']}: {r['msg']}")
                fc = L.conns[f["conn"] - 1]
                if not fc.closed:
                    raise Fail("B0-reset-fault-connection-kept", f"step {i} close: {fc!r} stays open after its reset failed")
                G["failed"].add(fc.id)
                G["root"] = False
                return
            if f["kind"] == "connect":
                # raised while re-connecting an already invalidated Connection
                if not r:
                    raise Fail("B1-fault-did-not-raise", f"step {i} {op}: connect fault swallowed")
                if not conn.invalidated and not conn.closed:
                    raise Fail("B2-not-invalidated", f"step {i} {op}: connect failed but the Connection is not invalidated")
                return
            # handler path
            if not r:
                raise Fail("B1-fault-did-not-raise", f"step {i} {op}: {f['kind']} fault swallowed")
            if mode == "raise":
                if not r["listener"]:
                    raise Fail("B1-wrong-exception", f"step {i} {op}: expected the listener's exception, got {r['name']}")
            else:
                if not r["dbapi"]:
                    raise Fail("B1-wrong-exception", f"step {i} {op}: expected a DBAPIError, got {r['name']}: {r['msg']}")
                if bool(r["inv"]) != d:
                    raise Fail("B1-connection_invalidated-flag", f"step {i} {op}: connection_invalidated={r['inv']} but d={d}")
            fc = L.conns[f["conn"] - 1]
            if d:
                G["any_d"] = True
                if not conn.invalidated and not conn.closed:
                    raise Fail("B2-not-invalidated", f"step {i} {op}: disconnect ({f['kind']}) but Connection.invalidated is False")
                if not fc.closed:
                    raise Fail("B2-failed-connection-open", f"step {i} {op}: {fc!r} not closed after the disconnect")
                if pool_inv:
                    if not (pool._invalidate_time > pre["inv_time"] and pool._invalidate_time >= f["at"]):
                        raise Fail("B2-pool-not-invalidated",
                                   f"step {i} {op}: pool._invalidate_time={pool._invalidate_time} (before {pre['inv_time']}, fault at {f['at']})")
                    G["T"] = f["at"]
                elif pool._invalidate_time != pre["inv_time"]:
                    raise Fail("B2-pool-invalidated-against-listener", f"step {i} {op}: pool invalidated although the listener said no")
                G["failed"].add(fc.id)
                if op in ("rollback", "close"):
                    G["root"] = False
                    G["blocked"] = False
                elif op == "execute" and f["kind"] == "cursor" and not pre["root"]:
                    G["blocked"] = None      # cursor() precedes autobegin: either answer is acceptable
                    G["root"] = False
                else:
                    G["root"] = True
                    G["blocked"] = True
            else:
                if pool._invalidate_time != pre["inv_time"]:
                    raise Fail("B3-pool-invalidated", f"step {i} {op}: non-disconnect error moved pool._invalidate_time")
                if conn.invalidated and not pre["invalidated"]:
                    raise Fail("B3-invalidated", f"step {i} {op}: non-disconnect error invalidated the Connection")
                if pre["cur"] is not None:
                    if not conn.closed and (held() is not pre["cur"] or pre["cur"].closed):
                        raise Fail("B3-connection-changed", f"step {i} {op}: holds {held()!r}, before {pre['cur']!r}")
                    if len(L.conns) != pre["nconns"]:
                        raise Fail("B3-pool-touched", f"step {i} {op}: a connection was opened by a non-disconnect error")
                    if len(L.closed) != pre["nclosed"]:
                        raise Fail("B3-pool-touched", f"step {i} {op}: a connection was closed by a non-disconnect error")
                # (pre.cur is None: the Connection was re-connecting in this very step, which legitimately opens a connection
                #  and recycles pooled ones that predate an earlier pool invalidation)
                if op in ("rollback", "close"):
                    G["root"] = False
                    G["blocked"] = False
                elif op == "execute" and f["kind"] == "cursor" and not pre["root"]:
                    G["root"] = False        # cursor() precedes autobegin: no transaction was begun
                    G["blocked"] = None
                else:
                    G["root"] = True
                    G["blocked"] = None      # e.g. a failed commit also needs rollback(); not part of this property
            return
        # ---- no fault in this step
        if not r:
            if op in ("execute", "begin", "begin_nested", "probe"):
                G["root"] = True
            elif op in ("commit", "rollback", "close"):
                G["root"] = False
            if pre["blocked"] is None and op != "release":
                G["blocked"] = False             # it worked: whatever state the transaction was in, it is over / healthy
        elif op in ("rollback", "close"):
            G["root"] = False

    try:
        i = -1
        for i, op in enumerate(ops):
            step(i, op)
            if G["skipped"]:
                break
            c1(held(), f"after step {i} {op}")
            if not conn.closed and ((conn.in_nested_transaction() and not conn.in_transaction())
                                    or (conn.get_nested_transaction() is not None and conn.get_transaction() is None)):
                raise Fail("C3-savepoint-without-transaction",
                           f"after step {i} {op}: in_nested_transaction()={conn.in_nested_transaction()} "
                           f"get_nested_transaction()={'set' if conn.get_nested_transaction() is not None else None} while "
                           f"in_transaction()={conn.in_transaction()} get_transaction()="
                           f"{'set' if conn.get_transaction() is not None else None}")
            if L.use_after_close:
                raise Fail("C2-call-on-closed-connection", f"after step {i} {op}: {L.use_after_close}")
        calls_in_ops = L.total - base
        if not G["skipped"]:
            # ---- D: probe phase (no further faults are planned beyond the ops phase)
            if not conn.closed:
                if G["blocked"] is True:
                    step("probe", "probe")
                    step("probe", "rollback")
                elif G["blocked"] is None:
                    call("rollback")
                    G["blocked"] = False
                    G["root"] = False
                pre_total = L.total
                r = call("probe")
                if trace:
                    steps.append(dict(op="probe", raised=(r or None) and r["name"], held=repr(held())))
                if r:
                    raise Fail("D1-no-transparent-reconnect", f"execute after the history raised {r['name']}: {r['msg']}")
                if L.total == pre_total:
                    raise Fail("D1-probe-made-no-call", "execute succeeded without a DBAPI call")
                c1(held(), "probe")
            others = []
            for k in range(2 if conn.closed else 1):
                try:
                    others.append(e.connect())
                except BaseException as ex:  # noqa
                    raise Fail("D2-connect-failed", f"engine.connect() after the history: {type(ex).__name__}: {str(ex)[:120]}")
                f2 = others[-1]._dbapi_connection
                c1(f2.dbapi_connection, f"engine.connect() #{k + 1} after the history")
                if trace:
                    steps.append(dict(op="engine.connect", held=repr(f2.dbapi_connection)))
            hs = [o._dbapi_connection.dbapi_connection for o in others] + ([held()] if held() is not None else [])
            if len(set(map(id, hs))) != len(hs):
                raise Fail("D2-one-connection-two-holders", f"{hs!r}")
            if L.use_after_close:
                raise Fail("C2-call-on-closed-connection", f"probe phase: {L.use_after_close}")
            if not G["any_d"] and not G["reset_fault"] and (len(L.conns) != n_setup_conns or L.closed):
                raise Fail("D3-pool-touched-without-disconnect", f"connections {L.conns!r}, closed {L.closed!r}")
            for o in others:
                o.close()
    except Fail as fl:
        failure = dict(clause=fl.clause, detail=fl.detail, at_op=G["at_op"], at_fired=G["at_fired"])
        calls_in_ops = L.total - base
    finally:
        try:
            conn.close()
        except BaseException:  # noqa
            pass
        e.dispose()
        F.install_clock(None)
    return dict(calls=calls_in_ops, fired=[(f["kind"], f["total"] - base, f["exc"]) for f in L.fired], failure=failure,
                skipped=G["skipped"], steps=steps, total_after=L.total - base)


CORE = ("execute", "begin", "commit", "rollback")


def fault_depth(ops, mode, two_fault_len, three_fault_len):
    """how many faults are planted into one run of this history"""
    if len(ops) <= three_fault_len or (len(ops) == three_fault_len + 1 and mode == "none" and set(ops) <= set(CORE)):
        return 3
    return 2 if len(ops) <= two_fault_len else 1


def worker(shard, nshards, maxlen, two_fault_len, three_fault_len=0):
    F.quiet()
    gc.collect()
    gc.freeze()
    hs = list(histories(maxlen))[shard::nshards]
    out = dict(runs=0, fired_distinct=0, baseline=0, failures=[], samples=[], skipped=0, by_kind={}, blocked_steps=0,
               not_fired=0, two_fault_runs=0, three_fault_runs=0, histories=len(hs), outcomes={}, by_order={})

    def extend(ops, faults, mode, r, depth):
        """one more fault at every later DBAPI call position of THIS faulted run (ops phase) — recursively up to depth"""
        if not (r["fired"] and not r["failure"] and not r["skipped"]):
            return
        for m in range(faults[-1][0] + 1, r["calls"] + 1):
            for y in EXCS:
                fl = faults + [(m, y)]
                r2 = run_case(ops, fl, mode)
                out["runs"] += 1
                out["two_fault_runs" if len(fl) == 2 else "three_fault_runs"] += 1
                _account(out, ops, fl, mode, r2)
                if len(fl) < depth:
                    extend(ops, fl, mode, r2, depth)

    for ops in hs:
        base = run_case(ops, [], "none")
        out["runs"] += 1
        out["baseline"] += 1
        if base["failure"]:
            out["failures"].append(dict(ops=list(ops), faults=[], mode="none", clause=base["failure"]["clause"],
                                        detail=base["failure"]["detail"], fault_kinds="", at_op=base["failure"]["at_op"],
                                        at_fired=base["failure"]["at_fired"]))
        for n in range(1, base["calls"] + 1):
            for x in EXCS:
                for mode in MODES:
                    r = run_case(ops, [(n, x)], mode)
                    out["runs"] += 1
                    _account(out, ops, [(n, x)], mode, r)
                    depth = fault_depth(ops, mode, two_fault_len, three_fault_len)
                    if depth > 1:
                        extend(ops, [(n, x)], mode, r, depth)
    return out


def _account(out, ops, faults, mode, r):
    if r["skipped"]:
        out["skipped"] += 1
        return
    if len(r["fired"]) >= len(faults):
        out["fired_distinct"] += 1          # every (history, positions, exceptions, mode) tuple is enumerated exactly once
        kinds = "+".join(k for k, _, _ in r["fired"])
        out["by_kind"][kinds] = out["by_kind"].get(kinds, 0) + 1
        eff = [(k, x) for k, _, x in r["fired"] if k != "close"]
        if len(eff) > 1:
            order = ">".join(("connect:" if k == "connect" else "") + x for k, x in eff)
            out["by_order"][order] = out["by_order"].get(order, 0) + 1
    else:
        out["not_fired"] += 1
    if r["failure"]:
        out["failures"].append(dict(ops=list(ops), faults=[list(f) for f in faults], mode=mode, clause=r["failure"]["clause"],
                                    detail=r["failure"]["detail"], fault_kinds="+".join(k for k, _, _ in r["fired"]),
                                    at_op=r["failure"]["at_op"], at_fired=r["failure"]["at_fired"]))
    elif len(out["samples"]) < 2 and len(ops) >= 2 and r["fired"]:
        out["samples"].append(dict(ops=list(ops), faults=[list(f) for f in faults], mode=mode, fired=r["fired"]))


def run(run, tier, seed, args):
    F.quiet()
    maxlen = 4 if tier == "quick" else 5
    two = 3 if tier == "quick" else 4
    three = 3 if tier == "quick" else 4
    procs = default_procs(tier)
    nshards = procs
    t0 = time.time()
    res = shard_map(worker, nshards, procs, maxlen, two, three)
    tot = dict(runs=0, fired_distinct=0, baseline=0, skipped=0, not_fired=0, two_fault_runs=0, three_fault_runs=0, histories=0)
    by_kind = {}
    by_order = {}
    failures = []
    samples = []
    for r in res:
        if r is None or "crash" in r:
            run.crashes.append((r or {}).get("crash", "shard returned nothing"))
            continue
        for k in tot:
            tot[k] += r[k]
        for k, v in r["by_kind"].items():
            by_kind[k] = by_kind.get(k, 0) + v
        for k, v in r["by_order"].items():
            by_order[k] = by_order.get(k, 0) + v
        failures += r["failures"]
        samples += r["samples"]
    # one traced sample written out in full
    tr = run_case(("execute", "begin_nested", "execute"), [(5, "disconnect")], "none", trace=True)
    samples = samples[:3] + [dict(ops=["execute", "begin_nested", "execute"], faults=[[5, "disconnect"]], mode="none",
                                  trace=tr["steps"], failure=tr["failure"])]
    run.coverage.update(
        evaluations=tot["runs"], distinct_nontrivial=tot["fired_distinct"],
        rule="every history over the 7 operations (release only after a begin_nested) is run once without fault to count the "
             "DBAPI calls it makes; then once per (call position n, exception in {disconnect-classified, ordinary "
             "OperationalError}, handle_error listener mode in {none, flips is_disconnect, raises, clears "
             "invalidate_pool_on_disconnect}); for short histories additionally with a second and a third fault, each at every later call "
             "position of the faulted run it extends (fault sequences, see scope).  A case is non-trivial and counted in distinct_nontrivial when every planned fault "
             "actually fired (read from the ledger); the tuples (history, positions, exceptions, mode) are enumerated once "
             "each, so they are distinct.",
        samples=samples, exhaustive=True,
        scope=f"all operation sequences of length <= {maxlen} over {{execute, begin, begin_nested, commit, rollback, release "
              f"savepoint, close}} on one Connection of a QueuePool(pool_size=2, max_overflow=0) engine with one other pooled "
              f"connection idle since before the history; one fault at every DBAPI call position (cursor / execute / commit / "
              f"rollback) x 2 exception classes x 4 listener modes; fault sequences: two faults for histories of length <= {two}, "
              f"three faults for histories of length <= {three} (all listener modes) and for histories of length {three + 1} over "
              f"{list(CORE)} (no listener) - every further fault at every later call position of the run it extends, incl. "
              f"the connect / cursor / execute / rollback / close calls of the recovery path, x 2 exception classes each (all "
              f"orders of disconnect / ordinary error); pre_ping off",
        histories=tot["histories"], baseline_runs=tot["baseline"], two_fault_runs=tot["two_fault_runs"],
        three_fault_runs=tot["three_fault_runs"], fired_by_fault_order=by_order,
        skipped_two_faults_in_one_operation=tot["skipped"], planned_fault_not_reached=tot["not_fired"],
        fired_by_dbapi_call_kinds=by_kind, shards=nshards, processes=procs, enumeration_wall_s=round(time.time() - t0, 1))
    run.assumptions += [
        "the fake DBAPI of rtc/fakedbapi.py stands for a driver: a raising call has no effect; is_disconnect() is true exactly for the marked exception class",
        "virtual clock patched into sqlalchemy.pool.base.time: every reading is strictly later than the previous one (the assumption get_connection() states in its comment)",
        "outside: real drivers' error classification (is_disconnect per dialect), pre-ping (see C26 bounded), asyncio, threads, BaseException faults (KeyboardInterrupt etc.)",
        "after a NON-disconnect fault the transactional follow-up (e.g. a failed commit also requiring rollback()) is not judged; only the clauses B3/C1/D3",
        "a disconnect in cursor() of an execute that had not begun a transaction yet may or may not count as 'in a transaction' (cursor creation precedes autobegin): both answers accepted",
    ]
    if tot["fired_distinct"] < 2 or tot["three_fault_runs"] < 2:
        run.crashes.append("vacuity guard: fewer than 2 faults fired")
    report(run, failures)


def report(run, failures):
    seen = {}
    for d in sorted(failures, key=lambda d: (len(d["ops"]), len(d["faults"]), d["ops"], d["faults"], d["mode"])):
        desc = dict(ops=d["ops"], faults=d["faults"], mode=d["mode"], clause=d["clause"], fault_kinds=d["fault_kinds"],
                    at_op=d["at_op"], at_fired=d["at_fired"])
        dj = json.dumps(desc, sort_keys=True)
        k = run.match_known(function=FUNCTION, input=dj)
        if k is not None:
            run.known_finding(k, "bounded fault enumeration on the real Connection/Pool")
            continue
        sig = (d["clause"], d["at_op"], d["at_fired"])
        if sig in seen:
            seen[sig] += 1
            continue
        seen[sig] = 1
        if len(seen) > 12:
            continue
        name = f"C27-{d['clause']}-{abs(hash(dj)) % 10**8}"
        run.violation(name, dict(function=FUNCTION, input=desc, expected="contract clause " + d["clause"] + " (module docstring)",
                                 actual=d["detail"], reason="bounded run-time contract check (fault enumeration)"))
    if seen:
        run.coverage["violation_classes"] = {"|".join(map(str, k)): v for k, v in seen.items()}


def replay(data):
    F.quiet()
    inp = data["input"]
    r = run_case(tuple(inp["ops"]), [tuple(f) for f in inp["faults"]], inp["mode"], trace=True)
    if r["failure"]:
        print(f"REPLAY-FAILS {FUNCTION} input={json.dumps(inp, sort_keys=True)} clause={r['failure']['clause']} {r['failure']['detail']}")
        for s in r["steps"]:
            print("   ", json.dumps(s, default=repr))
        return 1
    print(f"REPLAY-PASSES {FUNCTION} input={json.dumps(inp, sort_keys=True)} fired={r['fired']}")
    return 0
