"""C17 — lambda statements never reuse stale closure values (bounded run-time contract check).

Functions under contract (real code): LambdaElement.__init__ / _retrieve_tracker_rec / _resolved / _gen_cache_key /
_setup_binds_for_tracked_expr, AnalyzedCode.get (per-code-object cache), StatementLambdaElement.add_criteria (`+=`),
DeferredLambdaElement (with_loader_criteria lambda path), and the engine's compiled cache they feed.

Spec function: calling the user function directly.  For a lambda `f` and the closure / global values current at *this*
invocation
    ensures  SQL sent to the DBAPI for lambda_stmt(f)  ==  SQL sent for f()           (qmark rendering, so bind names do not matter)
    ensures  parameters sent for lambda_stmt(f)        ==  parameters sent for f()     (a literal closure value is a fresh bound value)
    ensures  rows equal
or the construction / execution of the lambda statement raises the documented sqlalchemy.exc.InvalidRequestError /
ArgumentError refusal (then the plain statement decides nothing and the outcome is counted as "refused").
Evaluated after EVERY invocation of a sequence of invocations that share AnalyzedCode's per-code-object cache, the
closure cache (_closure_per_cache_key) and one compiled cache (the engine's); the caches are emptied before each sequence,
so a sequence is a self-contained replay.  The direct statement is executed with compiled_cache=None.

Linked chains (`stmt += lambda s: ...`, LinkedLambdaElement): the same clauses for a statement composed as
lambda_stmt(base) += link_1 += ... += link_n, where every link is one fixed lambda literal (one code object) from a small
pool (scalar criteria, IN list, order_by without closure, limit, criteria on a column taken from the closure), compared
against base().link_1'()...link_n'() built directly.  Which links an invocation uses (a different link at a position, a
link present or absent) is the Python-level branching the documentation describes; the invocations of a sequence use
different chains and fresh closure values and share all caches, so the statement cached for one path of lambdas must
never be answered for another path.

Structural closure values, role x kind ("closure values that change the SQL structure produce a different cached form").
AnalyzedCode._cache_key_getter_closure_variable builds, once per code object, the getter that contributes a tracked closure
variable to the cache key, with one branch per KIND of value: a HasCacheKey SQL element, an object reached through
__clause_element__(), an object reached through inspect() (mapped class, aliased() class), a sequence of elements, a
function.  The same clauses are therefore evaluated over sequences whose closure variable changes its value AND its kind
between invocations of one code object, for every role the variable can play:
  * fromobj_kinds          t in select(t.c.id, t.c.x).where(t.c.id >= v): Table, anonymous / named alias, anonymous / named subquery
  * entity_kinds_columns   ent in select(ent.id, ent.x).where(ent.id >= v): mapped class, anonymous / named aliased() class
  * entity_kinds_whole     ent in select(ent).where(...): same kinds, rows are entities (compared by class + column values)
  * entity_kinds_linked    ent captured by the base lambda and by a += link
  * entity_kinds_two       two entity variables in one lambda (class / aliased of the same or another class, swapped)
  * column_kinds           col in select(col).order_by(col): Column, Label, InstrumentedAttribute, attribute of an aliased() class
  * clause_element_protocol_kinds   the same with an object that only implements __clause_element__() (over a Column / an attribute)
  * column_list_kinds      cols in select(*cols).order_by(*cols): list / tuple of Columns, of attributes, of a class, of a wrapper
  * loader_criteria_entity with_loader_criteria(ent, lambda cls: cls.x >= v) with the entity varying
Anonymous aliases / aliased() / subqueries are new objects at every invocation (so a getter that keeps the object of the
first invocation is observable), literal values vary along with them.
Termination is part of "produces a statement": every construction / execution of a lambda statement runs under a CPU-time
limit (ITIMER_VIRTUAL, HANG_CPU_S; the calls take milliseconds); exceeding it is a `construct` / `execute` failure.  After
such a failure the extensions of the failing prefix are skipped (they replay the same prefix from empty caches).
"""
import contextlib
import itertools
import json
import multiprocessing
import gc
import signal
import time
import warnings

LEVEL = "exploration"

_ENV = {}
G_VAL = 0           # module global read by the "global" shape
a = b = A = B = None  # tables / mapped classes the lambdas refer to as module globals; set by env()
_CAP = {"on": False, "log": []}


class Holder:
    def __init__(self, val):
        self.val = val


def env():
    if _ENV:
        return _ENV
    warnings.simplefilter("ignore")
    from sqlalchemy import MetaData, Table, Column, Integer, String, create_engine, insert, event
    from sqlalchemy.orm import registry
    m = MetaData()
    a = Table("a", m, Column("id", Integer, primary_key=True), Column("x", Integer), Column("s", String))
    b = Table("b", m, Column("id", Integer, primary_key=True), Column("x", Integer))
    e = create_engine("sqlite://")
    m.create_all(e)
    with e.begin() as c:
        c.execute(insert(a), [{"id": i, "x": (i % 3) if i != 5 else None, "s": ("s%d" % i) if i != 4 else None} for i in range(6)])
        c.execute(insert(b), [{"id": i, "x": i + 1} for i in range(3)])
    reg = registry()

    class A:
        pass

    class B:
        pass
    reg.map_imperatively(A, a)
    reg.map_imperatively(B, b)

    @event.listens_for(e, "before_cursor_execute")
    def _cap(conn, cursor, statement, parameters, context, executemany):
        if _CAP["on"]:
            _CAP["log"].append([statement, list(parameters) if isinstance(parameters, (tuple, list)) else parameters])
    _ENV.update(a=a, b=b, e=e, A=A, B=B, conn=e.connect())
    globals().update(a=a, b=b, A=A, B=B)
    return _ENV


# ---- value descriptors (JSON-able) -> Python values
def resolve(d):
    ev = env()
    if isinstance(d, list):
        return [resolve(x) for x in d]
    if isinstance(d, str) and d.startswith("col:"):
        t, c = d[4:].split(".")
        return ev[t].c[c]
    if isinstance(d, str) and d.startswith("tbl:"):
        return ev[d[4:]]
    if isinstance(d, str) and d.startswith("attr:"):
        t, c = d[5:].split(".")
        return getattr(ev[t], c)
    if isinstance(d, str) and d.startswith("sq:"):
        from sqlalchemy import select
        bt = ev["b"]
        return {"sq:ids": select(bt.c.id), "sq:xs": select(bt.c.x).where(bt.c.x > 1), "sq:x2": select(bt.c.x).where(bt.c.x > 2)}[d]
    if isinstance(d, str) and d.startswith("str:"):
        return d[4:]
    if isinstance(d, dict) and "list" in d:
        return [resolve(x) for x in d["list"]]
    if isinstance(d, dict) and "tuple" in d:
        return tuple(resolve(x) for x in d["tuple"])
    if isinstance(d, str) and d.split(":")[0] in STRUCTURAL_KINDS:
        return STRUCTURAL_KINDS[d.split(":")[0]](ev, *d.split(":")[1:])
    return d            # int / None / bool


class Wrapper:
    """neither a ClauseElement nor a HasCacheKey nor inspectable: only the documented __clause_element__() protocol"""

    def __init__(self, col):
        self.col = col

    def __clause_element__(self):
        return self.col


def _k_alias(ev, t, name=None):
    return ev[t].alias(name)            # anonymous when no name: a fresh object per invocation, rendered a_1 / b_1


def _k_subq(ev, t, name=None):
    from sqlalchemy import select
    return select(ev[t]).subquery(name)


def _k_cls(ev, c):
    return ev[c]


def _k_aliased(ev, c, name=None):
    from sqlalchemy.orm import aliased
    return aliased(ev[c], name=name)


def _k_aattr(ev, spec, name=None):
    c, attr = spec.split(".")
    return getattr(_k_aliased(ev, c, name), attr)


def _k_wrap(ev, spec):
    t, c = spec.split(".")
    return Wrapper(ev[t].c[c])


def _k_wrapattr(ev, spec):
    t, c = spec.split(".")
    return Wrapper(getattr(ev[t], c))


def _k_label(ev, spec, name):
    t, c = spec.split(".")
    return ev[t].c[c].label(name)


# descriptor prefix -> builder of a structural (SQL-shape determining) closure value; see the module docstring
STRUCTURAL_KINDS = {"alias": _k_alias, "subq": _k_subq, "cls": _k_cls, "aliased": _k_aliased, "aattr": _k_aattr, "wrap": _k_wrap, "wrapattr": _k_wrapattr,
                    "label": _k_label}


# ---- the catalogue of lambda shapes.  Every lambda literal below is ONE code object for the life of the process.
def shape_scalar(v):
    from sqlalchemy import select, lambda_stmt
    return (lambda_stmt(lambda: select(a.c.id).where(a.c.x == v).order_by(a.c.id)),
            select(a.c.id).where(a.c.x == v).order_by(a.c.id))


def shape_string_or_none(v):
    from sqlalchemy import select, lambda_stmt
    return (lambda_stmt(lambda: select(a.c.id).where(a.c.s == v).order_by(a.c.id)),
            select(a.c.id).where(a.c.s == v).order_by(a.c.id))


def shape_in(v):
    from sqlalchemy import select, lambda_stmt
    return (lambda_stmt(lambda: select(a.c.id).where(a.c.x.in_(v)).order_by(a.c.id)),
            select(a.c.id).where(a.c.x.in_(v)).order_by(a.c.id))


def shape_column(col):
    from sqlalchemy import select, lambda_stmt
    return (lambda_stmt(lambda: select(col).order_by(col)), select(col).order_by(col))


def shape_table(t):
    from sqlalchemy import select, lambda_stmt
    return (lambda_stmt(lambda: select(t.c.id).order_by(t.c.id)), select(t.c.id).order_by(t.c.id))


def shape_add_criteria(v, w):
    from sqlalchemy import select, lambda_stmt
    st = lambda_stmt(lambda: select(a.c.id).order_by(a.c.id))
    st += lambda s: s.where(a.c.x >= v)
    st += lambda s: s.where(a.c.id < w)
    return st, select(a.c.id).order_by(a.c.id).where(a.c.x >= v).where(a.c.id < w)


def shape_add_column_criteria(col, v):
    from sqlalchemy import select, lambda_stmt
    st = lambda_stmt(lambda: select(a.c.id, a.c.x).order_by(a.c.id))
    st = st.add_criteria(lambda s: s.where(col > v))
    return st, select(a.c.id, a.c.x).order_by(a.c.id).where(col > v)


def shape_limit(v):
    from sqlalchemy import select, lambda_stmt
    return (lambda_stmt(lambda: select(a.c.id).order_by(a.c.id).limit(v)), select(a.c.id).order_by(a.c.id).limit(v))


def shape_two_uses(v, w):
    from sqlalchemy import select, lambda_stmt, or_
    return (lambda_stmt(lambda: select(a.c.id).where(or_(a.c.x == v, a.c.id == w, a.c.id == v)).order_by(a.c.id)),
            select(a.c.id).where(or_(a.c.x == v, a.c.id == w, a.c.id == v)).order_by(a.c.id))


def shape_global():
    from sqlalchemy import select, lambda_stmt
    return (lambda_stmt(lambda: select(a.c.id).where(a.c.x == G_VAL).order_by(a.c.id)),
            select(a.c.id).where(a.c.x == G_VAL).order_by(a.c.id))


def shape_global_entry(v):
    global G_VAL
    G_VAL = v
    return shape_global()


def shape_attr_track_on(v):
    from sqlalchemy import select, lambda_stmt
    obj = Holder(v)
    return (lambda_stmt(lambda: select(a.c.id).where(a.c.x == obj.val).order_by(a.c.id), track_on=[obj.val]),
            select(a.c.id).where(a.c.x == obj.val).order_by(a.c.id))


def shape_attr(v):
    from sqlalchemy import select, lambda_stmt
    obj = Holder(v)
    return (lambda_stmt(lambda: select(a.c.id).where(a.c.x == obj.val).order_by(a.c.id)),
            select(a.c.id).where(a.c.x == obj.val).order_by(a.c.id))


def shape_literal_or_column(v):
    from sqlalchemy import select, lambda_stmt
    return (lambda_stmt(lambda: select(a.c.id).where(a.c.x == v).order_by(a.c.id)),
            select(a.c.id).where(a.c.x == v).order_by(a.c.id))


def shape_subquery(sq):
    from sqlalchemy import select, lambda_stmt
    return (lambda_stmt(lambda: select(a.c.id).where(a.c.id.in_(sq)).order_by(a.c.id)),
            select(a.c.id).where(a.c.id.in_(sq)).order_by(a.c.id))


def shape_conditional(flag):
    from sqlalchemy import select, lambda_stmt
    return (lambda_stmt(lambda: select(a.c.id).where(a.c.x == 1 if flag else a.c.x == 2).order_by(a.c.id)),
            select(a.c.id).where(a.c.x == 1 if flag else a.c.x == 2).order_by(a.c.id))


def shape_orm_entity(v):
    from sqlalchemy import select, lambda_stmt
    return (lambda_stmt(lambda: select(A.id, A.s).where(A.x == v).order_by(A.id)),
            select(A.id, A.s).where(A.x == v).order_by(A.id))


def shape_orm_attr_from_closure(attr, v):
    from sqlalchemy import select, lambda_stmt
    return (lambda_stmt(lambda: select(attr).where(attr >= v).order_by(attr)),
            select(attr).where(attr >= v).order_by(attr))


def shape_loader_criteria(v):
    from sqlalchemy import select
    from sqlalchemy.orm import with_loader_criteria
    return (select(A.id).order_by(A.id).options(with_loader_criteria(A, lambda cls: cls.x == v)),
            select(A.id).order_by(A.id).options(with_loader_criteria(A, A.x == v)))


def shape_loader_criteria_in(v):
    from sqlalchemy import select
    from sqlalchemy.orm import with_loader_criteria
    return (select(A.id).order_by(A.id).options(with_loader_criteria(A, lambda cls: cls.x.in_(v))),
            select(A.id).order_by(A.id).options(with_loader_criteria(A, A.x.in_(v))))


# ---- structural closure values by role (what the closure variable is used as) x kind (what sort of object it holds)
def shape_fromobj(t, v):
    from sqlalchemy import select, lambda_stmt
    return (lambda_stmt(lambda: select(t.c.id, t.c.x).where(t.c.id >= v).order_by(t.c.id)),
            select(t.c.id, t.c.x).where(t.c.id >= v).order_by(t.c.id))


def shape_entity_columns(ent, v):
    from sqlalchemy import select, lambda_stmt
    return (lambda_stmt(lambda: select(ent.id, ent.x).where(ent.id >= v).order_by(ent.id)),
            select(ent.id, ent.x).where(ent.id >= v).order_by(ent.id))


def shape_entity_whole(ent, v):
    from sqlalchemy import select, lambda_stmt
    return (lambda_stmt(lambda: select(ent).where(ent.id >= v).order_by(ent.id)),
            select(ent).where(ent.id >= v).order_by(ent.id))


def shape_entity_linked(ent, v):
    from sqlalchemy import select, lambda_stmt
    st = lambda_stmt(lambda: select(ent.id, ent.x))
    st += lambda s: s.where(ent.id >= v).order_by(ent.id)
    return st, select(ent.id, ent.x).where(ent.id >= v).order_by(ent.id)


def shape_entity_two(ent, other):
    from sqlalchemy import select, lambda_stmt
    return (lambda_stmt(lambda: select(ent.id, other.id).where(ent.id == other.id).order_by(ent.id)),
            select(ent.id, other.id).where(ent.id == other.id).order_by(ent.id))


def shape_column_list(cols):
    from sqlalchemy import select, lambda_stmt
    return (lambda_stmt(lambda: select(*cols).order_by(*cols)), select(*cols).order_by(*cols))


def shape_loader_criteria_entity(ent, v):
    from sqlalchemy import select
    from sqlalchemy.orm import with_loader_criteria
    return (select(A.id, B.id).where(A.id == B.id).order_by(A.id).options(with_loader_criteria(ent, lambda cls: cls.x >= v)),
            select(A.id, B.id).where(A.id == B.id).order_by(A.id).options(with_loader_criteria(ent, ent.x >= v)))


# ---- linked chains: lambda_stmt(base) += link += link ...   Every link below is ONE lambda literal = one code object.
def _base_lambda():
    from sqlalchemy import select, lambda_stmt
    return lambda_stmt(lambda: select(a.c.id, a.c.x)), select(a.c.id, a.c.x)


def _link_wx(st, pl, v):
    st += lambda s: s.where(a.c.x == v)
    return st, pl.where(a.c.x == v)


def _link_wid(st, pl, v):
    st += lambda s: s.where(a.c.id < v)
    return st, pl.where(a.c.id < v)


def _link_win(st, pl, v):
    st += lambda s: s.where(a.c.id.in_(v))
    return st, pl.where(a.c.id.in_(v))


def _link_ord(st, pl):
    st += lambda s: s.order_by(a.c.id.desc())
    return st, pl.order_by(a.c.id.desc())


def _link_lim(st, pl, v):
    st += lambda s: s.limit(v)
    return st, pl.limit(v)


def _link_wcol(st, pl, col, v):
    st = st.add_criteria(lambda s: s.where(col >= v))
    return st, pl.where(col >= v)


# link name -> (applier, the closure values it takes at successive uses)
LINKS = {
    "wx": (_link_wx, [[0], [1], [2], [1]]),
    "win": (_link_win, [[{"list": [0, 1, 2, 3]}], [{"list": [1, 4]}], [{"list": [2, 3, 5]}], [{"list": [4]}]]),
    "ord": (_link_ord, [[]]),
    "lim": (_link_lim, [[4], [2], [5], [3]]),
    "wcol": (_link_wcol, [["col:a.x", 0], ["col:a.id", 1], ["col:a.x", 1], ["col:a.id", 2]]),
    "wid": (_link_wid, [[5], [4], [6], [3]]),
}
QUICK_LINKS = ["wx", "win", "ord", "lim"]
THOROUGH_LINKS = ["wx", "win", "ord", "lim", "wcol"]


def shape_linked_chain(chain):
    """chain: [[link name, closure value...], ...] -> (lambda statement built with +=, the directly built statement)"""
    st, pl = _base_lambda()
    for link in chain:
        st, pl = LINKS[link[0]][0](st, pl, *link[1:])
    return st, pl


def chain_sequences(tier):
    """the linked-chain invocation sequences.  A chain = a word over the link pool with 0..n links after the base lambda
    (chain length incl. the base: <= 4 quick, <= 5 thorough).  Sequences: every ordered pair (X, Y) of chains invoked as
    X, Y, X, Y (so every 2-sequence, and every return to a shape seen before; X, Y, X when one of the two has 4 links —
    thorough only), and every ordered triple of pairwise different chains of <= 2 links; the closure values of the link at position j of invocation i are the (i + j)-th of the
    link's value cycle, so that no two invocations of a sequence carry the same values at the same place."""
    pool = QUICK_LINKS if tier == "quick" else THOROUGH_LINKS
    nmax = 3 if tier == "quick" else 4
    words = [w for n in range(nmax + 1) for w in itertools.product(pool, repeat=n)]
    short = [w for w in words if len(w) <= 2]

    def inst(word, i):
        return [[[name] + LINKS[name][1][(i + j) % len(LINKS[name][1])] for j, name in enumerate(word)]]
    seqs = [[inst(x, 0), inst(y, 1), inst(x, 2), inst(y, 3)][:4 if max(len(x), len(y)) <= 3 else 3] for x in words for y in words]
    seqs += [[inst(x, 0), inst(y, 1), inst(z, 2)] for x in short for y in short for z in short if len({x, y, z}) == 3]
    return seqs, dict(links=pool, max_links_after_base=nmax, chains=len(words), pair_sequences=len(words) ** 2, triple_sequences=len(seqs) - len(words) ** 2)


# name -> (builder, pool of argument tuples as JSON-able descriptors, uses ORM session)
SHAPES = {
    "scalar": (shape_scalar, [[0], [1], [2], [None]], False),
    "string_or_none": (shape_string_or_none, [["str:s1"], [None], ["str:s2"]], False),
    "in_list": (shape_in, [[{"list": [0]}], [{"list": [1, 2]}], [{"list": []}], [{"list": [0, 1, 2]}]], False),
    "column_from_closure": (shape_column, [["col:a.id"], ["col:a.x"], ["col:b.x"]], False),
    "table_from_closure": (shape_table, [["tbl:a"], ["tbl:b"]], False),
    "add_criteria": (shape_add_criteria, [[0, 3], [1, 5], [2, 2], [0, 5]], False),
    "add_column_criteria": (shape_add_column_criteria, [["col:a.x", 0], ["col:a.id", 0], ["col:a.x", 1], ["col:a.id", 3]], False),
    "limit": (shape_limit, [[1], [3], [0]], False),
    "two_uses": (shape_two_uses, [[0, 1], [1, 0], [2, 2], [1, 4]], False),
    "global": (shape_global_entry, [[0], [1], [2]], False),
    "attr_track_on": (shape_attr_track_on, [[0], [1], [2]], False),
    "attr_no_track_on": (shape_attr, [[0], [1]], False),
    "literal_or_column": (shape_literal_or_column, [[1], ["col:a.id"], [2], [None]], False),
    "subquery_from_closure": (shape_subquery, [["sq:ids"], ["sq:xs"], ["sq:x2"]], False),
    "conditional": (shape_conditional, [[True], [False]], False),
    "orm_entity": (shape_orm_entity, [[0], [1], [None]], True),
    "orm_attr_from_closure": (shape_orm_attr_from_closure, [["attr:A.x", 0], ["attr:A.id", 2], ["attr:B.x", 1], ["attr:A.x", 2]], True),
    "loader_criteria": (shape_loader_criteria, [[0], [1], [2]], True),
    "loader_criteria_in": (shape_loader_criteria_in, [[{"list": [0]}], [{"list": [1, 2]}], [{"list": [0, 1, 2]}]], True),
    # structural closure values: role x kind
    "fromobj_kinds": (shape_fromobj, [["tbl:a", 0], ["tbl:b", 1], ["alias:a", 1], ["alias:b", 0], ["alias:a:nm", 2], ["subq:a", 1], ["subq:b:nm", 0]], False),
    "entity_kinds_columns": (shape_entity_columns, [["cls:A", 0], ["cls:B", 1], ["aliased:A", 1], ["aliased:B", 0], ["aliased:A:nm", 2], ["cls:A", 2]], True),
    "entity_kinds_whole": (shape_entity_whole, [["cls:A", 0], ["cls:B", 1], ["aliased:A", 1], ["aliased:B", 0], ["aliased:B:nm", 2]], True),
    "entity_kinds_linked": (shape_entity_linked, [["cls:A", 0], ["cls:B", 1], ["aliased:A", 1], ["aliased:B", 0], ["aliased:A:nm", 2], ["cls:B", 0]], True),
    "entity_kinds_two": (shape_entity_two, [["cls:A", "cls:B"], ["cls:B", "cls:A"], ["aliased:A", "cls:A"], ["cls:A", "aliased:A"], ["aliased:B", "aliased:A"], ["cls:B", "aliased:B:nm"]], True),
    "column_kinds": (shape_column, [["col:a.id"], ["col:b.x"], ["attr:A.x"], ["attr:B.x"], ["aattr:A.x"], ["aattr:B.x:nm"], ["label:a.x:lx"], ["label:b.x:lx"]], True),
    "clause_element_protocol_kinds": (shape_column, [["wrap:a.x"], ["wrap:b.x"], ["wrapattr:A.id"]], True),
    "column_list_kinds": (shape_column_list, [[{"list": ["col:a.id", "col:a.x"]}], [{"list": ["col:a.x", "col:a.id"]}], [{"list": ["col:b.id", "col:b.x"]}],
                                              [{"tuple": ["col:a.id", "col:a.x"]}], [{"list": ["attr:A.id", "attr:A.x"]}], [{"list": ["attr:B.x"]}],
                                              [{"list": ["cls:A"]}], [{"list": ["wrap:a.x", "col:a.id"]}]], True),
    "loader_criteria_entity": (shape_loader_criteria_entity, [["cls:A", 0], ["cls:B", 1], ["cls:A", 2], ["cls:B", 0]], True),
}
STRUCTURAL_SHAPES = ["fromobj_kinds", "entity_kinds_columns", "entity_kinds_whole", "entity_kinds_linked", "entity_kinds_two", "column_kinds",
                     "clause_element_protocol_kinds", "column_list_kinds", "loader_criteria_entity"]
CHAIN = "linked_chain"          # its sequences come from chain_sequences(), not from a value pool
SHAPES[CHAIN] = (shape_linked_chain, None, False)


def reset_caches():
    from sqlalchemy.sql import lambdas
    lambdas.AnalyzedCode._fns.clear()
    lambdas._closure_per_cache_key.clear()
    env()["e"].clear_compiled_cache()


def _norm(v):
    """a mapped instance in a row -> [class name, its column values] (instances of two executions are never identical objects)"""
    st = getattr(v, "_sa_instance_state", None)
    if st is None:
        return v
    return [type(v).__name__] + [getattr(v, c.key) for c in st.mapper.column_attrs]


def execute(stmt, orm, cache):
    """-> (statements sent, rows)"""
    ev = env()
    opts = {} if cache else {"compiled_cache": None}
    _CAP["log"] = []
    _CAP["on"] = True
    try:
        if orm:
            from sqlalchemy.orm import Session
            with Session(ev["conn"]) as s:
                rows = [[_norm(c) for c in r] for r in s.execute(stmt, execution_options=opts).all()]
        else:
            rows = [list(r) for r in ev["conn"].execute(stmt, execution_options=opts).all()]
    finally:
        _CAP["on"] = False
        try:
            ev["conn"].rollback()
        except Exception:  # noqa: BLE001
            pass
    return _CAP["log"], rows


HANG_CONFIRM_S = 20.0   # CPU seconds for the confirming re-run of a sequence that timed out once
HANG_CPU_S = 1.5        # CPU seconds (ITIMER_VIRTUAL: independent of machine load); building + executing a statement takes milliseconds


class _Hang(BaseException):
    """not an Exception: nothing in the code under test may swallow or wrap it"""


def _on_vtalrm(signum, frame):
    raise _Hang()


@contextlib.contextmanager
def cpu_limit(seconds=HANG_CPU_S):
    """the call under contract must return: an endless loop becomes a contract failure instead of a check that never ends"""
    old = signal.signal(signal.SIGVTALRM, _on_vtalrm)
    signal.setitimer(signal.ITIMER_VIRTUAL, seconds)
    try:
        yield
    finally:
        signal.setitimer(signal.ITIMER_VIRTUAL, 0)
        signal.signal(signal.SIGVTALRM, old)


HANG_MSG = "Hang: no return within %.1f s of CPU time" % HANG_CPU_S


def run_sequence(shape, seq, _limit=None):
    """seq: list of argument descriptor tuples.  -> (invocations, failure-or-None, outcomes)

    A time-out is only reported after it has been confirmed: the whole sequence is run again from empty caches with a limit of
    HANG_CONFIRM_S CPU seconds (a first time-out can be a garbage-collection pause of a long thorough run, not an endless loop)."""
    if _limit is None:
        n, fail, outcomes = run_sequence(shape, seq, _limit=HANG_CPU_S)
        if fail is not None and fail.get("got") == HANG_MSG:
            gc.collect()
            return run_sequence(shape, seq, _limit=HANG_CONFIRM_S)
        return n, fail, outcomes
    from sqlalchemy import exc as sa_exc
    builder, pool, orm = SHAPES[shape]
    env()
    reset_caches()
    outcomes = []
    for i, args in enumerate(seq):
        vals = [resolve(x) for x in args]
        desc = dict(shape=shape, sequence=seq, invocation=i, args=args)
        try:
            with cpu_limit(_limit):
                lam, plain = builder(*vals)
        except _Hang:
            return i + 1, dict(desc, clause="construct", expected="statement or documented refusal", got=HANG_MSG), outcomes
        except (sa_exc.InvalidRequestError, sa_exc.ArgumentError) as e:
            outcomes.append("refused:" + type(e).__name__)
            continue
        except Exception as e:  # noqa: BLE001
            return i + 1, dict(desc, clause="construct", expected="statement or documented refusal", got=f"{type(e).__name__}: {e}"[:300]), outcomes
        try:
            want_sql, want_rows = execute(plain, orm, cache=False)
        except Exception as e:  # noqa: BLE001
            outcomes.append("plain-fails:" + type(e).__name__)
            continue
        try:
            with cpu_limit(_limit):
                got_sql, got_rows = execute(lam, orm, cache=True)
        except _Hang:
            return i + 1, dict(desc, clause="execute", expected=want_sql, got=HANG_MSG), outcomes
        except (sa_exc.InvalidRequestError, sa_exc.ArgumentError) as e:
            outcomes.append("refused:" + type(e).__name__)
            continue
        except Exception as e:  # noqa: BLE001
            return i + 1, dict(desc, clause="execute", expected=want_sql, got=f"{type(e).__name__}: {e}"[:300]), outcomes
        if [s for s, p in got_sql] != [s for s, p in want_sql]:
            return i + 1, dict(desc, clause="sql", expected=want_sql, got=got_sql), outcomes
        if [p for s, p in got_sql] != [p for s, p in want_sql]:
            return i + 1, dict(desc, clause="params", expected=want_sql, got=got_sql), outcomes
        if got_rows != want_rows:
            return i + 1, dict(desc, clause="rows", expected=want_rows, got=got_rows), outcomes
        outcomes.append("equal")
    return len(seq), None, outcomes


def sequences_for(shape, length):
    pool = SHAPES[shape][1]
    out = []
    for n in range(1, length + 1):
        out += [list(s) for s in itertools.product(pool, repeat=n)]
    return out


def _work(task):
    shape, seqs = task
    inv = nseq = nontriv = refused = skipped = 0
    fails = {}
    hung = set()
    for seq in seqs:
        if any(json.dumps(seq[:i + 1]) in hung for i in range(len(seq))):
            skipped += 1        # a sequence is a self-contained replay: it would spend HANG_CPU_S in the same invocation of the same prefix again
            continue
        n, f, outcomes = run_sequence(shape, seq)
        if f is not None and f["got"] == HANG_MSG:
            hung.add(json.dumps(seq[:f["invocation"] + 1]))
        inv += n
        nseq += 1
        refused += sum(1 for o in outcomes if o.startswith("refused"))
        if len({json.dumps(a) for a in seq}) > 1 and "equal" in outcomes:
            nontriv += 1
        if f is not None:
            cls = (f["shape"], f["clause"], f["invocation"])
            lst = fails.setdefault(cls, [])
            if len(lst) < 3:
                lst.append(f)
    return dict(shape=shape, invocations=inv, sequences=nseq, nontrivial=nontriv, refused=refused, skipped_after_hang=skipped, fails=[x for l in fails.values() for x in l],
                nfails=sum(len(l) for l in fails.values()))


def run(run, tier, seed, args):
    t0 = time.time()
    length = 5 if tier == "thorough" else 3
    tasks = []
    chain_scope = {}
    for shape in SHAPES:
        if shape == CHAIN:
            seqs, chain_scope = chain_sequences(tier)
            if seed:
                import random
                random.Random(seed).shuffle(seqs)
            k = max(1, len(seqs) // 256)
        else:
            seqs = sequences_for(shape, min(length, 4) if shape in STRUCTURAL_SHAPES else length)
            k = max(1, len(seqs) // 8)
        tasks += [(shape, seqs[i:i + k]) for i in range(0, len(seqs), k)]
    with multiprocessing.get_context("fork").Pool(min(16, multiprocessing.cpu_count())) as pool:
        results = pool.map(_work, tasks, chunksize=1)
    inv = sum(r["invocations"] for r in results)
    nseq = sum(r["sequences"] for r in results)
    nontriv = sum(r["nontrivial"] for r in results)
    refused = {}
    for r in results:
        if r["refused"]:
            refused[r["shape"]] = refused.get(r["shape"], 0) + r["refused"]
    fails = sorted((f for r in results for f in r["fails"]), key=lambda f: (len(f["sequence"]), json.dumps(f, sort_keys=True, default=repr)))
    seen = set()
    for f in fails:
        dj = json.dumps(f, sort_keys=True, default=repr)
        fn = "LambdaElement._retrieve_tracker_rec"
        k = run.match_known(function=fn, input=dj)
        if k is not None:
            run.known_finding(k, "bounded invocation sequences")
            continue
        cls = (f["shape"], f["clause"])
        if cls in seen or len(seen) >= 10:
            continue
        seen.add(cls)
        run.violation("C17-%s-%s-%08d" % (f["shape"], f["clause"], abs(hash(dj)) % 10 ** 8),
                      dict(function=fn, input=f, expected=f.get("expected"), actual=f.get("got"),
                           reason="lambda statement differs from the directly built statement for the current closure values"))
    samples = []
    chain_sample = [[[["wx", 1], ["ord"], ["lim", 4]]], [[["win", {"list": [1, 4]}], ["ord"], ["lim", 2]]], [[["wx", 2], ["win", {"list": [2, 3, 5]}], ["ord"], ["lim", 5]]]]
    for shape, seq in (("column_from_closure", [["col:a.id"], ["col:b.x"], ["col:a.id"]]), ("in_list", [[{"list": [0]}], [{"list": [1, 2]}], [{"list": []}]]), (CHAIN, chain_sample),
                       ("entity_kinds_linked", [["cls:A", 0], ["aliased:B", 0], ["cls:B", 1]])):
        n, f, outcomes = run_sequence(shape, seq)
        lam, plain = SHAPES[shape][0](*[resolve(x) for x in seq[-1]])
        sent, rows = execute(lam, SHAPES[shape][2], cache=True)
        samples.append(dict(shape=shape, sequence=seq, outcomes=outcomes, last_sql_sent=sent, last_rows=rows))
    if nseq == 0 or nontriv < 2:
        run.crashes.append("C17: vacuous run")
    run.coverage.update(
        evaluations=inv, sequences=nseq, distinct_nontrivial=nontriv, refused_invocations=refused,
        structural_kind_sequences={sh: sum(r["sequences"] for r in results if r["shape"] == sh) for sh in STRUCTURAL_SHAPES},
        structural_kind_sequences_nontrivial={sh: sum(r["nontrivial"] for r in results if r["shape"] == sh) for sh in STRUCTURAL_SHAPES},
        sequences_skipped_after_hang=sum(r["skipped_after_hang"] for r in results),
        chain_scope=chain_scope, chain_invocations=sum(r["invocations"] for r in results if r["shape"] == CHAIN),
        rule="every sequence of 1..%d argument tuples from each shape's pool (1..min(%d, 4) for the structural role x kind shapes), and every linked-chain sequence of chain_scope (exhaustive; distinct by construction); one evaluation = one invocation "
             "(lambda statement and direct statement both executed, SQL + parameters + rows compared); a sequence is non-trivial when it contains at least two "
             "different argument tuples and at least one invocation compared equal (i.e. was not refused)" % (length, length),
        samples=samples, exhaustive=True,
        scope="%d lambda shapes %s x all invocation sequences of length <= %d over their value pools (scalars, None, strings, lists for IN of length 0..3, "
              "columns / tables / ORM attributes / subqueries from the closure, module global, object attribute with and without track_on, nested += criteria, "
              "with_loader_criteria lambdas; structural closure values by role x kind - shapes %s - with pools %s); caches (AnalyzedCode._fns, _closure_per_cache_key, engine compiled cache) emptied before each sequence and shared "
              "within it; linked chains lambda_stmt(base) += link... : all %d chains of <= %d links after the base over the link pool %s, all %d ordered pairs (X, Y) invoked as X, Y, X, Y (X, Y, X when a chain has 4 links) "
              "and all %d ordered triples of different chains of <= 2 links, fresh closure values at every invocation; SQLite, qmark rendering"
              % (len(SHAPES) - 1, [x for x in SHAPES if x != CHAIN], length, STRUCTURAL_SHAPES, {sh: SHAPES[sh][1] for sh in STRUCTURAL_SHAPES}, chain_scope["chains"], chain_scope["max_links_after_base"], chain_scope["links"], chain_scope["pair_sequences"], chain_scope["triple_sequences"]),
        contract_failures=len(fails), wall_s=round(time.time() - t0, 1))
    run.assumptions += [
        "bytecode analysis is CPython-version specific (3.12 here)",
        "the directly built statement executed with compiled_cache=None is the specification of the lambda statement",
        "a documented InvalidRequestError / ArgumentError refusal is an allowed outcome (counted in refused_invocations)",
        "a statement / execution that needs more than HANG_CPU_S = %.1f s of CPU time is judged not to return" % HANG_CPU_S,
        "outside: lambdas with enable_tracking=False / track_closure_variables=False / track_bound_values=False (documented to skip tracking), threads",
    ]


def replay(data):
    inp = data["input"]
    n, f, outcomes = run_sequence(inp["shape"], inp["sequence"])
    if f is not None:
        print(f"REPLAY-FAILS LambdaElement shape={inp['shape']} sequence={inp['sequence']} invocation={f['invocation']} clause={f['clause']} "
              f"expected={f['expected']} got={f['got']}")
        return 1
    print(f"REPLAY-PASSES shape={inp['shape']} sequence={inp['sequence']} outcomes={outcomes}")
    return 0
