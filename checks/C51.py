"""C51 — pickling and ext.serializer round trips preserve the abstract views (bounded run-time contract check, inverse pairs).

Functions under contract (real code): InstanceState.__getstate__ / __setstate__, ClassManager._serialize /
_SerializeManager.__call__, BaseRow.__reduce__ / rowproxy_reconstructor, CursorResultMetaData.__getstate__ / __setstate__,
SimpleResultMetaData.__getstate__ / __setstate__, FrozenResult, MetaData / Table / Column pickling, Load / _LoadElement
__getstate__ / __setstate__, PathRegistry.serialize / deserialize, ext.serializer.Serializer / Deserializer.

Inverse-pair contracts, each with a per-type abstraction function that abstracts object identity:
  O1  view(loads(dumps(obj, protocol))) == expected_view(obj)        mapped instances in every lifecycle state
      view(InstanceState) = (key, committed_state, modified, expired, expired_attributes, callables keys,
      _pending_mutations keys, parents, load_options (by cache key), load_path, info, loaded attributes / values,
      related objects by (class, primary key)); lifecycle flags change as documented (persistent -> detached, pending -> transient)
  O2  new.__setstate__(old.__getstate__())  ==>  view(new) == view(old)   (the pair without pickle in between)
  O3  a round-tripped persistent / detached object re-attached to a Session loads its expired / deferred attributes
      from the database with the stored values (the state is *usable*, not only equal)
  R1  view(loads(dumps(row))) == view(row), view(Row) = (tuple, keys, key -> value | ambiguous, _fields); lists of rows
  R2  loads(dumps(result.freeze()))().all() gives the same rows and keys
  M1  view(loads(dumps(metadata))) == view(metadata), view = structural dump + CREATE TABLE DDL per dialect
  L1  loads(dumps(option)) has the same cache key and yields the same ORM-compiled SQL on select(entity).options(option)
  S1  serializer.loads(serializer.dumps(stmt), metadata) compiles to the same string and parameters on two dialects and
      returns the same rows on SQLite (DML: has the same effect on the tables, observed inside a rolled-back transaction)
  S2  serializer.loads(serializer.dumps(x), metadata) is x  for a Table / a Column of a Table of that MetaData
  S3  "equal in state" for statements: collections_view(loads(dumps(stmt))) == collections_view(stmt), where collections_view = for every
      selectable inside the statement (SelectBase.selected_columns / exported_columns, FromClause.c / exported_columns / primary_key /
      foreign_keys) the answers of EVERY read operation of the ColumnCollection interface (keys, iteration, [key], [index], [tuple], [slice],
      get, attribute access, `in`, items, values, contains_column, corresponding_column), a returned column being named by its position in
      the collection; and the statements derived from a Select through a by-key lookup (`with_only_columns(selected_columns[k])`) have the
      same SQL and return the same rows.  M1's view contains the same collection view of Table.c / primary key / constraint / index columns.
for pickle protocols 2..5.

Every statement of S1 / S3 is serialized in two histories: "fresh" (built and serialized at once, nothing memoized on it) and "memoized"
(its column collections were read and it was compiled before it is serialized, as an application that inspected or executed it does;
memoized attributes travel in the pickle).

Scope of S1 / S2 (exact numbers in coverage.scope): (a) a fixed catalogue of ORM / Core statements over the un-schema'd mappings;
(b) GENERATED over a second MetaData whose table names are not unique — "users" without a schema and in the schemas "archive" and
"attic", "things" in both schemas only, "notes" without a schema, foreign keys across schemas, every table with a column whose
.key differs from its .name, three mapped classes on them — every statement shape (whole table, column list + where, alias,
alias self-join, subquery, CTE, labels + aggregate, scalar subquery, correlated exists, bare criterion, bare Table, every bare
Column, INSERT / UPDATE / DELETE) x every table, every pair shape (join, IN-subquery, UNION ALL, foreign-key join) x every
ordered pair of tables, plus ORM statements on the schema-qualified classes; executed on SQLite with the schemas ATTACHed, each
table holding different rows.

Scope of S3 on colliding keys (part "collections", GENERATED): every sequence of 1..2 (thorough: 1..3) column expressions, repetition
allowed, over a pool of 6 expressions of 3 of those tables in which column names, keys and explicit labels collide (users.id, users.name,
archive.users.id, archive.users.rank, notes.body AS name, users.id + 1 AS id) x statement shape (select, select from a subquery of it,
text().columns(), UNION ALL) x label style (NONE: colliding keys stay; DISAMBIGUATE_ONLY; TABLENAME_PLUS_COL) x history (fresh, memoized)
x channel (ext.serializer against the MetaData, plain pickle) x protocol; statements that SQLAlchemy itself refuses to build are counted
and skipped.
"""
import json
import pickle
import re
import time
import warnings

from sqlalchemy import Column, ForeignKey, Integer, String, Table
from sqlalchemy.orm import declarative_base, deferred, relationship, column_property

LEVEL = "exploration"
PROTOCOLS = (2, 3, 4, 5)

# ---- mapping 1: parent / child, declarative (module level: pickle needs importable classes)
Base = declarative_base()


class P(Base):
    __tablename__ = "p"
    id = Column(Integer, primary_key=True)
    x = Column(Integer)
    big = deferred(Column(String))
    children = relationship("C", back_populates="parent", order_by="C.id")


class C(Base):
    __tablename__ = "c"
    id = Column(Integer, primary_key=True)
    pid = Column(ForeignKey("p.id"))
    y = Column(Integer)
    parent = relationship("P", back_populates="children")


# ---- mapping 2: self-referential tree with a many-to-many and a column_property
node_tag = Table("node_tag", Base.metadata, Column("node_id", ForeignKey("node.id"), primary_key=True), Column("tag_id", ForeignKey("tag.id"), primary_key=True))


class Node(Base):
    __tablename__ = "node"
    id = Column(Integer, primary_key=True)
    parent_id = Column(ForeignKey("node.id"))
    name = Column(String)
    name_upper = column_property(name + "!")
    kids = relationship("Node", order_by="Node.id")
    tags = relationship("Tag", secondary=node_tag, order_by="Tag.id")


class Tag(Base):
    __tablename__ = "tag"
    id = Column(Integer, primary_key=True)
    label = Column(String)


_ENV = {}


def env():
    if _ENV:
        return _ENV
    warnings.simplefilter("ignore")
    from sqlalchemy import create_engine
    from sqlalchemy.orm import Session
    e = create_engine("sqlite://")
    Base.metadata.create_all(e)
    with Session(e) as s:
        s.add(P(id=1, x=10, big="B", children=[C(id=1, y=100), C(id=2, y=200)]))
        s.add(P(id=2, x=20, big="BB", children=[]))
        t1, t2 = Tag(id=1, label="t1"), Tag(id=2, label="t2")
        s.add(Node(id=1, name="root", tags=[t1, t2], kids=[Node(id=2, name="k1", tags=[t1]), Node(id=3, name="k2")]))
        s.commit()
    _ENV["e"] = e
    return _ENV


# ------------------------------------------------------------------------------------------------ views
def abstract(v, depth=0):
    """abstract a value held in an instance dict / committed_state: identity of mapped objects -> (class, primary key)"""
    from sqlalchemy import inspect
    from sqlalchemy.orm.attributes import PASSIVE_NO_RESULT, NO_VALUE, NEVER_SET
    if v is None or isinstance(v, (int, str, float, bool)):
        return v
    if v is PASSIVE_NO_RESULT or v is NO_VALUE or v is NEVER_SET:
        return "symbol:" + v.name
    if isinstance(v, (list, tuple, set, frozenset)):
        xs = [abstract(x, depth) for x in v]
        return ["coll:" + type(v).__name__] + (sorted(xs, key=repr) if isinstance(v, (set, frozenset)) else xs)
    if isinstance(v, dict):
        return {"dict": sorted([[abstract(k, depth), abstract(x, depth)] for k, x in v.items()], key=repr)}
    st = inspect(v, raiseerr=False)
    if st is not None and hasattr(st, "mapper"):
        ident = st.key[1] if st.key else tuple(st.dict.get(c.key) for c in st.mapper.primary_key)
        return "obj:%s%r" % (type(v).__name__, tuple(ident))
    return "other:" + type(v).__name__


def _expand_cache_key(key, seen):
    """a cache key tuple with object identity abstracted: entries `(n, cls, ...)` name an object, a later bare `(n, cls)` refers back to
    it; the back references are expanded and the numbers dropped, so two structurally equal options give the same value whether or
    not their sub-objects are shared"""
    if isinstance(key, tuple):
        if len(key) >= 2 and isinstance(key[0], int) and isinstance(key[1], type):
            if len(key) == 2 and key[0] in seen:
                return seen[key[0]]
            val = ("obj", key[1].__name__) + tuple(_expand_cache_key(k, seen) for k in key[2:])
            seen[key[0]] = val
            return val
        return tuple(_expand_cache_key(k, seen) for k in key)
    return key


def option_view(opt):
    try:
        ck = opt._generate_cache_key()
        return repr(_expand_cache_key(ck.key, {})) if ck is not None else "nocache:" + type(opt).__name__
    except Exception as e:  # noqa: BLE001
        return "cachekey-error:" + type(e).__name__


def state_view(o):
    from sqlalchemy import inspect
    st = inspect(o)
    d = {
        "class": type(o).__name__,
        "key": None if st.key is None else [st.key[0].__name__, list(st.key[1]), st.key[2]],
        "identity_token": st.identity_token,
        "modified": bool(st.modified),
        "expired": bool(st.expired),
        "expired_attributes": sorted(st.expired_attributes),
        "committed_state": {k: abstract(v) for k, v in sorted(st.committed_state.items())},
        "callables": sorted(st.callables) if "callables" in st.__dict__ else [],
        "pending_mutations": sorted(st._pending_mutations) if "_pending_mutations" in st.__dict__ else [],
        "parents": sorted([[k, abstract(v.obj()) if hasattr(v, "obj") else repr(v)] for k, v in st.parents.items()], key=repr) if "parents" in st.__dict__ else [],
        "load_options": [option_view(x) for x in st.load_options],
        "load_path": repr(st.load_path.serialize()) if st.load_path else None,
        "info": {k: abstract(v) for k, v in sorted(st.info.items())} if "info" in st.__dict__ else {},
        "loaded": {k: abstract(v) for k, v in sorted(st.dict.items()) if not k.startswith("_sa")},
        "flags": [n for n in ("transient", "pending", "persistent", "deleted", "detached") if getattr(st, n)],
        "unloaded": sorted(st.unloaded),
    }
    return d


def expected_after_pickle(v):
    v = json.loads(json.dumps(v, default=repr))
    v["flags"] = {"persistent": ["detached"], "pending": ["transient"], "deleted": ["detached"]}.get(v["flags"][0], v["flags"])
    return v


def row_view(row):
    from sqlalchemy import exc
    keys = list(row._mapping.keys())
    look = {}
    for k in dict.fromkeys(keys):
        try:
            look[k] = abstract(row._mapping[k])
        except exc.InvalidRequestError:
            look[k] = "AMBIGUOUS"
    return dict(values=[abstract(x) for x in tuple(row)], keys=keys, fields=list(row._fields), lookup=look)


def metadata_view(md):
    from sqlalchemy.schema import CreateTable, CreateIndex
    from sqlalchemy.dialects import sqlite, postgresql
    out = {"naming_convention": sorted((str(k), str(v)) for k, v in md.naming_convention.items()), "schema": md.schema, "tables": {}}
    for name in sorted(md.tables):
        t = md.tables[name]
        cols = []
        for c in t.columns:
            cols.append(dict(name=c.name, key=c.key, type=repr(c.type), nullable=c.nullable, pk=c.primary_key, autoincrement=repr(c.autoincrement),
                             default=None if c.default is None else repr(getattr(c.default, "arg", c.default)), server_default=None if c.server_default is None else str(getattr(c.server_default, "arg", getattr(c.server_default, "sqltext", type(c.server_default).__name__))),
                             comment=c.comment, index=c.index, unique=c.unique, info=dict(c.info),
                             fks=sorted((fk.target_fullname, fk.ondelete, fk.onupdate, fk.name) for fk in c.foreign_keys), identity=repr(c.identity) if c.identity is not None else None,
                             computed=str(c.computed.sqltext) if c.computed is not None else None))
        cons = sorted((type(k).__name__, str(k.name), [c.name for c in getattr(k, "columns", [])], str(getattr(k, "sqltext", ""))) for k in t.constraints)
        idx = sorted((i.name, [getattr(c, "name", str(c)) for c in i.expressions], bool(i.unique)) for i in t.indexes)
        ddl = {}
        for dn, d in (("sqlite", sqlite.dialect()), ("postgresql", postgresql.dialect())):
            try:
                ddl[dn] = [str(CreateTable(t).compile(dialect=d))] + sorted(str(CreateIndex(i).compile(dialect=d)) for i in t.indexes)
            except Exception as e:  # noqa: BLE001
                ddl[dn] = "ddl-error:" + type(e).__name__
        out["tables"][name] = dict(schema=t.schema, columns=cols, constraints=cons, indexes=idx, ddl=ddl, comment=t.comment, info=dict(t.info),
                                   pk=[c.name for c in t.primary_key.columns],
                                   collections=dict(c=coll_view(t.c), primary_key=coll_view(t.primary_key.columns),
                                                    constraints=sorted((coll_view(k.columns) for k in t.constraints if hasattr(k, "columns")), key=repr),
                                                    indexes=sorted((coll_view(i.columns) for i in t.indexes), key=repr)))
    return out


def stmt_view(stmt):
    from sqlalchemy.dialects import sqlite, postgresql
    out = {}
    for dn, d in (("sqlite", sqlite.dialect()), ("postgresql", postgresql.dialect())):
        c = stmt.compile(dialect=d)
        out[dn] = [str(c), {k: abstract(v) for k, v in sorted(c.params.items())}]
    return out


def col_id(c):
    """a column expression with identity abstracted: its kind (visit name: ORM annotation wrappers are representation), the name of the
    selectable it belongs to, its rendering"""
    t = getattr(c, "table", None)
    try:
        txt = str(c)
    except Exception as e:  # noqa: BLE001
        txt = "str-error:" + type(e).__name__
    return [getattr(c, "__visit_name__", type(c).__name__), None if t is None else str(getattr(t, "fullname", None) or getattr(t, "name", None) or type(t).__name__), txt]


def coll_view(cc):
    """abstract view of a ColumnCollection = the answers of every read operation of its interface; a column that an operation returns is
    named by the position(s) it has in the collection itself (identity abstracted), or by col_id when it is not a member"""
    cols = list(cc)

    def pos(c):
        if c is None:
            return None
        at = [i for i, x in enumerate(cols) if x is c]
        return at if at else ["not-a-member"] + col_id(c)

    def attempt(f):
        try:
            return f()
        except Exception as e:  # noqa: BLE001
            return "exc:" + type(e).__name__
    keys = list(cc.keys())
    uniq = list(dict.fromkeys(keys))
    anon = {}

    def kname(k):       # anonymous label keys "%(<id of the object> name)s": the id is numbered by first appearance
        return re.sub(r"%\((\d+) ", lambda m: "%%(anon#%d " % anon.setdefault(m.group(1), len(anon) + 1), repr(k))
    v = dict(type=type(cc).__name__, len=len(cc), keys=[kname(k) for k in keys], columns=[col_id(c) for c in cols])
    v["getitem_key"] = {kname(k): attempt(lambda: pos(cc[k])) for k in uniq}
    v["get"] = {kname(k): attempt(lambda: pos(cc.get(k))) for k in uniq}
    v["getattr"] = {k: attempt(lambda: pos(getattr(cc, k))) for k in uniq if isinstance(k, str) and k.isidentifier() and not k.startswith("_")}
    v["contains_key"] = {kname(k): attempt(lambda: k in cc) for k in uniq}
    v["getitem_index"] = [attempt(lambda: pos(cc[i])) for i in range(len(cols))]
    v["getitem_beyond"] = attempt(lambda: pos(cc[len(cols)]))
    v["items"] = attempt(lambda: [[kname(k), pos(c)] for k, c in cc.items()])
    v["values"] = attempt(lambda: [pos(c) for c in cc.values()])
    v["getitem_tuple"] = attempt(lambda: [pos(c) for c in cc[tuple(uniq)]]) if uniq else []
    v["getitem_slice"] = attempt(lambda: [pos(c) for c in cc[0:2]])
    v["contains_column"] = [attempt(lambda: cc.contains_column(c)) for c in cols]
    v["corresponding_column"] = [attempt(lambda: pos(cc.corresponding_column(c))) for c in cols]
    v["absent_key"] = [attempt(lambda: "no such key" in cc), attempt(lambda: cc.get("no such key") is None)]
    return v


def collections_view(stmt):
    """the column collections of every selectable inside a statement / expression / Table (visitors.iterate order, each object once):
    SelectBase.selected_columns / exported_columns / _all_selected_columns, FromClause.c / exported_columns / primary_key / foreign_keys"""
    from sqlalchemy.sql import visitors
    from sqlalchemy.sql.selectable import SelectBase, FromClause
    out, seen = [], set()
    for el in visitors.iterate(stmt):
        if id(el) in seen or not isinstance(el, (SelectBase, FromClause)):
            continue
        seen.add(id(el))
        d = dict(element=type(el).__name__ + ":" + str(getattr(el, "name", "")))
        if isinstance(el, SelectBase):
            d["selected_columns"] = coll_view(el.selected_columns)
            d["exported_columns"] = coll_view(el.exported_columns)
            d["all_selected_columns"] = [col_id(c) for c in el._all_selected_columns]
        if isinstance(el, FromClause):
            d["c"] = coll_view(el.c)
            d["exported_columns"] = coll_view(el.exported_columns)
            pk, fks = el.primary_key, el.foreign_keys      # a FunctionElement is a FromClause and a ColumnElement: primary_key is False there
            d["primary_key"] = [col_id(c) for c in pk] if not isinstance(pk, bool) else pk
            d["foreign_keys"] = sorted(repr(col_id(fk.parent) + col_id(fk.column)) for fk in fks) if not isinstance(fks, bool) else fks
        out.append(d)
    return json.loads(json.dumps(out, default=repr))


# ------------------------------------------------------------------------------------------------ part O: mapped instances
def orm_makers():
    """-> list of (name, maker) with maker() -> (session-or-None, object)"""
    from sqlalchemy import select
    from sqlalchemy.orm import Session, selectinload, joinedload, defer, undefer, lazyload, load_only, subqueryload, raiseload, immediateload
    e = env()["e"]
    out = []
    out.append(("transient-empty", lambda: (None, P())))
    out.append(("transient-values", lambda: (None, P(id=9, x=1, children=[C(id=90, y=9)]))))
    out.append(("transient-info", lambda: (None, _with_info(P(id=9, x=1)))))

    def pending():
        s = Session(e)
        o = P(id=8, x=2, children=[C(id=80)])
        s.add(o)
        return s, o
    out.append(("pending", pending))

    def pending_child():
        s = Session(e)
        p = s.get(P, 2)
        c = C(id=81, y=5)
        p.children.append(c)
        return s, c
    out.append(("pending-child-of-persistent", pending_child))
    opts = [("none", ()), ("selectin", (selectinload(P.children),)), ("joined", (joinedload(P.children),)), ("subquery", (subqueryload(P.children),)),
            ("immediate", (immediateload(P.children),)), ("defer-x", (defer(P.x),)), ("undefer-big", (undefer(P.big),)), ("lazy", (lazyload(P.children),)),
            ("load_only-x", (load_only(P.x),)), ("raiseload", (raiseload(P.children),)),
            ("selectin-joined-nested", (selectinload(P.children).joinedload(C.parent),)), ("defer+joined", (defer(P.x), joinedload(P.children)))]
    for optname, opt in opts:
        def persistent(opt=opt):
            s = Session(e)
            o = s.scalars(select(P).where(P.id == 1).options(*opt)).unique().first()
            return s, o
        out.append(("persistent-" + optname, persistent))

        def detached(opt=opt):
            s = Session(e)
            o = s.scalars(select(P).where(P.id == 1).options(*opt)).unique().first()
            s.close()
            return None, o
        out.append(("detached-" + optname, detached))

    def child_via_selectin():
        s = Session(e)
        o = s.scalars(select(P).where(P.id == 1).options(selectinload(P.children))).first()
        return s, o.children[0]
    out.append(("persistent-child-loaded-by-selectin", child_via_selectin))

    def expired():
        s = Session(e)
        o = s.get(P, 1)
        s.expire(o)
        return s, o
    out.append(("expired", expired))

    def expired_detached():
        s = Session(e)
        o = s.get(P, 1)
        s.expire(o)
        s.expunge(o)
        return None, o
    out.append(("expired-detached", expired_detached))

    def partexp():
        s = Session(e)
        o = s.get(P, 1)
        s.expire(o, ["x"])
        return s, o
    out.append(("partially-expired-x", partexp))

    def partexp2():
        s = Session(e)
        o = s.get(P, 1)
        o.children
        s.expire(o, ["children", "x"])
        return s, o
    out.append(("partially-expired-children-x", partexp2))

    def committed_expired():
        s = Session(e)
        o = s.get(P, 1)
        o.x = 10
        s.commit()
        return s, o
    out.append(("expired-by-commit", committed_expired))

    def modified():
        s = Session(e)
        o = s.get(P, 1)
        o.x = 11
        o.children.pop()
        return s, o
    out.append(("modified-scalar-and-collection", modified))

    def modified_append():
        s = Session(e, autoflush=False)
        o = s.get(P, 1)
        o.children.append(C(id=77, y=7))
        o.big = "changed"
        return s, o
    out.append(("modified-append-and-deferred-set", modified_append))

    def pending_mut():
        s = Session(e, autoflush=False)
        o = s.get(P, 2)
        s.expire(o, ["children"])
        # backref append onto an unloaded collection queues a pending mutation
        c = C(id=78, y=8, parent=o)
        return s, o
    out.append(("pending-mutation-on-unloaded-collection", pending_mut))

    def deleted_marked():
        s = Session(e, autoflush=False)
        o = s.get(P, 2)
        s.delete(o)
        return s, o
    out.append(("persistent-marked-deleted", deleted_marked))

    def node(opts_=()):
        def mk():
            s = Session(e)
            o = s.scalars(select(Node).where(Node.id == 1).options(*opts_)).unique().first()
            return s, o
        return mk
    out.append(("node-plain", node()))
    out.append(("node-selectin-kids-tags", node((selectinload(Node.kids).selectinload(Node.tags), selectinload(Node.tags)))))
    out.append(("node-joined-tags", node((joinedload(Node.tags),))))
    out.append(("node-defer-column_property", node((defer(Node.name_upper),))))

    def node_kid():
        s = Session(e)
        o = s.scalars(select(Node).where(Node.id == 1).options(selectinload(Node.kids))).first()
        return s, o.kids[0]
    out.append(("node-kid-with-parents-entry", node_kid))
    return out


def _with_info(o):
    from sqlalchemy import inspect
    inspect(o).info["note"] = "n1"
    inspect(o).info["n"] = 3
    return o


def reattach_probe(o2):
    """O3: the round-tripped object works in a new Session: expired / deferred / unloaded column attributes load the stored values"""
    from sqlalchemy import inspect
    from sqlalchemy.orm import Session
    st = inspect(o2)
    if st.key is None or not isinstance(o2, (P, Node)):
        return None
    if st.modified:
        return None
    want = {P: {1: dict(x=10, big="B"), 2: dict(x=20, big="BB")}, Node: {1: dict(name="root", name_upper="root!")}}[type(o2)].get(st.key[1][0])
    if want is None:
        return None
    with Session(env()["e"]) as s:
        s.add(o2)
        got = {}
        for k in want:
            try:
                got[k] = getattr(o2, k)
            except Exception as e:  # noqa: BLE001
                got[k] = "exc:" + type(e).__name__
        s.expunge(o2)
    return want, got


def part_orm(results):
    from sqlalchemy.orm.state import InstanceState
    from sqlalchemy import inspect
    for name, mk in orm_makers():
        for proto in PROTOCOLS + ("setstate",):
            s, o = mk()
            case = dict(part="orm", subject=name, protocol=proto)
            try:
                v1 = state_view(o)
                nontrivial = bool(v1["committed_state"] or v1["expired_attributes"] or v1["load_options"] or v1["callables"] or v1["pending_mutations"] or v1["parents"]
                                  or v1["info"] or any(isinstance(x, list) and len(x) > 1 for x in v1["loaded"].values()))
                if proto == "setstate":
                    st = inspect(o)
                    sd = st.__getstate__()
                    new = InstanceState.__new__(InstanceState)
                    new.__setstate__(sd)
                    v2 = state_view(new.obj())
                    want = json.loads(json.dumps(v1, default=repr))
                    if inspect(new.obj()) is not new:
                        results.fail(case, "O2 the instance carries the new state", True, False)
                    # a state installed this way is not in any session: same documented flag change as unpickling
                    want = expected_after_pickle(v1)
                    results.check(case, "O2 view(setstate(getstate(s))) == view(s)", want, json.loads(json.dumps(v2, default=repr)), nontrivial)
                else:
                    o2 = pickle.loads(pickle.dumps(o, proto))
                    v2 = state_view(o2)
                    results.check(case, "O1 view(loads(dumps(o))) == view(o)", expected_after_pickle(v1), json.loads(json.dumps(v2, default=repr)), nontrivial)
                    if proto == PROTOCOLS[-1]:
                        if s is not None:
                            s.close()
                            s = None
                        r = reattach_probe(o2)
                        if r is not None:
                            results.check(dict(case, protocol="%s+reattach" % proto), "O3 reattached object loads stored values", r[0], r[1], True)
            except Exception as ex:  # noqa: BLE001
                results.fail(case, "no-exception", "round trip succeeds", f"{type(ex).__name__}: {ex}"[:300])
            finally:
                if s is not None:
                    s.close()


# ------------------------------------------------------------------------------------------------ part R: rows / frozen results
def row_sources():
    from sqlalchemy import select, text, literal_column, func
    from sqlalchemy.orm import Session
    e = env()["e"]
    pt, ct = P.__table__, C.__table__
    core = [
        ("text-1col", lambda c: c.execute(text("select 1 as a"))),
        ("text-2col", lambda c: c.execute(text("select 1 as a, 'x' as b"))),
        ("text-3col", lambda c: c.execute(text("select 1 as a, 'x' as b, null as c"))),
        ("text-dup-keys", lambda c: c.execute(text("select 1 as a, 2 as a, 3 as b"))),
        ("text-empty", lambda c: c.execute(text("select 1 as a, 2 as b where 0"))),
        ("core-table-cols", lambda c: c.execute(select(pt.c.id, pt.c.x).order_by(pt.c.id))),
        ("core-join-colliding-names", lambda c: c.execute(select(pt.c.id, ct.c.id, ct.c.y).join_from(pt, ct).order_by(ct.c.id))),
        ("core-labels-func", lambda c: c.execute(select(pt.c.id.label("pk"), func.count(ct.c.id).label("n")).join_from(pt, ct, isouter=True).group_by(pt.c.id).order_by(pt.c.id))),
        ("core-anon-expr", lambda c: c.execute(select(pt.c.x + 1, literal_column("'lit'")).order_by(pt.c.id))),
    ]
    orm = [
        ("orm-columns", lambda s: s.execute(select(P.id, P.x).order_by(P.id))),
        ("orm-entity", lambda s: s.execute(select(P).order_by(P.id))),
        ("orm-entity-and-column", lambda s: s.execute(select(P, C.y).join(P.children).order_by(C.id))),
    ]
    return core, orm


def part_rows(results):
    from sqlalchemy.orm import Session
    e = env()["e"]
    core, orm = row_sources()
    for kind, sources in (("core", core), ("orm", orm)):
        for name, ex in sources:
            for proto in PROTOCOLS:
                case = dict(part="rows", subject=name, protocol=proto)
                ctx = e.connect() if kind == "core" else Session(e)
                try:
                    rows = ex(ctx).all()
                    back = pickle.loads(pickle.dumps(rows, proto))
                    results.check(case, "R1 view(loads(dumps(rows))) == view(rows)", [row_view(r) for r in rows], [row_view(r) for r in back], bool(rows) and len(rows[0]) > 1)
                    if rows:
                        one = pickle.loads(pickle.dumps(rows[0], proto))
                        results.check(dict(case, subject=name + ":single-row"), "R1 view(loads(dumps(row))) == view(row)", row_view(rows[0]), row_view(one), len(rows[0]) > 1)
                    res = ex(ctx)
                    fr = res.freeze()
                    want = dict(keys=list(fr().keys()), rows=[row_view(r) for r in fr().all()])
                    fr2 = pickle.loads(pickle.dumps(fr, proto))
                    got = dict(keys=list(fr2().keys()), rows=[row_view(r) for r in fr2().all()])
                    results.check(dict(case, subject=name + ":frozen"), "R2 frozen result replays the same rows after pickling", want, got, bool(rows))
                    want2 = dict(rows=[row_view(r) for r in rows])
                    results.check(dict(case, subject=name + ":frozen-vs-live"), "R2 frozen rows == live rows", want2, dict(rows=want["rows"]), bool(rows))
                except Exception as exn:  # noqa: BLE001
                    results.fail(case, "no-exception", "round trip succeeds", f"{type(exn).__name__}: {exn}"[:300])
                finally:
                    ctx.close()


# ------------------------------------------------------------------------------------------------ part M: MetaData
def synthetic_metadata():
    from sqlalchemy import MetaData, Table, Column, Integer, String, Numeric, Boolean, DateTime, Enum, ForeignKey, ForeignKeyConstraint, UniqueConstraint, CheckConstraint, Index, Identity, Computed, Sequence, text, func
    md = MetaData(naming_convention={"ix": "ix_%(column_0_label)s", "uq": "uq_%(table_name)s_%(column_0_name)s", "fk": "fk_%(table_name)s_%(column_0_name)s_%(referred_table_name)s",
                                     "pk": "pk_%(table_name)s", "ck": "ck_%(table_name)s_%(constraint_name)s"})
    Table("acct", md, Column("id", Integer, Identity(start=5), primary_key=True), Column("code", String(10), nullable=False, unique=True, comment="the code"),
          Column("kind", Enum("a", "b", name="kind_enum"), server_default="a"), Column("amount", Numeric(10, 2), default=0),
          Column("flag", Boolean, server_default=text("0")), Column("created", DateTime, server_default=func.now()),
          Column("dbl", Integer, Computed("amount * 2")), CheckConstraint("amount >= 0", name="nonneg"), comment="accounts", info={"owner": "x"})
    Table("entry", md, Column("acct_id", Integer, ForeignKey("acct.id", ondelete="CASCADE", onupdate="RESTRICT"), primary_key=True), Column("seq", Integer, primary_key=True, autoincrement=False),
          Column("ref_a", Integer), Column("ref_b", Integer), Column("memo", String, key="note", info={"k": 1}), Column("idx", Integer, index=True),
          ForeignKeyConstraint(["ref_a", "ref_b"], ["entry.acct_id", "entry.seq"], name="self_ref", use_alter=True), UniqueConstraint("ref_a", "ref_b"), Index("ix_memo_seq", "note", "seq", unique=True))
    Table("other", md, Column("id", Integer, Sequence("other_seq"), primary_key=True), Column("acct_code", String(10), ForeignKey("acct.code")), schema="s2")
    return md


def part_metadata(results):
    from sqlalchemy import MetaData, Table, Column, Integer
    subjects = [("orm-base-metadata", Base.metadata), ("synthetic-constraints-schema-naming", synthetic_metadata()), ("empty", MetaData()),
                ("single-table", (lambda m: (Table("t", m, Column("id", Integer, primary_key=True)), m)[1])(MetaData(schema="dflt")))]
    for name, md in subjects:
        for proto in PROTOCOLS:
            case = dict(part="metadata", subject=name, protocol=proto)
            try:
                want = metadata_view(md)
                got = metadata_view(pickle.loads(pickle.dumps(md, proto)))
                results.check(case, "M1 view(loads(dumps(metadata))) == view(metadata)", json.loads(json.dumps(want, default=repr)), json.loads(json.dumps(got, default=repr)), len(md.tables) > 0)
            except Exception as ex:  # noqa: BLE001
                results.fail(case, "no-exception", "round trip succeeds", f"{type(ex).__name__}: {ex}"[:300])
    # a single Table / Column pickled on its own carries its MetaData
    md = synthetic_metadata()
    for proto in PROTOCOLS:
        case = dict(part="metadata", subject="table-entry-alone", protocol=proto)
        try:
            t2 = pickle.loads(pickle.dumps(md.tables["entry"], proto))
            results.check(case, "M1 table round trip carries its metadata", metadata_view(md)["tables"]["entry"], metadata_view(t2.metadata)["tables"]["entry"], True)
        except Exception as ex:  # noqa: BLE001
            results.fail(case, "no-exception", "round trip succeeds", f"{type(ex).__name__}: {ex}"[:300])


# ------------------------------------------------------------------------------------------------ part L: loader options
def loader_options():
    from sqlalchemy.orm import selectinload, joinedload, defer, undefer, lazyload, load_only, subqueryload, raiseload, contains_eager, Load, defaultload, noload, with_loader_criteria, undefer_group, immediateload
    return [
        ("selectinload", P, selectinload(P.children)), ("joinedload", P, joinedload(P.children)), ("joinedload-innerjoin", P, joinedload(P.children, innerjoin=True)),
        ("subqueryload", P, subqueryload(P.children)), ("lazyload", P, lazyload(P.children)), ("raiseload", P, raiseload(P.children)), ("noload", P, noload(P.children)),
        ("immediateload", P, immediateload(P.children)), ("defer", P, defer(P.x)), ("defer-raiseload", P, defer(P.x, raiseload=True)), ("undefer", P, undefer(P.big)),
        ("load_only", P, load_only(P.x)), ("load_only-2", P, load_only(P.x, P.big)), ("nested-selectin-joined", P, selectinload(P.children).joinedload(C.parent)),
        ("nested-joined-defer", P, joinedload(P.children).defer(C.y)), ("defaultload-load_only", P, defaultload(P.children).load_only(C.y)),
        ("Load-wildcard-defer", P, Load(P).defer("*")), ("Load-chain", P, Load(P).selectinload(P.children).load_only(C.y)),
        ("Load-options", P, Load(P).options(defer(P.x), selectinload(P.children))), ("wildcard-lazyload", P, lazyload("*")),
        ("node-selectin-recursion", Node, selectinload(Node.kids, recursion_depth=2)), ("node-m2m-joined", Node, joinedload(Node.tags)),
        ("node-nested-self", Node, selectinload(Node.kids).selectinload(Node.kids).joinedload(Node.tags)),
        ("child-to-parent", C, joinedload(C.parent).selectinload(P.children)),
    ]


def part_loader_options(results):
    from sqlalchemy import select
    for name, ent, opt in loader_options():
        for proto in PROTOCOLS:
            case = dict(part="loader-option", subject=name, protocol=proto)
            try:
                opt2 = pickle.loads(pickle.dumps(opt, proto))
                want = dict(cache_key=option_view(opt), sql=str(select(ent).options(opt).compile()), type=type(opt).__name__)
                got = dict(cache_key=option_view(opt2), sql=str(select(ent).options(opt2).compile()), type=type(opt2).__name__)
                results.check(case, "L1 same cache key and same ORM-compiled SQL", want, got, True)
            except Exception as ex:  # noqa: BLE001
                results.fail(case, "no-exception", "round trip succeeds", f"{type(ex).__name__}: {ex}"[:300])


# ------------------------------------------------------------------------------------------------ part S: ext.serializer
def serializer_statements():
    from sqlalchemy import select, func, and_, or_, literal, union_all, bindparam, case, exists
    from sqlalchemy.orm import aliased, selectinload, joinedload, defer
    pt, ct = P.__table__, C.__table__
    pa = aliased(P)
    return [
        ("orm-where-order", select(P).where(P.x > 5).order_by(P.id)),
        ("orm-join-in", select(P.id, C.y).join(C).where(C.y.in_([100, 200])).order_by(C.id)),
        ("orm-options-selectin", select(P).options(selectinload(P.children)).order_by(P.id)),
        ("orm-options-joined-defer", select(P).options(joinedload(P.children), defer(P.x)).order_by(P.id)),
        ("orm-aliased", select(pa.id, pa.x).where(pa.x >= 10).order_by(pa.id)),
        ("orm-subquery", select(P.id).where(P.id.in_(select(C.pid).where(C.y > 100).scalar_subquery())).order_by(P.id)),
        ("orm-exists", select(P.id).where(exists().where(C.pid == P.id)).order_by(P.id)),
        ("orm-func-group", select(P.id, func.count(C.id)).join(C, isouter=True).group_by(P.id).order_by(P.id)),
        ("orm-relationship-criteria", select(P.id).where(P.children.any(C.y == 200)).order_by(P.id)),
        ("orm-self-ref", select(Node.id, Node.name).where(Node.parent_id == 1).order_by(Node.id)),
        ("orm-m2m", select(Node.id, Tag.label).join(Node.tags).order_by(Node.id, Tag.id)),
        ("core-select", select(pt.c.id, pt.c.x).where(and_(pt.c.x > 1, or_(pt.c.id == 1, pt.c.id == 2))).order_by(pt.c.id)),
        ("core-join-labels", select(pt.c.id.label("pid"), ct.c.y.label("yy")).join_from(pt, ct).order_by(ct.c.id)),
        ("core-union", union_all(select(pt.c.id).where(pt.c.id == 1), select(ct.c.id).where(ct.c.y == 200))),
        ("core-case-literal", select(case((pt.c.x > 10, literal("big")), else_=literal("small")), pt.c.id).order_by(pt.c.id)),
        ("core-bindparam-limit", select(ct.c.id).where(ct.c.y >= bindparam("lo", 100)).order_by(ct.c.id).limit(1).offset(1)),
        ("core-alias-cte", (lambda cte: select(cte.c.id).where(cte.c.x > 5).order_by(cte.c.id))(select(pt).cte("pc"))),
        ("criterion-only", and_(P.x > 5, C.y.in_([1, 2]))),
        ("column-only", P.x),
        ("table-only", pt),
    ]


MEMO = ("fresh", "memoized")


def memoize(st):
    """what an application does to a statement before it serializes it: look at its column collections, compile it"""
    collections_view(st)
    stmt_view(st)


def part_serializer(results):
    from sqlalchemy.ext import serializer
    from sqlalchemy.orm import Session
    from sqlalchemy.sql import Select, CompoundSelect
    e = env()["e"]
    for memo in MEMO:
        for proto in PROTOCOLS:
            for name, st in serializer_statements():        # built anew for every (memo, protocol): nothing memoized on them yet
                name = name if memo == "fresh" else name + "|memoized"
                case = dict(part="serializer", subject=name, protocol=proto)
                try:
                    if memo == "memoized":
                        memoize(st)
                    data = serializer.dumps(st, proto)
                    st2 = serializer.loads(data, Base.metadata)
                    if isinstance(st, (Select, CompoundSelect)):
                        results.check(case, "S1 same compiled SQL and parameters", stmt_view(st), stmt_view(st2), True)
                        results.check(dict(case, subject=name + ":collections"), "S3 same column collections (every read operation)",
                                      collections_view(st), collections_view(st2), True)
                        with Session(e) as s:
                            r1 = [[abstract(x) for x in r] for r in s.execute(st).unique().all()]
                        with Session(e) as s:
                            r2 = [[abstract(x) for x in r] for r in s.execute(st2).unique().all()]
                        results.check(dict(case, subject=name + ":rows"), "S1 same rows", r1, r2, bool(r1))
                    elif name.startswith("table-only"):
                        results.check(case, "S1 a Table deserialises to the Table of the given MetaData", True, st2 is st, False)
                    elif name.startswith("column-only"):
                        results.check(case, "S1 a mapped attribute deserialises to the same attribute", str(st), str(st2), False)
                    else:
                        results.check(case, "S1 same compiled SQL and parameters", stmt_view(st), stmt_view(st2), True)
                except Exception as ex:  # noqa: BLE001
                    results.fail(case, "no-exception", "round trip succeeds", f"{type(ex).__name__}: {ex}"[:300])


# ------------------------------------------------------------------------------------------------ part S2: ext.serializer, schemas
# A second MetaData in which table NAMES are not unique: the same name without a schema and in two schemas, a name that only
# exists in schemas, foreign keys across schemas, and columns whose .key differs from their .name.  (module level: the two mapped
# classes must be importable for the serializer's mapper ids.)
from sqlalchemy import MetaData as _MetaData  # noqa: E402

SMD = _MetaData()


def _users(schema):
    return Table("users", SMD, Column("id", Integer, primary_key=True), Column("name", String(50)), Column("user_rank", Integer, key="rank"), schema=schema)


def _things(schema, users_ref):
    return Table("things", SMD, Column("id", Integer, primary_key=True), Column("user_id", ForeignKey(users_ref)),
                 Column("label_text", String(50), key="label"), schema=schema)


S_TABLES = {
    "users": _users(None), "archive.users": _users("archive"), "attic.users": _users("attic"),
    "archive.things": _things("archive", "archive.users.id"), "attic.things": _things("attic", "users.id"),
    "notes": Table("notes", SMD, Column("id", Integer, primary_key=True), Column("thing_id", ForeignKey("archive.things.id")),
                   Column("note_body", String(50), key="body")),
}
SBase = declarative_base(metadata=SMD)


class LiveUser(SBase):
    __table__ = S_TABLES["users"]


class ArchUser(SBase):
    __table__ = S_TABLES["archive.users"]
    things = relationship("ArchThing", order_by="ArchThing.id")


class ArchThing(SBase):
    __table__ = S_TABLES["archive.things"]


def schema_env():
    """SQLite with two ATTACHed in-memory databases standing for the schemas; every table holds different rows"""
    if "se" in _ENV:
        return _ENV["se"]
    from sqlalchemy import create_engine, event
    from sqlalchemy.pool import StaticPool
    e = create_engine("sqlite://", poolclass=StaticPool)

    @event.listens_for(e, "connect")
    def _attach(dbapi_conn, rec):
        dbapi_conn.execute("ATTACH DATABASE ':memory:' AS archive")
        dbapi_conn.execute("ATTACH DATABASE ':memory:' AS attic")
    with e.begin() as c:
        SMD.create_all(c)
        for n, (k, t) in enumerate(S_TABLES.items()):
            if t.name == "users":
                c.execute(t.insert(), [dict(id=i, name=f"{k}#{i}", rank=10 * n + i) for i in range(1, 3 + n)])
            elif t.name == "things":
                c.execute(t.insert(), [dict(id=i, user_id=1 + i % 2, label=f"{k}#{i}") for i in range(1, 3 + n)])
            else:
                c.execute(t.insert(), [dict(id=i, thing_id=i, body=f"{k}#{i}") for i in range(1, 4)])
    _ENV["se"] = e
    return e


def schema_statements():
    """-> list of (name, kind, statement); generated: every shape x every table, every pair shape x every ordered pair of tables"""
    from sqlalchemy import select, func, and_, exists, union_all, insert, update, delete
    from sqlalchemy.orm import aliased
    out = []
    for k, t in S_TABLES.items():
        pk = t.c.id
        other = [c for c in t.c if c is not pk]
        odd = [c for c in t.c if c.key != c.name][0]
        a = t.alias("a1")
        sq = select(t).where(pk > 0).subquery("sq")
        cte = select(pk, odd).cte("ct")
        out += [
            (f"{k}|select-table", "select", select(t).order_by(pk)),
            (f"{k}|select-columns-where", "select", select(pk, odd).where(and_(pk > 0, odd.is_not(None))).order_by(pk.desc())),
            (f"{k}|alias", "select", select(a.c.id, a.c[odd.key]).where(a.c.id > 1).order_by(a.c.id)),
            (f"{k}|alias-self-join", "select", select(pk, a.c.id).join_from(t, a, a.c.id >= pk).order_by(pk, a.c.id)),
            (f"{k}|subquery", "select", select(sq.c.id, sq.c[odd.key]).order_by(sq.c.id)),
            (f"{k}|cte", "select", select(cte.c.id).where(cte.c[odd.key].is_not(None)).order_by(cte.c.id)),
            (f"{k}|labels-func", "select", select(other[0].label("o"), func.count(pk).label("n")).group_by(other[0]).order_by(other[0])),
            (f"{k}|scalar-subquery", "select", select(pk).where(pk == select(func.max(a.c.id)).scalar_subquery())),
            (f"{k}|exists-correlated", "select", select(pk).where(exists().where(a.c.id > pk)).order_by(pk)),
            (f"{k}|criterion", "expr", and_(pk > 1, odd.in_([1, 2]))),
            (f"{k}|table", "identity", t),
            (f"{k}|insert", "dml", insert(t).values({pk: 99, odd: None})),
            (f"{k}|update", "dml", update(t).where(pk == 1).values({odd: None})),
            (f"{k}|delete", "dml", delete(t).where(pk > 100)),
        ]
        out += [(f"{k}|column:{c.key}", "identity", c) for c in t.c]
    keys = list(S_TABLES)
    for k1 in keys:
        for k2 in keys:
            if k1 == k2:
                continue
            t, u = S_TABLES[k1], S_TABLES[k2]
            out += [
                (f"{k1}+{k2}|join", "select", select(t.c.id, u.c.id, list(t.c)[1], list(u.c)[2]).join_from(t, u, t.c.id == u.c.id).order_by(t.c.id)),
                (f"{k1}+{k2}|in-subquery", "select", select(t.c.id).where(t.c.id.in_(select(u.c.id).where(u.c.id > 1))).order_by(t.c.id)),
            ]
            if k1 < k2:
                out.append((f"{k1}+{k2}|union", "select", union_all(select(t.c.id, list(t.c)[2]), select(u.c.id, list(u.c)[2]))))
            if any(fk.column.table is u for fk in t.foreign_keys):
                out.append((f"{k1}+{k2}|fk-join", "select", select(t.c.id, u.c.id).join_from(t, u).order_by(t.c.id)))
    au = aliased(ArchUser)
    out += [
        ("orm:ArchUser|entity", "select", select(ArchUser).where(ArchUser.rank > 0).order_by(ArchUser.id)),
        ("orm:LiveUser|entity", "select", select(LiveUser).where(LiveUser.rank > 0).order_by(LiveUser.id)),
        ("orm:ArchUser+LiveUser|columns-join", "select", select(ArchUser.id, LiveUser.name, ArchUser.name).join(LiveUser, LiveUser.id == ArchUser.id).order_by(ArchUser.id)),
        ("orm:ArchUser|aliased", "select", select(au.id, au.rank).where(au.id > 1).order_by(au.id)),
        ("orm:ArchUser+ArchThing|relationship-join", "select", select(ArchUser.id, ArchThing.label).join(ArchUser.things).order_by(ArchThing.id)),
        ("orm:ArchUser|relationship-any", "select", select(ArchUser.id).where(ArchUser.things.any(ArchThing.label.is_not(None))).order_by(ArchUser.id)),
        ("orm:ArchUser.rank|attribute", "expr", ArchUser.rank > 5),
    ]
    return out


def part_serializer_schema(results):
    from sqlalchemy.ext import serializer
    from sqlalchemy.orm import Session
    e = schema_env()
    for memo in MEMO:
        for proto in PROTOCOLS:
            for name, kind, st in schema_statements():      # built anew for every (memo, protocol)
                name = name if memo == "fresh" else name + "|memoized"
                case = dict(part="serializer-schema", subject=name, protocol=proto)
                try:
                    if memo == "memoized" and kind != "identity":
                        memoize(st)
                    st2 = serializer.loads(serializer.dumps(st, proto), SMD)
                    if kind == "identity":
                        def ident(x):
                            tb = getattr(x, "table", x)
                            return [type(x).__name__, str(getattr(tb, "key", None)), str(getattr(x, "key", None)), "same object" if x is st else "another object"]
                        results.check(case, "S2 a Table / Column deserialises to the very Table / Column of the given MetaData", ident(st), ident(st2), True)
                        continue
                    results.check(case, "S1 same compiled SQL and parameters", stmt_view(st), stmt_view(st2), True)
                    results.check(dict(case, subject=name + ":collections"), "S3 same column collections (every read operation)",
                                  collections_view(st), collections_view(st2), kind == "select")
                    if kind == "select":
                        with Session(e) as s:
                            r1 = [[abstract(x) for x in r] for r in s.execute(st).unique().all()]
                        with Session(e) as s:
                            r2 = [[abstract(x) for x in r] for r in s.execute(st2).unique().all()]
                        results.check(dict(case, subject=name + ":rows"), "S1 same rows", r1, r2, bool(r1))
                    elif kind == "dml":
                        rows = []
                        for x in (st, st2):
                            with e.connect() as c:
                                c.execute(x)
                                rows.append({k: [list(r) for r in c.execute(t.select().order_by(t.c.id))] for k, t in S_TABLES.items()})
                                c.rollback()
                        results.check(dict(case, subject=name + ":effect"), "S1 same effect on the tables (rolled back)", rows[0], rows[1], True)
                except Exception as ex:  # noqa: BLE001
                    results.fail(case, "no-exception", "round trip succeeds", f"{type(ex).__name__}: {ex}"[:300])


# ------------------------------------------------------------------------------------------------ part S3: column collections with colliding keys
_TIER = ["quick"]
LABEL_STYLES = ("LABEL_STYLE_NONE", "LABEL_STYLE_DISAMBIGUATE_ONLY", "LABEL_STYLE_TABLENAME_PLUS_COL")
COLL_SHAPES = ("select", "select-from-subquery", "textual-columns", "union-all")
COLL_POOL = ("users.id", "users.name", "archive.users.id", "archive.users.rank", "notes.body AS name", "users.id+1 AS id")


def coll_pool():
    u, au, n = S_TABLES["users"], S_TABLES["archive.users"], S_TABLES["notes"]
    return {"users.id": lambda: u.c.id, "users.name": lambda: u.c.name, "archive.users.id": lambda: au.c.id, "archive.users.rank": lambda: au.c.rank,
            "notes.body AS name": lambda: n.c.body.label("name"), "users.id+1 AS id": lambda: (u.c.id + 1).label("id")}


def coll_sequences(maxlen):
    import itertools
    out = []
    for k in range(1, maxlen + 1):
        out += list(itertools.product(COLL_POOL, repeat=k))
    return out


def coll_statement(shape, style, seq):
    """a fresh statement (nothing memoized) whose column collection holds the expressions `seq` (names of COLL_POOL, repetition allowed)"""
    import sqlalchemy
    from sqlalchemy import select, text, union_all
    from sqlalchemy.dialects import sqlite
    pool = coll_pool()
    cols = [pool[name]() for name in seq]
    tabs = [t for t in (S_TABLES["users"], S_TABLES["archive.users"], S_TABLES["notes"]) if any(name.startswith(t.key + ".") for name in seq)]
    st = select(*cols).set_label_style(getattr(sqlalchemy, style))
    for a, b in zip(tabs, tabs[1:]):
        st = st.where(a.c.id == b.c.id)
    st = st.order_by(*[t.c.id for t in tabs])
    if shape == "select":
        return st
    if shape == "select-from-subquery":
        sq = st.order_by(None).subquery("sq")
        return select(sq).set_label_style(getattr(sqlalchemy, style)).order_by(*sq.c)
    if shape == "textual-columns":
        sql = str(st.compile(dialect=sqlite.dialect(), compile_kwargs={"literal_binds": True}))
        return text(sql).columns(*cols)
    if shape == "union-all":
        return union_all(st.order_by(None), st.order_by(None).where(tabs[0].c.id > 1))
    raise ValueError(shape)


def derived_views(st, e):
    """for a Select: the statements derived through a by-key lookup in its column collection, `st.with_only_columns(selected_columns[k])`
    per key k — their SQL and the rows they return ('the round-tripped statement is usable like the original')"""
    from sqlalchemy.sql import Select
    if not isinstance(st, Select):
        return None
    out = {}
    sc = st.selected_columns
    for k in dict.fromkeys(sc.keys()):
        d = st.with_only_columns(sc[k])
        with e.connect() as c:
            out[repr(k)] = dict(sql=stmt_view(d)["sqlite"], rows=[[abstract(x) for x in r] for r in c.execute(d)])
    return out


def coll_rows(st, shape, e):
    with e.connect() as c:
        rows = [[abstract(x) for x in r] for r in c.execute(st)]
    return sorted(rows, key=repr) if shape == "union-all" else rows      # the UNION ALL statements carry no ORDER BY


def roundtrip(st, channel, proto, metadata):
    from sqlalchemy.ext import serializer
    if channel == "serializer":
        return serializer.loads(serializer.dumps(st, proto), metadata)
    return pickle.loads(pickle.dumps(st, proto))


def part_collections(results):
    """S3 on generated statements whose collections hold several columns under one key"""
    e = schema_env()
    seqs = coll_sequences(2 if _TIER[0] == "quick" else 3)
    built = skipped = 0
    for shape in COLL_SHAPES:
        for style in LABEL_STYLES:
            if shape == "textual-columns" and style != LABEL_STYLES[0]:
                continue                                        # text().columns() has no label style
            for seq in seqs:
                try:
                    ref = coll_statement(shape, style, seq)
                    want = dict(collections=collections_view(ref), sql=stmt_view(ref))
                    want_rows = coll_rows(ref, shape, e)
                    want_derived = derived_views(ref, e)
                except Exception:  # noqa: BLE001   SQLAlchemy refuses the statement itself (e.g. an explicit label that would have to be renamed)
                    skipped += 1
                    continue
                built += 1
                dup = len(set(want["collections"][0].get("selected_columns", want["collections"][0].get("c"))["keys"])) < len(seq)
                for memo in ("fresh", "memoized"):
                    for channel in ("serializer", "pickle"):
                        for proto in PROTOCOLS:
                            subject = "|".join([shape, style, " , ".join(seq), channel, memo])
                            case = dict(part="collections", subject=subject, protocol=proto)
                            try:
                                st = coll_statement(shape, style, seq)
                                if memo == "memoized":          # the statement was inspected / compiled before it is serialized
                                    collections_view(st), stmt_view(st)
                                st2 = roundtrip(st, channel, proto, SMD)
                                got = dict(collections=collections_view(st2), sql=stmt_view(st2))
                                results.check(case, "S3 same column collections (every read operation), same SQL", want, got, dup)
                                if proto == PROTOCOLS[-1]:
                                    results.check(dict(case, subject=subject + ":rows"), "S1 same rows", want_rows, coll_rows(st2, shape, e), bool(want_rows))
                                    if want_derived is not None:
                                        results.check(dict(case, subject=subject + ":derived"), "S3 statements derived by key lookup: same SQL, same rows",
                                                      want_derived, derived_views(st2, e), dup)
                            except Exception as ex:  # noqa: BLE001
                                results.fail(case, "no-exception", "round trip succeeds", f"{type(ex).__name__}: {ex}"[:300])
    results.extra["collections"] = dict(statements=built, refused_by_sqlalchemy=skipped, sequences=len(seqs))


# ------------------------------------------------------------------------------------------------ driver
class Results:
    def __init__(self):
        self.evaluations = 0
        self.nontrivial = set()
        self.fails = []
        self.per_part = {}
        self.extra = {}

    def check(self, case, clause, want, got, nontrivial):
        self.evaluations += 1
        self.per_part[case["part"]] = self.per_part.get(case["part"], 0) + 1
        if nontrivial:
            self.nontrivial.add((case["part"], case["subject"], str(case["protocol"]), clause[:2]))
        if want != got:
            diff = diff_of(want, got)
            self.fails.append(dict(case, clause=clause, differing=diff))

    def fail(self, case, clause, want, got):
        self.evaluations += 1
        self.fails.append(dict(case, clause=clause, differing=[dict(path="", expected=want, got=got)]))


def diff_of(a, b, path="", out=None, limit=6):
    out = [] if out is None else out
    if len(out) >= limit:
        return out
    if isinstance(a, dict) and isinstance(b, dict):
        for k in sorted(set(a) | set(b), key=str):
            if a.get(k, "<absent>") != b.get(k, "<absent>"):
                diff_of(a.get(k, "<absent>"), b.get(k, "<absent>"), f"{path}.{k}", out, limit)
    elif isinstance(a, list) and isinstance(b, list) and len(a) == len(b):
        for i, (x, y) in enumerate(zip(a, b)):
            if x != y:
                diff_of(x, y, f"{path}[{i}]", out, limit)
    else:
        out.append(dict(path=path, expected=json.loads(json.dumps(a, default=repr)), got=json.loads(json.dumps(b, default=repr))))
    return out


PARTS = {"orm": part_orm, "rows": part_rows, "metadata": part_metadata, "loader-option": part_loader_options, "serializer": part_serializer,
         "serializer-schema": part_serializer_schema, "collections": part_collections}
FUNCTION_OF = {"orm": "InstanceState.__getstate__/__setstate__", "rows": "BaseRow.__reduce__/CursorResultMetaData.__getstate__", "metadata": "MetaData.__getstate__/__setstate__",
               "loader-option": "Load.__getstate__/__setstate__", "serializer": "ext.serializer.dumps/loads",
               "serializer-schema": "ext.serializer.dumps/loads", "collections": "ColumnCollection.__getstate__/__setstate__ via ext.serializer / pickle"}


def run_all(parts=None):
    env()
    res = Results()
    for name, fn in PARTS.items():
        if parts is None or name in parts:
            fn(res)
    return res


def run(run, tier, seed, args):
    t0 = time.time()
    _TIER[0] = tier
    res = run_all()
    seen = set()
    for f in sorted(res.fails, key=lambda f: (len(f["subject"]) if f["part"] == "collections" else 0, json.dumps(f, sort_keys=True, default=repr))):
        dj = json.dumps(f, sort_keys=True, default=repr)
        fn = FUNCTION_OF[f["part"]]
        k = run.match_known(function=fn, input=dj)
        if k is not None:
            run.known_finding(k, "bounded round-trip corpus")
            continue
        cls = (f["part"], f["subject"].split(":")[0], f["clause"][:2])
        if f["part"] == "collections":       # one replay file per (shape, label style, clause): the smallest subject first
            cls = (f["part"], "|".join(f["subject"].split("|")[:2]), f["clause"][:2])
        if cls in seen or len(seen) >= 12:
            continue
        seen.add(cls)
        run.violation("C51-%s-%s-%08d" % (f["part"], re.sub(r"[^A-Za-z0-9_.+-]+", "_", f["subject"]), abs(hash(dj)) % 10 ** 8),
                      dict(function=fn, input=f, expected=[d.get("expected") for d in f["differing"]], actual=[d.get("got") for d in f["differing"]],
                           reason="round trip changed the abstract view: " + f["clause"]))
    for p in PARTS:
        if not res.per_part.get(p):
            run.crashes.append("C51: part %s evaluated nothing (vacuity guard)" % p)
    s, o = orm_makers()[27][1]() if len(orm_makers()) > 27 else orm_makers()[0][1]()
    sample_view = json.loads(json.dumps(state_view(o), default=repr))
    if s is not None:
        s.close()
    run.coverage.update(
        evaluations=res.evaluations, evaluations_per_part=res.per_part, distinct_nontrivial=len(res.nontrivial),
        rule="one evaluation = one inverse-pair clause on one (subject, protocol); subjects enumerated from the fixed catalogues below (exhaustive over them); "
             "distinct = (part, subject, protocol, clause); non-trivial = the view has content beyond defaults (non-empty committed_state / expired_attributes / "
             "load_options / callables / parents / info / loaded collection; rows with >= 2 columns; non-empty MetaData; every loader option; every statement; "
             "generated colliding-key statements only when at least two columns of the collection share a key)",
        samples=[dict(subject=orm_makers()[min(27, len(orm_makers()) - 1)][0], view=sample_view),
                 dict(subject="serializer:orm-join-in", view=json.loads(json.dumps(stmt_view(serializer_statements()[1][1]), default=repr)))],
        exhaustive=True,
        scope="%d mapped-instance states (transient / pending / persistent / detached x 12 loader-option variants, expired, partially expired, expired by commit, "
              "modified, pending collection mutation, marked deleted; two mappings: parent-child with deferred column, self-referential tree with many-to-many and "
              "column_property) x pickle protocols 2-5 and the bare __setstate__(__getstate__()) pair and re-attachment; %d row sources (text / Core / ORM, 1-3 columns, "
              "duplicate keys, empty) as row lists, single rows and frozen results; 4 MetaData objects + a lone Table; %d loader options; %d statements through "
              "ext.serializer on 2 dialects + rows on SQLite; plus %d generated statements / expressions / Table / Column objects through ext.serializer over a "
              "MetaData with %d tables %s (same table name without schema and in two ATTACHed SQLite schemas, names that exist only in schemas, cross-schema "
              "foreign keys, column key != name): 14 single-table shapes + every bare Column x every table, 2-4 pair shapes x every ordered pair of tables, "
              "%d ORM statements on classes mapped to the schema tables; SQL text + parameters on 2 dialects, rows / DML effect on SQLite, object identity for "
              "Table / Column; every statement of both catalogues in the histories 'fresh' and 'memoized' (collections read and compiled before serializing), "
              "with the column-collection view (S3) of every selectable inside it; plus GENERATED colliding-key collections: %d statements (%d refused by "
              "SQLAlchemy itself and skipped) = every sequence of 1..%d expressions (repetition allowed, %d sequences) over the pool %s x shapes %s x label "
              "styles %s (text().columns() has none) x {fresh, memoized} x {ext.serializer, pickle} x protocols %s: S3 view, SQL on 2 dialects, rows, and for "
              "Select the statements derived by key lookup (SQL + rows)"
              % (len(orm_makers()), sum(len(x) for x in row_sources()), len(loader_options()), len(serializer_statements()),
                 len(schema_statements()), len(S_TABLES), sorted(S_TABLES), sum(1 for n, _, _ in schema_statements() if n.startswith("orm:")),
                 res.extra["collections"]["statements"], res.extra["collections"]["refused_by_sqlalchemy"], 2 if tier == "quick" else 3,
                 res.extra["collections"]["sequences"], list(COLL_POOL), list(COLL_SHAPES), list(LABEL_STYLES), list(PROTOCOLS)),
        colliding_key_statements=res.extra["collections"],
        contract_failures=len(res.fails), wall_s=round(time.time() - t0, 1))
    run.assumptions += [
        "pickle itself; classes importable at module level (checks.C51)",
        "views abstract object identity: related objects by (class, primary key), Load options by cache key, load paths by their serialized form",
        "column collections are compared through their read interface with columns named by position; anonymous label keys are numbered by first appearance; "
        "ORM annotation wrappers (AnnotatedColumn vs Column) are not part of the view",
        "'execute to the same results' is checked on SQLite only; outside: custom types / user-defined picklers, Session pickling, AsyncSession",
    ]


def replay(data):
    inp = data["input"]
    if inp["part"] == "collections" and inp["subject"].split("|")[2].count(" , ") >= 2:
        _TIER[0] = "thorough"       # sequences of three expressions are enumerated in the thorough tier only
    res = run_all(parts=[inp["part"]])
    hits = [f for f in res.fails if f["subject"] == inp["subject"] and str(f["protocol"]) == str(inp["protocol"]) and f["clause"] == inp["clause"]]
    if hits:
        for f in hits[:3]:
            print(f"REPLAY-FAILS {data.get('function')} part={f['part']} subject={f['subject']} protocol={f['protocol']} clause={f['clause']!r} differing={json.dumps(f['differing'], default=repr)[:600]}")
        return 1
    print(f"REPLAY-PASSES part={inp['part']} subject={inp['subject']} protocol={inp['protocol']} clause={inp['clause']!r}")
    return 0
