"""C37 — both sides of a bidirectional relationship always agree (bounded run-time contract check, class B).

Functions driven (real, from the tree under test): every public mutator of either side of a `back_populates` pair —
`InstrumentedList.append / remove / insert / pop / __setitem__ (int and slice) / __delitem__ / clear / extend / __iadd__`,
collection replacement (`_CollectionAttributeImpl.set` -> `collections.bulk_replace`), augmented assignment `x.coll += [...]`
(`__iadd__` then `set` with the collection itself), deletion of the whole collection attribute `del x.coll`
(`_CollectionAttributeImpl.delete` -> `CollectionAdapter.clear_with_event`) on every collection side, scalar set / set None / `del`
(`_ScalarObjectAttributeImpl.set / delete`) — which reach the three closures of `attributes._backref_listeners`
(`emit_backref_from_scalar_set_event`, `emit_backref_from_collection_append_event`,
`emit_backref_from_collection_remove_event`).

Contract (two-object representation invariant, `ensures` of every mutator given it held before the call):
    one-to-many / many-to-one   for all p, c:   (c in p.children)  <=>  (c.parent is p)
    one-to-one                  for all p, o:   (p.one is o)       <=>  (o.owner is p)
    many-to-many                for all l, r:   (r in l.rights)    <=>  (l in r.lefts)
and a mutator only raises what the plain Python operation raises on the same contents (ValueError / IndexError /
AttributeError), leaving the invariant intact.
After flush + expire + reload (SQLite memory, same transaction) the invariant holds on the reloaded values and the
reloaded relation is the in-memory relation (as a set of pairs) — judged for sequences whose in-memory invariant held.

Scope: see coverage.scope.  Two scopes share the operation catalogues and the clauses:
  TRANSIENT   exhaustive operation sequences over fresh transient objects, no database for the in-memory part (lengths
              1..3 quick / 1..4 thorough; flush+reload clause for lengths 1..2 / 1..3).
  PERSISTENT  the same operations on objects that are persistent in a Session, over a database that already holds a
              relation R0 (several R0 per family, so that a collection loads zero rows or some rows), the last
              child / target / right object being new.  Setup dimension: R0 x load state of each side before the first
              operation ("unloaded" = never loaded, key columns present; "expired" = Session.expire(); "loaded") x session
              mode (Session(autoflush=False); autoflush session inside `with session.no_autoflush`; autoflush on) x new
              object transient / pending.  This is where a mutation made from one side meets a collection that is not
              loaded on the other side (the backref queues a "pending mutation") and the collection is loaded afterwards
              — model: loaded collection = database rows + queued appends - queued removals, so both sides agree.
              Nothing is read between the operations (reading would load what the setup keeps unloaded): both sides are
              read after the last operation (invariant clause), then everything is added, flushed, expired and reloaded
              (reload clause).  ALL sequences of length 1 and 2 per setup (quick: length 2 on a reduced setup list, see
              `setups`).  Documented preconditions: see LOADS / setups and coverage assumptions.
A sequence whose proper prefix already broke the invariant is not judged again (the precondition of the next mutator is
false); it is counted in `skipped_prefix_already_broken`.
"""
import json
import re
import time

from rtc import ormharness as H

LEVEL = "exploration"
FN = "orm/attributes.py::_backref_listeners"
ALLOWED = (ValueError, IndexError, AttributeError)

NP, NC, NO, NL, NR = 2, 3, 3, 2, 2


# ----------------------------------------------------------------------------------------------- catalogues
def _catalogue(family):
    """list of (name, callable(env), refs) — env maps 'p','c','o','l','r' to lists of fresh objects"""
    ops = []

    def add(name, fn, *refs):
        ops.append((name, fn, refs))
    if family == "o2m":
        for pi in range(NP):
            for ci in range(NC):
                add(f"p{pi}.children.append(c{ci})", lambda e, pi=pi, ci=ci: e["p"][pi].children.append(e["c"][ci]), ("p", pi), ("c", ci))
                add(f"p{pi}.children.remove(c{ci})", lambda e, pi=pi, ci=ci: e["p"][pi].children.remove(e["c"][ci]), ("p", pi), ("c", ci))
                add(f"p{pi}.children.insert(0,c{ci})", lambda e, pi=pi, ci=ci: e["p"][pi].children.insert(0, e["c"][ci]), ("p", pi), ("c", ci))
                add(f"c{ci}.parent=p{pi}", lambda e, pi=pi, ci=ci: setattr(e["c"][ci], "parent", e["p"][pi]), ("c", ci), ("p", pi))
            add(f"p{pi}.children=[c0,c1]", lambda e, pi=pi: setattr(e["p"][pi], "children", [e["c"][0], e["c"][1]]), ("p", pi), ("c", 0), ("c", 1))
            add(f"p{pi}.children=[c2]", lambda e, pi=pi: setattr(e["p"][pi], "children", [e["c"][2]]), ("p", pi), ("c", 0), ("c", 1), ("c", 2))
            add(f"p{pi}.children=[]", lambda e, pi=pi: setattr(e["p"][pi], "children", []), ("p", pi))
            add(f"p{pi}.children[0:1]=[c2]", lambda e, pi=pi: e["p"][pi].children.__setitem__(slice(0, 1), [e["c"][2]]), ("p", pi), ("c", 0), ("c", 1), ("c", 2))
            add(f"p{pi}.children[0]=c2", lambda e, pi=pi: e["p"][pi].children.__setitem__(0, e["c"][2]), ("p", pi), ("c", 0), ("c", 1), ("c", 2))
            add(f"p{pi}.children.pop()", lambda e, pi=pi: e["p"][pi].children.pop(), ("p", pi))
            add(f"del p{pi}.children[0]", lambda e, pi=pi: e["p"][pi].children.__delitem__(0), ("p", pi))
            add(f"del p{pi}.children[0:2]", lambda e, pi=pi: e["p"][pi].children.__delitem__(slice(0, 2)), ("p", pi))
            add(f"p{pi}.children.clear()", lambda e, pi=pi: e["p"][pi].children.clear(), ("p", pi))
            add(f"p{pi}.children.extend([c1,c2])", lambda e, pi=pi: e["p"][pi].children.extend([e["c"][1], e["c"][2]]), ("p", pi), ("c", 0), ("c", 1), ("c", 2))
            add(f"del p{pi}.children", lambda e, pi=pi: delattr(e["p"][pi], "children"), ("p", pi))
            add(f"p{pi}.children+=[c0,c2]", lambda e, pi=pi: _iadd(e["p"][pi], "children", [e["c"][0], e["c"][2]]), ("p", pi), ("c", 0), ("c", 1), ("c", 2))
        for ci in range(NC):
            add(f"c{ci}.parent=None", lambda e, ci=ci: setattr(e["c"][ci], "parent", None), ("c", ci))
            add(f"del c{ci}.parent", lambda e, ci=ci: delattr(e["c"][ci], "parent"), ("c", ci))
    elif family == "o2o":
        for pi in range(NP):
            for oi in range(NO):
                add(f"p{pi}.one=o{oi}", lambda e, pi=pi, oi=oi: setattr(e["p"][pi], "one", e["o"][oi]), ("p", pi), ("o", oi))
                add(f"o{oi}.owner=p{pi}", lambda e, pi=pi, oi=oi: setattr(e["o"][oi], "owner", e["p"][pi]), ("o", oi), ("p", pi))
            add(f"p{pi}.one=None", lambda e, pi=pi: setattr(e["p"][pi], "one", None), ("p", pi))
            add(f"del p{pi}.one", lambda e, pi=pi: delattr(e["p"][pi], "one"), ("p", pi))
        for oi in range(NO):
            add(f"o{oi}.owner=None", lambda e, oi=oi: setattr(e["o"][oi], "owner", None), ("o", oi))
            add(f"del o{oi}.owner", lambda e, oi=oi: delattr(e["o"][oi], "owner"), ("o", oi))
    elif family == "m2m":
        for li in range(NL):
            for ri in range(NR):
                add(f"l{li}.rights.append(r{ri})", lambda e, li=li, ri=ri: e["l"][li].rights.append(e["r"][ri]), ("l", li), ("r", ri))
                add(f"l{li}.rights.remove(r{ri})", lambda e, li=li, ri=ri: e["l"][li].rights.remove(e["r"][ri]), ("l", li), ("r", ri))
                add(f"r{ri}.lefts.append(l{li})", lambda e, li=li, ri=ri: e["r"][ri].lefts.append(e["l"][li]), ("r", ri), ("l", li))
                add(f"r{ri}.lefts.remove(l{li})", lambda e, li=li, ri=ri: e["r"][ri].lefts.remove(e["l"][li]), ("r", ri), ("l", li))
            add(f"l{li}.rights=[r0,r1]", lambda e, li=li: setattr(e["l"][li], "rights", [e["r"][0], e["r"][1]]), ("l", li), ("r", 0), ("r", 1))
            add(f"l{li}.rights=[r1]", lambda e, li=li: setattr(e["l"][li], "rights", [e["r"][1]]), ("l", li), ("r", 0), ("r", 1))
            add(f"l{li}.rights=[]", lambda e, li=li: setattr(e["l"][li], "rights", []), ("l", li))
            add(f"l{li}.rights[0:1]=[r1]", lambda e, li=li: e["l"][li].rights.__setitem__(slice(0, 1), [e["r"][1]]), ("l", li), ("r", 0), ("r", 1))
            add(f"l{li}.rights.pop()", lambda e, li=li: e["l"][li].rights.pop(), ("l", li))
            add(f"l{li}.rights.clear()", lambda e, li=li: e["l"][li].rights.clear(), ("l", li))
            add(f"del l{li}.rights", lambda e, li=li: delattr(e["l"][li], "rights"), ("l", li))
            add(f"l{li}.rights+=[r0,r1]", lambda e, li=li: _iadd(e["l"][li], "rights", [e["r"][0], e["r"][1]]), ("l", li), ("r", 0), ("r", 1))
        for ri in range(NR):
            add(f"r{ri}.lefts=[l1]", lambda e, ri=ri: setattr(e["r"][ri], "lefts", [e["l"][1]]), ("r", ri), ("l", 0), ("l", 1))
            add(f"del r{ri}.lefts[0]", lambda e, ri=ri: e["r"][ri].lefts.__delitem__(0), ("r", ri))
            add(f"r{ri}.lefts[0]=l1", lambda e, ri=ri: e["r"][ri].lefts.__setitem__(0, e["l"][1]), ("r", ri), ("l", 0), ("l", 1))
            add(f"del r{ri}.lefts", lambda e, ri=ri: delattr(e["r"][ri], "lefts"), ("r", ri))
    else:
        raise KeyError(family)
    return ops


def _iadd(obj, attr, items):
    """the statement `obj.attr += items`: read the collection, list.__iadd__ on it, assign the result back to the attribute"""
    coll = getattr(obj, attr)
    coll += items
    setattr(obj, attr, coll)


_CAT = {}


def catalogue(family):
    if family not in _CAT:
        _CAT[family] = _catalogue(family)
    return _CAT[family]


FAMILIES = ("o2m", "o2o", "m2m")


def fresh(family):
    m = H.mappings()
    if family == "o2m":
        return {"p": [m.P(id=i) for i in range(NP)], "c": [m.C(id=i) for i in range(NC)]}
    if family == "o2o":
        return {"p": [m.P(id=i) for i in range(NP)], "o": [m.O(id=i) for i in range(NO)]}
    return {"l": [m.L(id=i) for i in range(NL)], "r": [m.R(id=i) for i in range(NR)]}


# ----------------------------------------------------------------------------------------------- views / invariant
def view(family, e):
    """abstract state of both sides: tuple of tuples of small ints (object ids), hashable"""
    if family == "o2m":
        return (tuple(tuple(c.id for c in p.children) for p in e["p"]), tuple(-1 if c.parent is None else c.parent.id for c in e["c"]))
    if family == "o2o":
        return (tuple(-1 if p.one is None else p.one.id for p in e["p"]), tuple(-1 if o.owner is None else o.owner.id for o in e["o"]))
    return (tuple(tuple(r.id for r in x.rights) for x in e["l"]), tuple(tuple(x.id for x in r.lefts) for r in e["r"]))


def view_json(family, v):
    a, b = v
    if family == "o2m":
        d = {f"p{i}.children": [f"c{k}" for k in ch] for i, ch in enumerate(a)}
        d.update({f"c{i}.parent": (None if k < 0 else f"p{k}") for i, k in enumerate(b)})
    elif family == "o2o":
        d = {f"p{i}.one": (None if k < 0 else f"o{k}") for i, k in enumerate(a)}
        d.update({f"o{i}.owner": (None if k < 0 else f"p{k}") for i, k in enumerate(b)})
    else:
        d = {f"l{i}.rights": [f"r{k}" for k in x] for i, x in enumerate(a)}
        d.update({f"r{i}.lefts": [f"l{k}" for k in x] for i, x in enumerate(b)})
    return d


def broken(family, v):
    """the violated instances of the contract clause on an abstract state, as sentences (empty = invariant holds)"""
    a, b = v
    out = []
    if family == "o2m":
        for pi, ch in enumerate(a):
            for ci, par in enumerate(b):
                if (ci in ch) and par != pi:
                    out.append(f"c{ci} in p{pi}.children but c{ci}.parent is " + ("None" if par < 0 else f"p{par}"))
                elif (ci not in ch) and par == pi:
                    out.append(f"c{ci}.parent is p{pi} but c{ci} not in p{pi}.children")
    elif family == "o2o":
        for pi, one in enumerate(a):
            for oi, own in enumerate(b):
                if one == oi and own != pi:
                    out.append(f"p{pi}.one is o{oi} but o{oi}.owner is " + ("None" if own < 0 else f"p{own}"))
                elif one != oi and own == pi:
                    out.append(f"o{oi}.owner is p{pi} but p{pi}.one is " + ("None" if one < 0 else f"o{one}"))
    else:
        for li, rs in enumerate(a):
            for ri, ls in enumerate(b):
                if (ri in rs) != (li in ls):
                    out.append(f"r{ri} in l{li}.rights is {ri in rs} but l{li} in r{ri}.lefts is {li in ls}")
    return out


def pairs(family, v):
    """the relation as a set of pairs, read from the collection/scalar 'one' side (used against the reloaded relation)"""
    a, _ = v
    if family == "o2o":
        return {(i, k) for i, k in enumerate(a) if k >= 0}
    return {(i, k) for i, x in enumerate(a) for k in x}


# ----------------------------------------------------------------------------------------------- one sequence
def run_ops(family, idxs, db=None):
    """-> dict(status, ...) ; status in ok / skipped / fail.  `db` = (engine) for the flush+reload clauses"""
    cat = catalogue(family)
    e = fresh(family)
    v = view(family, e)
    changed = 0
    raised = 0
    n = len(idxs)
    for step, k in enumerate(idxs):
        name, fn, _ = cat[k]
        pre = v
        err = None
        try:
            fn(e)
        except ALLOWED as ex:
            err = type(ex).__name__
            raised += 1
        except Exception as ex:  # an internal error is not what the plain operation raises
            return dict(status="fail" if step == n - 1 else "skipped", kind="exception", pre=pre, post=view(family, e), last=name,
                        broken=[f"raised {type(ex).__name__}: {ex}"[:200]])
        v = view(family, e)
        if v != pre:
            changed += 1
        b = broken(family, v)
        if b:
            if step < n - 1:
                return dict(status="skipped")
            return dict(status="fail", kind="invariant", pre=pre, post=v, last=name, broken=b, raised=err)
    out = dict(status="ok", changed=changed, raised=raised, final=v)
    if db is not None:
        r = reload_clause(family, e, v, db)
        if r:
            return dict(status="fail", kind="reload", pre=v, post=r["post"], last="flush+expire+reload", broken=r["broken"])
        out["db"] = True
    return out


def reload_clause(family, e, v, engine):
    from sqlalchemy.orm import Session
    s = Session(engine)
    try:
        for objs in e.values():
            s.add_all(objs)
        try:
            s.flush()
        except Exception as ex:
            return dict(post=v, broken=[f"flush raised {type(ex).__name__}: {str(ex)[:160]}"])
        s.expire_all()
        v2 = view(family, e)
        b = [x + " (after reload)" for x in broken(family, v2)]
        if pairs(family, v2) != pairs(family, v):
            b.append(f"reloaded relation {sorted(pairs(family, v2))} != in-memory relation {sorted(pairs(family, v))}")
        return dict(post=v2, broken=b) if b else None
    finally:
        s.rollback()
        s.close()


def duplicates(family, v):
    """collections of the abstract state that hold one object more than once: ['c0 x2 in p0.children', ...]"""
    if family == "o2o":
        return []
    a, b = v
    names = {"o2m": (("p", "children", "c"),), "m2m": (("l", "rights", "r"), ("r", "lefts", "l"))}[family]
    out = []
    for side, (own, attr, mem) in zip((a, b), names):
        for i, coll in enumerate(side):
            for k in sorted(set(coll)):
                if coll.count(k) > 1:
                    out.append(f"{mem}{k} x{coll.count(k)} in {own}{i}.{attr}")
    return out


def descriptor(family, idxs, res, setup=None):
    """JSON-able description of a failing case.  `dup` lists the duplicate memberships of the state BEFORE the last
    operation and `broken_outside_dup` the violated clause instances that do not concern a duplicated object — both
    are descriptive fields for narrow known-finding patterns; the verdict itself is `broken`."""
    cat = catalogue(family)
    dup = duplicates(family, res["pre"])
    dup_objs = {d.split(" ")[0] for d in dup}
    outside = [b for b in res["broken"] if not any(re.search(rf"\b{o}\b", b) for o in dup_objs)]
    d = dict(family=family, ops=[cat[k][0] for k in idxs], last_op=res["last"], kind=res["kind"], broken=res["broken"],
             dup=dup, broken_outside_dup=outside, pre=view_json(family, res["pre"]), post=view_json(family, res["post"]))
    if setup is not None:
        d["setup"] = setup
    return d


# ----------------------------------------------------------------------------------------------- persistent scope
# Objects that are PERSISTENT in a Session with relationship attributes not loaded yet, over a database that already holds
# a relation R0; the last object of the 'many' kind (c2 / o2 / r1) is NEW (transient or pending).
R0S = {
    "o2m": [(), ((0, 0),), ((0, 0), (0, 1)), ((0, 0), (1, 1))],          # (parent, child) pairs stored in the database
    "o2o": [(), ((0, 0),), ((0, 0), (1, 1))],
    "m2m": [(), ((0, 0),), ((0, 0), (1, 0))],
}
# load state of the relationship attribute of the persistent objects before the first operation, per side
# (side a = p.children / p.one / l.rights, side b = c.parent / o.owner / r.lefts):
#   "unloaded"  never loaded, primary / foreign key columns present (an object loaded by a query whose relationship was not touched)
#   "expired"   Session.expire(obj): every attribute expired, as after a commit
#   "loaded"    read once before the first operation
# A SCALAR side is only taken "unloaded" (foreign key present: the previous value is resolved from the identity map) or
# "loaded": replacing a scalar reference whose previous value is neither loaded nor resolvable without SQL does, as
# documented (relationship.active_history), not load that previous value, so the previous partner cannot be updated.
# (the identity map does not hand out an EXPIRED parent without SQL either, hence no ("expired", "unloaded") for o2m.)
LOADS = {
    "o2m": [(a, b) for a in ("unloaded", "expired", "loaded") for b in ("unloaded", "loaded") if (a, b) != ("expired", "unloaded")],
    "o2o": [("loaded", "loaded")],
    "m2m": [(a, b) for a in ("unloaded", "expired", "loaded") for b in ("unloaded", "expired", "loaded")],
}
MODES = ("autoflush-off", "no_autoflush-block", "autoflush-on")
NEWS = ("new-transient", "new-pending")


def setups(family, reduced=False):
    """the setup dimension: R0 x load states x session mode x state of the new object.  (new-transient, autoflush-on) is
    outside: a flush that meets an object which was never added to the Session warns that the operation "will not
    proceed" and drops it.  reduced = the sub-scope used for the longer sequences of the quick tier."""
    out = []
    for r0 in R0S[family]:
        for load in LOADS[family]:
            for mode in MODES:
                for new in NEWS:
                    if new == "new-transient" and mode == "autoflush-on":
                        continue
                    if reduced and (mode != "autoflush-off" or new != "new-pending" or load == ("loaded", "loaded") or "expired" in load):
                        continue
                    out.append(dict(r0=[list(x) for x in r0], load=list(load), mode=mode, new=new))
    return out
_DB = {}


def _populate(engine, family, r0):
    if _DB.get("state") == (id(engine), family, r0):
        return
    m = H.mappings()
    with engine.begin() as c:
        for t in (m.lr, m.C.__table__, m.O.__table__, m.L.__table__, m.R.__table__, m.P.__table__):
            c.execute(t.delete())
        if family in ("o2m", "o2o"):
            c.execute(m.P.__table__.insert(), [dict(id=i) for i in range(NP)])
            par = {k: pi for pi, k in r0}
            t = (m.C if family == "o2m" else m.O).__table__
            n = (NC if family == "o2m" else NO) - 1
            c.execute(t.insert(), [dict(id=i, pid=par.get(i)) for i in range(n)])
        else:
            c.execute(m.L.__table__.insert(), [dict(id=i) for i in range(NL)])
            c.execute(m.R.__table__.insert(), [dict(id=i) for i in range(NR - 1)])
            if r0:
                c.execute(m.lr.insert(), [dict(lid=li, rid=ri) for li, ri in r0])
    _DB["state"] = (id(engine), family, r0)


def r0_view(family, r0):
    """the abstract two-sided state that the database relation R0 stands for"""
    if family == "o2m":
        return (tuple(tuple(k for pi, k in r0 if pi == i) for i in range(NP)),
                tuple(dict((k, pi) for pi, k in r0).get(i, -1) for i in range(NC)))
    if family == "o2o":
        return (tuple(dict(r0).get(i, -1) for i in range(NP)), tuple(dict((k, pi) for pi, k in r0).get(i, -1) for i in range(NO)))
    return (tuple(tuple(k for li, k in r0 if li == i) for i in range(NL)), tuple(tuple(li for li, k in r0 if k == i) for i in range(NR)))


def persistent_env(family, s, r0, new):
    """objects as a Session holds them after a load in an earlier transaction: primary key / foreign key columns present,
    relationship attributes NOT loaded (make_transient_to_detached + Session.add: no SQL); last 'many' object is new"""
    from sqlalchemy.orm import make_transient_to_detached
    m = H.mappings()
    if family in ("o2m", "o2o"):
        par = {k: pi for pi, k in r0}
        cls, key, n = (m.C, "c", NC) if family == "o2m" else (m.O, "o", NO)
        e = {"p": [m.P(id=i) for i in range(NP)], key: [cls(id=i, pid=par.get(i)) for i in range(n - 1)] + [cls(id=n - 1)]}
        old = e["p"] + e[key][:-1]
        fresh_ = e[key][-1]
    else:
        e = {"l": [m.L(id=i) for i in range(NL)], "r": [m.R(id=i) for i in range(NR)]}
        old = e["l"] + e["r"][:-1]
        fresh_ = e["r"][-1]
    for o in old:
        make_transient_to_detached(o)
        s.add(o)
    if new == "new-pending":
        s.add(fresh_)
    return e, old


def _prepare_side(family, s, e, side, how, only):
    attr = {"o2m": ("p", "children", "c", "parent"), "o2o": ("p", "one", "o", "owner"), "m2m": ("l", "rights", "r", "lefts")}[family]
    kind, name = (attr[0], attr[1]) if side == 0 else (attr[2], attr[3])
    for o in e[kind]:
        if any(o is x for x in only):
            if how == "expired":
                s.expire(o)
            elif how == "loaded":
                getattr(o, name)


def run_persistent(family, setup, idxs, engine, reload=True, _cache={}):
    """one operation sequence on persistent objects.  The abstract state cannot be read between operations (reading
    loads what the scope wants unloaded), so the invariant is judged once, after the last operation; a sequence whose
    proper prefix (same setup) does not end in an agreeing state is skipped, like in the transient scope."""
    from sqlalchemy.orm import Session
    from sqlalchemy import inspect as sa_inspect
    r0 = tuple(tuple(x) for x in setup["r0"])
    pre = r0_view(family, r0)
    if len(idxs) > 1:
        ck = (family, json.dumps(setup, sort_keys=True), tuple(idxs[:-1]))
        if _cache.get("key") != ck:
            _cache["key"], _cache["val"] = ck, run_persistent(family, setup, idxs[:-1], engine, reload=False)
        pr = _cache["val"]
        if pr["status"] != "ok":
            return dict(status="skipped")
        pre = pr["final"]
    _populate(engine, family, r0)
    cat = catalogue(family)
    s = Session(engine, autoflush=setup["mode"] == "autoflush-on")
    try:
        e, old = persistent_env(family, s, r0, setup["new"])
        for side in (0, 1):                     # expire first, then load: loading one side must not be undone
            if setup["load"][side] == "expired":
                _prepare_side(family, s, e, side, "expired", old)
        for side in (0, 1):
            if setup["load"][side] == "loaded":
                _prepare_side(family, s, e, side, "loaded", old)
        raised = 0
        name = None
        info = dict(pending=0, pending_zero_rows=0, pending_some_rows=0)

        def body():
            nonlocal raised, name
            for step, k in enumerate(idxs):
                name, fn, _ = cat[k]
                try:
                    fn(e)
                except ALLOWED:
                    raised += 1
                except Exception as ex:
                    return dict(status="fail", kind="exception", pre=pre, post=pre, last=name,
                                broken=[f"raised {type(ex).__name__}: {ex}"[:200]])
            # coverage only: was a mutation queued on a collection that is not loaded, and how many rows will it load
            for o in old:
                st_ = sa_inspect(o)
                pm = getattr(st_, "_pending_mutations", None) or {}
                for key in pm:
                    info["pending"] += 1
                    v0 = r0_view(family, r0)
                    oid = st_.identity[0]
                    rows = v0[0][oid] if key in ("children", "rights") else v0[1][oid] if key == "lefts" else ()
                    info["pending_zero_rows" if not rows else "pending_some_rows"] += 1
            try:
                return view(family, e)
            except Exception as ex:
                return dict(status="fail", kind="exception", pre=pre, post=pre, last=name,
                            broken=[f"reading both sides afterwards raised {type(ex).__name__}: {ex}"[:200]])

        if setup["mode"] == "no_autoflush-block":
            with s.no_autoflush:
                v = body()
        else:
            v = body()
        if isinstance(v, dict):
            return v
        b = broken(family, v)
        if b:
            return dict(status="fail", kind="invariant", pre=pre, post=v, last=name, broken=b)
        out = dict(status="ok", changed=int(v != r0_view(family, r0)), raised=raised, final=v, **info)
        if reload:
            for objs in e.values():
                s.add_all(objs)
            try:
                s.flush()
                s.expire_all()
                v2 = view(family, e)
            except Exception as ex:
                return dict(status="fail", kind="reload", pre=v, post=v, last="flush+expire+reload",
                            broken=[f"flush / reload raised {type(ex).__name__}: {str(ex)[:160]}"])
            b = [x + " (after reload)" for x in broken(family, v2)]
            if pairs(family, v2) != pairs(family, v):
                b.append(f"reloaded relation {sorted(pairs(family, v2))} != in-memory relation {sorted(pairs(family, v))}")
            if b:
                return dict(status="fail", kind="reload", pre=v, post=v2, last="flush+expire+reload", broken=b)
            out["db"] = True
        return out
    finally:
        s.rollback()
        s.close()


# ----------------------------------------------------------------------------------------------- worker
_ENGINE = None


def _worker(job):
    global _ENGINE
    H.quiet()
    family = job["family"]
    cat = catalogue(family)
    db = None
    setup = job.get("persistent")
    if setup:
        if _DB.get("engine") is None:
            _DB["engine"] = H.new_engine()          # own database: it holds the rows of R0
        db = _DB["engine"]
    elif job.get("db"):
        if _ENGINE is None:
            _ENGINE = H.new_engine()
        db = _ENGINE
    res = dict(evaluations=0, nontrivial=0, skipped_prefix_already_broken=0, raised_allowed=0, db_evaluations=0, failures=[], samples=[],
               finals=set(), per_family={family: 0})
    if setup:
        res.update(persistent_evaluations=0, persistent_nontrivial=0, persistent_pending_mutation=0,
                   persistent_pending_on_zero_row_collection=0, persistent_pending_on_nonempty_collection=0, persistent_samples=[])
        for idxs in H.job_sequences(len(cat), job):
            r = run_persistent(family, setup, idxs, db, reload=job["reload"])
            res["persistent_evaluations"] += 1
            st = r["status"]
            if st == "skipped":
                res["skipped_prefix_already_broken"] += 1
            elif st == "fail":
                res["failures"].append(descriptor(family, idxs, r, setup))
            else:
                res["persistent_nontrivial"] += 1 if r["changed"] else 0
                res["persistent_pending_mutation"] += 1 if r["pending"] else 0
                res["persistent_pending_on_zero_row_collection"] += 1 if r["pending_zero_rows"] else 0
                res["persistent_pending_on_nonempty_collection"] += 1 if r["pending_some_rows"] else 0
                res["db_evaluations"] += 1 if r.get("db") else 0
                if not res["persistent_samples"] and r["pending_zero_rows"] and r["changed"] and len(idxs) == job["length"]:
                    res["persistent_samples"].append(dict(family=family, setup=setup, ops=[cat[k][0] for k in idxs],
                                                          final=view_json(family, r["final"])))
        return res
    for idxs in H.job_sequences(len(cat), job):
        r = run_ops(family, idxs, db)
        res["evaluations"] += 1
        res["per_family"][family] += 1
        st = r["status"]
        if st == "skipped":
            res["skipped_prefix_already_broken"] += 1
        elif st == "fail":
            res["failures"].append(descriptor(family, idxs, r))
        else:
            if r["changed"]:
                res["nontrivial"] += 1
            res["raised_allowed"] += 1 if r["raised"] else 0
            res["finals"].add((family, r["final"]))
            if r.get("db"):
                res["db_evaluations"] += 1
            if len(res["samples"]) < 1 and r["changed"] == len(idxs) and len(idxs) == job["length"]:
                res["samples"].append(dict(family=family, ops=[cat[k][0] for k in idxs], final=view_json(family, r["final"])))
    return res


# ----------------------------------------------------------------------------------------------- entry points
def scope_for(tier):
    mem = (1, 2, 3) if tier == "quick" else (1, 2, 3, 4)
    db = (1, 2) if tier == "quick" else (1, 2, 3)
    return mem, db


def persistent_jobs(tier):
    """persistent scope: every setup x ALL sequences of length 1 and 2 (with the flush+reload clause); in the quick tier
    length 2 runs over the reduced setups only (autoflush off, new object pending, at least one side "unloaded", none
    "expired") and
    without the flush+reload clause"""
    out = []
    for fam in FAMILIES:
        n = len(catalogue(fam))
        for st in setups(fam):
            out += H.jobs(n, (1,), min_jobs=1, family=fam, persistent=st, reload=True)
        for st in setups(fam, reduced=(tier == "quick")):
            out += H.jobs(n, (2,), min_jobs=2, family=fam, persistent=st, reload=(tier != "quick"))
    return out


def run(run, tier, seed, args):
    t0 = time.time()
    mem, db = scope_for(tier)
    joblist = []
    for fam in FAMILIES:
        n = len(catalogue(fam))
        joblist += H.jobs(n, mem, min_jobs=40, family=fam)
        joblist += H.jobs(n, db, min_jobs=40, family=fam, db=True)
    pjobs = persistent_jobs(tier)
    joblist += pjobs
    if seed:
        import random
        random.Random(seed).shuffle(joblist)
    agg = H.Agg()
    for r in H.run_sharded(_worker, joblist):
        agg.add(r)
    report(run, agg.get("failures", []))
    sizes = {f: len(catalogue(f)) for f in FAMILIES}
    run.coverage.update(
        evaluations=agg["evaluations"],
        distinct_nontrivial=agg["nontrivial"] + agg["persistent_nontrivial"],
        rule="every operation sequence of the scope is enumerated once (itertools.product, so all are distinct); a sequence is "
             "non-trivial when at least one of its operations changed the two-sided abstract state (the mutator ran and the "
             "backref handler propagated), counted by comparing the view before and after every operation; sequences that only "
             "raise or re-assert the current state are trivial.  Persistent scope: every (setup, sequence) pair is enumerated once; "
             "non-trivial when the final two-sided state differs from the state the database relation R0 stands for; "
             "persistent_pending_mutation counts the pairs in which, after the last operation and before anything was read, a "
             "mutation was queued on a collection that was not loaded (split by whether that collection then loads zero rows "
             "or some rows)",
        samples=pick_samples(agg.get("samples", [])) + pick_samples(agg.get("persistent_samples", []), per=1),
        exhaustive=True,
        scope=f"fresh transient objects, no session: one-to-many/many-to-one {NP} parents x {NC} children, {sizes['o2m']} operations; "
              f"one-to-one {NP} parents x {NO} targets, {sizes['o2o']} operations; many-to-many {NL} x {NR}, {sizes['m2m']} operations "
              f"(append, remove, insert, pop, collection replacement, slice/index assignment, del index/slice, clear, extend, += , "
              f"del of the whole collection attribute (every collection side), scalar set, set None, del of the scalar, from either side); ALL sequences of length in {list(mem)} per family, invariant evaluated after every "
              f"operation; plus flush + expire_all + reload on SQLite :memory: for ALL sequences of length in {list(db)}.  "
              f"PERSISTENT scope (same operation catalogues): objects persistent in a Session over a database holding a relation R0 "
              f"(o2m {R0S['o2m']}, o2o {R0S['o2o']}, m2m {R0S['m2m']} as (parent/left, child/right) pairs, so that collections load "
              f"zero rows and non-zero rows), the last child/target/right object new; setup dimension = R0 x load state of each side "
              f"before the first operation (o2m {LOADS['o2m']}, o2o {LOADS['o2o']}, m2m {LOADS['m2m']}) x session mode {list(MODES)} x "
              f"new object {list(NEWS)} minus (new-transient, autoflush-on): {sum(len(setups(f)) for f in FAMILIES)} setups; ALL "
              f"sequences of length 1 and 2 per setup" + (" (length 2 in the quick tier: the "
              f"{sum(len(setups(f, True)) for f in FAMILIES)} setups with autoflush off, new object pending, at least one side 'unloaded', none 'expired'; "
              "no flush+reload clause)" if tier == "quick" else "") + "; nothing is read between operations, both sides are read "
              "after the last one (invariant), then everything is added, flushed, expired and reloaded (reload clause)",
        persistent_evaluations=agg["persistent_evaluations"], persistent_nontrivial=agg["persistent_nontrivial"],
        persistent_pending_mutation=agg["persistent_pending_mutation"],
        persistent_pending_on_zero_row_collection=agg["persistent_pending_on_zero_row_collection"],
        persistent_pending_on_nonempty_collection=agg["persistent_pending_on_nonempty_collection"],
        distinct_final_states=len(agg.get("finals", ())),
        skipped_prefix_already_broken=agg["skipped_prefix_already_broken"],
        sequences_with_an_allowed_exception=agg["raised_allowed"],
        flush_reload_evaluations=agg["db_evaluations"],
        sequences_per_family=agg["per_family"],
        contract_failures=len(agg.get("failures", [])),
        enumeration_wall_s=round(time.time() - t0, 1),
    )
    run.assumptions += [
        "transient scope: objects start transient and unattached; the flush/reload clause runs on SQLite :memory: only",
        "persistent scope: a scalar reference is replaced only when its previous value is loaded or resolvable from the identity map "
        "without SQL (documented: relationship.active_history — otherwise the previous value is not loaded and the previous partner "
        "is not updated); an object that was never added to the Session does not meet a flush before it is read (the flush warns "
        "that the operation will not proceed); the state between two operations is not observed (reading would load it)",
        "mutators may raise ValueError / IndexError / AttributeError exactly like the plain list / attribute operation; any other exception is a violation",
        "dynamic / write-only / viewonly relationships, association-object patterns and custom collection classes are outside the scope",
        "bounded: sequences longer than the stated length and more objects than stated are not covered",
    ]


def pick_samples(samples, per=2):
    """a few of the explored sequences written out: the longest ones, at most `per` per family"""
    out, cnt = [], {}
    for smp in sorted(samples, key=lambda x: (-len(x["ops"]), json.dumps(x, sort_keys=True))):
        if cnt.get(smp["family"], 0) < per:
            cnt[smp["family"]] = cnt.get(smp["family"], 0) + 1
            out.append(smp)
    return out


def report(run, failures):
    seen = set()
    for d in sorted(failures, key=lambda d: (len(d["ops"]), json.dumps(d, sort_keys=True, default=repr))):
        dj = json.dumps(d, sort_keys=True, default=repr)
        k = run.match_known(function=FN + "/" + d["family"], input=dj)
        if k is not None:
            run.known_finding(k, "bounded replay on the real functions")
            continue
        cls = (d["family"], d["kind"], d["last_op"].split("(")[0].split("=")[0][-12:], len(d["broken"]))
        if cls in seen or len(seen) >= 8:   # one replay file per class of failing last operation, at most 8
            continue
        seen.add(cls)
        name = f"{d['family']}-" + "--".join(d["ops"])
        if "setup" in d:
            st = d["setup"]
            name += f"--{''.join(str(x) for pr in st['r0'] for x in pr) or 'empty'}-{'-'.join(st['load'])}-{st['mode']}-{st['new']}"
        run.violation(name, dict(function=FN + "/" + d["family"], input=d, expected="invariant holds after the last operation",
                                 actual=d["broken"], reason="bounded run-time contract check"))


def replay(data):
    H.quiet()
    d = data["input"]
    family = d["family"]
    names = [c[0] for c in catalogue(family)]
    idxs = [names.index(n) for n in d["ops"]]
    db = H.new_engine() if d.get("kind") == "reload" or "setup" in d else None
    r = run_persistent(family, d["setup"], idxs, db) if "setup" in d else run_ops(family, idxs, db)
    if r["status"] == "fail":
        print(f"REPLAY-FAILS {FN}/{family} ops={d['ops']} broken={r['broken']}")
        return 1
    print(f"REPLAY-PASSES {FN}/{family} ops={d['ops']} status={r['status']}")
    return 0
