"""C09 — column types round-trip values and apply processing exactly once (bounded run-time contract check, class B).

Functions under contract (real code): ``TypeEngine.dialect_impl / bind_processor / result_processor`` of the generic types
and their SQLite implementations (``sqltypes.Boolean, Interval, Enum, PickleType, Uuid, JSON, Numeric, Float, LargeBinary``,
``sqlite.DATETIME / DATE / TIME`` storage format + parser, ``engine._processors_cy``), ``TypeDecorator.bind_processor /
result_processor`` (composition with the impl's processors), and — on SQLite — the wiring of those processors into real
statements (``CursorResultMetaData``, RETURNING, ORM loading).

Contract clauses

  inverse       result_processor(bind_processor(v)) == v, same Python type (bool stays bool, Enum member identical, Decimal
                within the declared scale, float == float), None <-> None          [pure processor pair]
  roundtrip     the same through a real in-memory sqlite3 INSERT (single and executemany) + SELECT         [SQLite only]
  once          for TypeDecorator: process_bind_param is called exactly once per bound value and process_result_value exactly
                once per delivered value (ghost counters), and the delivered value equals the original — for the processor
                pair on every dialect, and on SQLite however the column is nested: plain, label, subquery, CTE, UNION ALL,
                scalar subquery, func.max / coalesce, cast / type_coerce, literal() bind, WHERE comparison, the column twice,
                INSERT..RETURNING, executemany, ORM entity / attribute / refresh / aliased

Scope (DESIGN §2.9: result(bind(v)) is an inverse pair only where the driver is the identity on the stored form):
 (a) every type of the catalogue on the SQLite dialect, clauses inverse + roundtrip; the generic processors on DefaultDialect;
 (b) the driver-independent non-native types (Boolean, Interval(native=False), Enum(native_enum=False), PickleType,
     Uuid(native_uuid=False), LargeBinary, TypeDecorators) on the postgresql / mysql / mssql / oracle dialects, clause inverse + once;
 (c) clause once in the nesting contexts, SQLite.
(d) postgresql.ARRAY (the only ARRAY with processors) on the postgresql dialects psycopg2 / psycopg / asyncpg / pg8000, clauses
     inverse + once, for every item type of the array catalogue x dimensions {None, 1, 2} x as_tuple {False, True} x ALL lists
     of length 0..3 (1-D) / all rectangular 1..2 x 1..2 matrices (2-D) over the item type's element set (None always an
     element).  The driver delivers an array in one of two *wire forms*:
       list   a Python list of the stored elements (drivers with an array typecaster: identity on the stored form, as in (b))
       text   the server's text output '{a,"b c",NULL}' - what psycopg2 / psycopg / pg8000 hand back for an array of a
              user-defined ENUM type (no typecaster registered); item types that are a native ENUM are evaluated in BOTH forms.
     The text form is the *documented* output syntax of PostgreSQL arrays (manual 8.15.6, spec function pg_array_out below):
     elements separated by ',', enclosed in braces; an element is double-quoted iff it is empty, contains a brace, the
     delimiter, a double quote, a backslash or white space, or matches the word NULL (case-insensitively); inside quotes,
     double quote and backslash are backslash-escaped; a NULL element is the unquoted word NULL.
     Native ENUM labels: ALL strings of length 0..2 over the alphabet { a, space, comma, double quote, backslash, left brace }
     plus the words NULL, null and two plain labels (every quoting trigger of the output syntax, alone and in pairs).
Server-dialect processors that consume driver-specific Python types other than the above, aware datetimes on SQLite (its
storage format has no offset) and the server side of ARRAY (storage, array_in) are outside.
"""
import datetime as dt
import decimal
import enum
import itertools
import json
import uuid
import warnings

LEVEL = "exploration"


class Color(enum.Enum):
    red = 1
    green = "g"
    blue = None


class Num(enum.IntEnum):
    one = 1
    two = 2


COUNTS = {}


def _count(key):
    COUNTS[key] = COUNTS.get(key, 0) + 1


def _decorators():
    from sqlalchemy import JSON, Boolean, Enum, Integer, Interval, PickleType, String
    from sqlalchemy.dialects import postgresql
    from sqlalchemy.types import CHAR, TypeDecorator

    class Tagged(TypeDecorator):
        """str <-> '<str>'; a second application of either direction is visible in the value"""
        impl = String
        cache_ok = True

        def process_bind_param(self, value, dialect):
            _count("Tagged.bind")
            return None if value is None else "<" + value + ">"

        def process_result_value(self, value, dialect):
            _count("Tagged.result")
            if value is None:
                return None
            assert value.startswith("<") and value.endswith(">"), f"result value not encoded exactly once: {value!r}"
            return value[1:-1]

    class Plus(TypeDecorator):
        impl = Integer
        cache_ok = True

        def process_bind_param(self, value, dialect):
            _count("Plus.bind")
            return None if value is None else value + 1000

        def process_result_value(self, value, dialect):
            _count("Plus.result")
            return None if value is None else value - 1000

    class SetAsJson(TypeDecorator):
        impl = JSON
        cache_ok = True

        def process_bind_param(self, value, dialect):
            _count("SetAsJson.bind")
            return None if value is None else sorted(value)

        def process_result_value(self, value, dialect):
            _count("SetAsJson.result")
            return None if value is None else set(value)

    class Outer(TypeDecorator):
        """a TypeDecorator whose impl is another TypeDecorator"""
        impl = Tagged
        cache_ok = True

        def process_bind_param(self, value, dialect):
            _count("Outer.bind")
            return None if value is None else value.upper()

        def process_result_value(self, value, dialect):
            _count("Outer.result")
            return None if value is None else value.lower()

    def passthrough(name, impl_):
        def pb(self, value, dialect):
            _count(name + ".bind")
            return value

        def pr(self, value, dialect):
            _count(name + ".result")
            return value
        return type(name, (TypeDecorator,), dict(impl=impl_, cache_ok=True, process_bind_param=pb, process_result_value=pr))

    class Guid(TypeDecorator):
        """the documented backend-agnostic GUID recipe: load_dialect_impl switches the impl per dialect"""
        impl = CHAR
        cache_ok = True

        def load_dialect_impl(self, dialect):
            if dialect.name == "postgresql":
                return dialect.type_descriptor(postgresql.UUID(as_uuid=False))
            return dialect.type_descriptor(CHAR(32))

        def process_bind_param(self, value, dialect):
            _count("Guid.bind")
            if value is None:
                return None
            return str(value) if dialect.name == "postgresql" else "%.32x" % value.int

        def process_result_value(self, value, dialect):
            _count("Guid.result")
            return None if value is None else uuid.UUID(value)
    return dict(Tagged=Tagged, Plus=Plus, SetAsJson=SetAsJson, Outer=Outer, DecoBool=passthrough("DecoBool", Boolean),
                DecoInterval=passthrough("DecoInterval", Interval(native=False)), DecoEnum=passthrough("DecoEnum", Enum(Color, native_enum=False)),
                DecoPickle=passthrough("DecoPickle", PickleType), Guid=Guid)


_CAT = {}


def catalogue():
    """type id -> dict(make, values, mode, group, deco)   (group 'portable' = scope (b))"""
    if _CAT:
        return _CAT
    from sqlalchemy import (JSON, BigInteger, Boolean, Date, DateTime, Enum, Float, Integer, Interval, LargeBinary, Numeric, PickleType, SmallInteger,
                            String, Text, Time, Unicode, UnicodeText, Uuid)
    from sqlalchemy.dialects import sqlite
    D = decimal.Decimal
    deco = _decorators()
    dates = [dt.date(1, 1, 1), dt.date(9999, 12, 31), dt.date(2024, 2, 29), dt.date(1970, 1, 1), dt.date(1969, 12, 31)]
    times = [dt.time(0, 0, 0), dt.time(23, 59, 59, 999999), dt.time(1, 2, 3, 1), dt.time(12, 0), dt.time(0, 0, 0, 999999)]
    dts = [dt.datetime.combine(d, t) for d in dates for t in times[:3]]
    deltas = [dt.timedelta(0), dt.timedelta(days=-1, microseconds=1), dt.timedelta(days=99999, seconds=86399, microseconds=999999), dt.timedelta(microseconds=-1),
              dt.timedelta(days=-99999), dt.timedelta(microseconds=1), dt.timedelta(days=-719162), dt.timedelta(days=2932896, seconds=86399, microseconds=999999)]
    ints = [0, 1, -1, 2**31 - 1, -2**31, 2**31, 2**63 - 1, -2**63]
    strs = ["", "a", "ü", "日本語", "it's \"q\" %s :p ?", " pad ", "\U0001f600", "line\nbreak\ttab", "x" * 10000, "nul\x00mid"]
    uu = [uuid.UUID(int=0), uuid.UUID(int=2**128 - 1), uuid.UUID("12345678-1234-5678-1234-567812345678")]
    jsons = [1, -1, 0, 2**53 + 1, 1.5, "s", "", "ü", True, False, [], {}, [1, None, {"a": [1.5, "ü", None]}], {"k": None}, {"a": {"b": {"c": [[]]}}}, [True, 1, 1.0]]
    pick = [1, "x", [1, {"a": (1, 2)}], b"\x00", dt.date(2020, 1, 1), {1, 2}, D("1.50"), (), Color.green]

    def add(tid, make, values, mode="exact", group="sqlite", deco_name=None):
        _CAT[tid] = dict(make=make, values=list(values) + [None], mode=mode, group=group, deco=deco_name)
    add("Integer", Integer, ints)
    add("BigInteger", BigInteger, ints)
    add("SmallInteger", SmallInteger, [0, 1, -1, 32767, -32768])
    add("Numeric(10,2)", lambda: Numeric(10, 2), [D("0.00"), D("-123.45"), D("99999999.99"), D("0.01"), D("-0.01"), D("1.10")], mode="decimal:2")
    add("Numeric(12,4)", lambda: Numeric(12, 4), [D("0.0001"), D("-99999999.9999"), D("1.5000")], mode="decimal:4")
    add("Numeric(10,2,asdecimal=False)", lambda: Numeric(10, 2, asdecimal=False), [0.0, -123.45, 0.01, 99999999.99], mode="float")
    add("Float", Float, [0.0, -0.0, 1.5, 0.1, 1e-300, 1.7976931348623157e308, 5e-324, -2.5e10, 1 / 3], mode="float")
    add("Float(asdecimal=True,scale=4)", lambda: Float(asdecimal=True, decimal_return_scale=4), [D("1.5000"), D("-0.0001"), D("1234.5678")], mode="decimal:4")
    for tid, ty in (("String", String), ("String(50)", lambda: String(50)), ("Text", Text), ("Unicode", Unicode), ("UnicodeText", UnicodeText)):
        add(tid, ty, strs if "50" not in tid else [s for s in strs if len(s) <= 50])
    add("Boolean", Boolean, [True, False], group="portable")
    add("Boolean(create_constraint=True)", lambda: Boolean(create_constraint=True), [True, False], group="portable")
    add("Date", Date, dates)
    add("DateTime", DateTime, dts)
    add("DateTime(timezone=True)", lambda: DateTime(timezone=True), dts[:6])
    add("Time", Time, times)
    add("sqlite.DATETIME", sqlite.DATETIME, dts)
    add("sqlite.DATE", sqlite.DATE, dates)
    add("sqlite.TIME", sqlite.TIME, times)
    add("sqlite.DATETIME(custom format)", lambda: sqlite.DATETIME(
        storage_format="%(year)04d/%(month)02d/%(day)02d %(hour)02d:%(minute)02d:%(second)02d.%(microsecond)06d",
        regexp=r"(\d+)/(\d+)/(\d+) (\d+):(\d+):(\d+)\.(\d+)"), dts)
    add("Interval(native=False)", lambda: Interval(native=False), deltas, group="portable")
    add("Interval", Interval, deltas)
    add("LargeBinary", LargeBinary, [b"", b"\x00\xff", b"abc", bytes(range(256)) * 64], group="portable")
    add("Enum(Color,native_enum=False)", lambda: Enum(Color, native_enum=False), list(Color), mode="is", group="portable")
    add("Enum(Color)", lambda: Enum(Color), list(Color), mode="is")
    add("Enum(Color,values_callable)", lambda: Enum(Color, native_enum=False, values_callable=lambda c: [str(m.value) for m in c]), list(Color), mode="is", group="portable")
    add("Enum(Num IntEnum)", lambda: Enum(Num, native_enum=False), list(Num), mode="is", group="portable")
    add("Enum('a','b',native_enum=False)", lambda: Enum("a", "b", "", native_enum=False), ["a", "b", ""], group="portable")
    add("Enum('a','b')", lambda: Enum("a", "b"), ["a", "b"])
    add("JSON", JSON, jsons, mode="json")
    add("JSON(none_as_null=True)", lambda: JSON(none_as_null=True), jsons[:6], mode="json")
    add("Uuid(native_uuid=False)", lambda: Uuid(native_uuid=False), uu, group="portable")
    add("Uuid", Uuid, uu)
    add("Uuid(as_uuid=False,native_uuid=False)", lambda: Uuid(as_uuid=False, native_uuid=False), [str(u) for u in uu], group="portable")
    add("PickleType", PickleType, pick, group="portable")
    add("PickleType(protocol=2)", lambda: PickleType(protocol=2), pick[:5], group="portable")
    add("TypeDecorator Tagged(String)", deco["Tagged"], ["a", "", "<x>", "ü"], group="portable", deco_name=["Tagged"])
    add("TypeDecorator Plus(Integer)", deco["Plus"], [0, -1000, 2**40], group="portable", deco_name=["Plus"])
    add("TypeDecorator SetAsJson(JSON)", deco["SetAsJson"], [set(), {1, 2}, {"a"}], deco_name=["SetAsJson"])
    add("TypeDecorator Outer(Tagged(String))", deco["Outer"], ["a", "", "abc"], group="portable", deco_name=["Outer", "Tagged"])
    add("TypeDecorator DecoBool(Boolean)", deco["DecoBool"], [True, False], group="portable", deco_name=["DecoBool"])
    add("TypeDecorator DecoInterval(Interval)", deco["DecoInterval"], deltas[:4], group="portable", deco_name=["DecoInterval"])
    add("TypeDecorator DecoEnum(Enum)", deco["DecoEnum"], list(Color), mode="is", group="portable", deco_name=["DecoEnum"])
    add("TypeDecorator DecoPickle(PickleType)", deco["DecoPickle"], pick[:4], group="portable", deco_name=["DecoPickle"])
    add("TypeDecorator Guid(load_dialect_impl)", deco["Guid"], uu, group="portable", deco_name=["Guid"])
    return _CAT


_DIALECTS = {}


def dialects():
    if not _DIALECTS:
        from sqlalchemy.dialects import mssql, mysql, oracle, postgresql, sqlite
        from sqlalchemy.engine import default
        _DIALECTS.update(sqlite=sqlite.dialect(), default=default.DefaultDialect(), postgresql=postgresql.dialect(), mysql=mysql.dialect(),
                         mssql=mssql.dialect(), oracle=oracle.dialect())
    return _DIALECTS


def same(v, back, mode):
    if v is None or back is None:
        return v is None and back is None
    if mode == "is":
        return back is v
    if mode.startswith("decimal:"):
        q = decimal.Decimal(1).scaleb(-int(mode.split(":")[1]))
        return type(back) is decimal.Decimal and back.quantize(q) == v.quantize(q)
    if mode == "float":
        return type(back) is float and back == v              # "compares equal": SQLite itself stores -0.0 as 0.0
    if mode == "json":
        return json.dumps(back, sort_keys=True) == json.dumps(v, sort_keys=True) and type(back) is type(v)
    if type(v) is set:
        return type(back) is set and back == v
    return type(back) is type(v) and back == v


def show(v):
    r = repr(v)
    return r if len(r) <= 80 else r[:60] + f"...<{len(r)} chars>"


def eval_pair(tid, dname, i):
    """clause inverse (+ once for TypeDecorators) on the processor pair -> (failed clauses, facts)"""
    ent = catalogue()[tid]
    v = ent["values"][i]
    d = dialects()[dname]
    failed, facts = [], dict(value=show(v))
    COUNTS.clear()
    try:
        t = ent["make"]()
        impl = t.dialect_impl(d)
        bp, rp = t._cached_bind_processor(d), t._cached_result_processor(d, None)
        stored = bp(v) if bp else v
        back = rp(stored) if rp else stored
    except Exception as e:      # noqa: BLE001
        return ["inverse"], dict(facts, exception=f"{type(e).__name__}: {e}"[:200])
    facts.update(stored=show(stored), back=show(back), impl=type(impl).__name__, has_bind=bp is not None, has_result=rp is not None,
                 transformed=bool(stored is not v and not (type(stored) is type(v) and stored == v)))
    if not same(v, back, ent["mode"]):
        failed.append("inverse")
    if ent["deco"]:
        facts["counts"] = dict(COUNTS)
        for name in ent["deco"]:
            if COUNTS.get(name + ".bind", 0) != 1 or COUNTS.get(name + ".result", 0) != 1:
                failed.append("once")
                break
    return failed, facts


_ENGINE = {}


def engine():
    if not _ENGINE:
        from sqlalchemy import Column, Integer, MetaData, Table, create_engine
        eng = create_engine("sqlite://")
        md = MetaData()
        tables = {}
        for n, (tid, ent) in enumerate(catalogue().items()):
            tables[tid] = Table(f"verif_c09_{n}", md, Column("id", Integer, primary_key=True), Column("v", ent["make"]()))
        md.create_all(eng)
        _ENGINE.update(eng=eng, tables=tables, md=md)
    return _ENGINE


def eval_sqlite(tid, i, many=False):
    """clause roundtrip through a real sqlite3 database -> (failed, facts)"""
    from sqlalchemy import delete, insert, select
    ent = catalogue()[tid]
    env = engine()
    t = env["tables"][tid]
    vals = ent["values"] if many else [ent["values"][i]]
    failed, facts = [], dict(value=show(vals if many else vals[0]), executemany=many)
    COUNTS.clear()
    try:
        with env["eng"].begin() as conn:
            conn.execute(delete(t))
            if many:
                conn.execute(insert(t), [dict(id=k + 1, v=v) for k, v in enumerate(vals)])
            else:
                conn.execute(insert(t).values(id=1, v=vals[0]))
            rows = conn.execute(select(t.c.id, t.c.v).order_by(t.c.id)).all()
            raw = conn.exec_driver_sql(f"select v, typeof(v) from {t.name} order by id").all()
            conn.execute(delete(t))
    except Exception as e:      # noqa: BLE001
        return ["roundtrip"], dict(facts, exception=f"{type(e).__name__}: {e}"[:200])
    back = [r[1] for r in rows]
    facts.update(back=show(back if many else back[0]), stored=show([tuple(r) for r in raw][:3]))
    if len(back) != len(vals) or not all(same(v, b, ent["mode"]) for v, b in zip(vals, back)):
        failed.append("roundtrip")
        if many:
            facts["first_bad_index"] = next((k for k, (v, b) in enumerate(zip(vals, back)) if not same(v, b, ent["mode"])), None)
    if ent["deco"]:
        facts["counts"] = dict(COUNTS)
        for name in ent["deco"]:
            if COUNTS.get(name + ".bind", 0) != len(vals) or COUNTS.get(name + ".result", 0) != len(vals):
                failed.append("once")
                break
    return failed, facts


# ----------------------------------------------------------------------------------------------- nesting contexts (SQLite)
_CTX = {}


def ctx_env():
    if not _CTX:
        from sqlalchemy import Column, Integer, create_engine
        from sqlalchemy.orm import declarative_base
        deco = _decorators()
        eng = create_engine("sqlite://")
        Base = declarative_base()
        Tagged, Plus = deco["Tagged"], deco["Plus"]
        # counters are keyed by class name: these are the same classes as in the catalogue

        class VRow(Base):
            __tablename__ = "verif_c09_ctx"
            id = Column(Integer, primary_key=True)
            s = Column(Tagged)
            n = Column(Plus)
        Base.metadata.create_all(eng)
        _CTX.update(eng=eng, VRow=VRow, t=VRow.__table__, Tagged=Tagged, Plus=Plus)
    return _CTX


def contexts():
    """name -> fn(conn/session env, values) -> (delivered values, expected values, expected bind calls, expected result calls)"""
    from sqlalchemy import cast, func, insert, literal, select, type_coerce, union_all
    from sqlalchemy.orm import Session, aliased
    e = ctx_env()
    t, VRow, Tagged = e["t"], e["VRow"], e["Tagged"]
    out = {}

    def simple(name, build, per_row=1, binds=0, post=None):
        def run(conn, vals):
            stmt = build()
            rows = conn.execute(stmt).all()
            got = [x for r in rows for x in r]
            want = post(vals) if post else [v for v in vals for _ in range(per_row)]
            return got, want, binds, len(want)
        out[name] = run
    simple("plain select", lambda: select(t.c.s).order_by(t.c.id))
    simple("label", lambda: select(t.c.s.label("x")).order_by(t.c.id))
    simple("subquery", lambda: (lambda sq: select(sq.c.s).order_by(sq.c.id))(select(t.c.id, t.c.s).subquery()))
    simple("subquery of labelled column", lambda: (lambda sq: select(sq.c.lbl).order_by(sq.c.id))(select(t.c.id, t.c.s.label("lbl")).subquery()))
    simple("nested subquery", lambda: (lambda sq: select(sq.c.s).order_by(sq.c.id))(select(select(t.c.id, t.c.s).subquery()).subquery()))
    simple("cte", lambda: (lambda c: select(c.c.s).order_by(c.c.id))(select(t.c.id, t.c.s).cte("c")))
    simple("union all", lambda: (lambda u: select(u.c.s).order_by(u.c.id))(union_all(select(t.c.id, t.c.s), select(t.c.id, t.c.s)).subquery()), per_row=2)
    simple("union all (direct)", lambda: union_all(select(t.c.s), select(t.c.s)), post=lambda vals: sorted(vals + vals, key=lambda x: (x is None, x)))
    simple("same column twice", lambda: select(t.c.s, t.c.s).order_by(t.c.id), per_row=2)
    simple("two labels of one column", lambda: select(t.c.s.label("a"), t.c.s.label("b")).order_by(t.c.id), per_row=2)
    simple("scalar subquery", lambda: select(select(t.c.s).where(t.c.id == 1).scalar_subquery()), post=lambda vals: vals[:1])
    simple("func.max", lambda: select(func.max(t.c.s)).where(t.c.id == 1), post=lambda vals: vals[:1])
    simple("func.coalesce", lambda: select(func.coalesce(t.c.s, t.c.s)).where(t.c.id == 1), post=lambda vals: vals[:1])
    simple("type_coerce of raw column", lambda: select(type_coerce(t.c.s, Tagged)).order_by(t.c.id))
    simple("cast to the decorated type", lambda: select(cast(t.c.s, Tagged)).order_by(t.c.id))

    def union_direct(conn, vals):
        rows = conn.execute(union_all(select(t.c.s), select(t.c.s))).all()
        got = sorted([r[0] for r in rows], key=lambda x: (x is None, x))
        want = sorted(vals + vals, key=lambda x: (x is None, x))
        return got, want, 0, len(want)
    out["union all (direct)"] = union_direct

    def lit(conn, vals):
        got = [conn.execute(select(literal(v, Tagged))).scalar() for v in vals if v is not None]
        want = [v for v in vals if v is not None]
        return got, want, len(want), len(want)
    out["literal() bind"] = lit

    def where(conn, vals):
        got = [conn.execute(select(t.c.s).where(t.c.s == v)).scalars().all() for v in vals if v is not None]
        want = [[v] for v in vals if v is not None]
        return got, want, len(want), len(want)
    out["WHERE col == value"] = where

    def in_(conn, vals):
        nn = [v for v in vals if v is not None]
        got = sorted(conn.execute(select(t.c.s).where(t.c.s.in_(nn))).scalars().all())
        return got, sorted(nn), len(nn), len(nn)
    out["WHERE col IN (values)"] = in_

    def returning(conn, vals):
        got = []
        for k, v in enumerate(vals):
            got.append(conn.execute(insert(t).values(id=100 + k, s=v).returning(t.c.s)).scalar())
        return got, list(vals), len(vals), len(vals)
    out["INSERT..RETURNING"] = returning

    def returning_many(conn, vals):
        rows = conn.execute(insert(t).returning(t.c.s, sort_by_parameter_order=True), [dict(id=200 + k, s=v) for k, v in enumerate(vals)]).all()
        return [r[0] for r in rows], list(vals), len(vals), len(vals)
    out["executemany INSERT..RETURNING"] = returning_many

    def update_returning(conn, vals):
        from sqlalchemy import update
        got = conn.execute(update(t).where(t.c.id == 1).values(s=vals[1]).returning(t.c.s)).scalar()
        return [got], [vals[1]], 1, 1
    out["UPDATE..RETURNING"] = update_returning

    def orm(kind):
        def run(conn, vals):
            with Session(bind=conn) as s:
                if kind == "entity":
                    got = [o.s for o in s.execute(select(VRow).order_by(VRow.id)).scalars()]
                elif kind == "attribute":
                    got = list(s.execute(select(VRow.s).order_by(VRow.id)).scalars())
                elif kind == "aliased":
                    A = aliased(VRow)
                    got = [o.s for o in s.execute(select(A).order_by(A.id)).scalars()]
                elif kind == "from_statement subquery":
                    sq = select(VRow).subquery()
                    A = aliased(VRow, sq)
                    got = [o.s for o in s.execute(select(A).order_by(A.id)).scalars()]
                else:
                    objs = list(s.execute(select(VRow).order_by(VRow.id)).scalars())
                    COUNTS.clear()
                    for o in objs:
                        s.refresh(o)
                    got = [o.s for o in objs]
            return got, list(vals), 0, len(vals)
        return run
    for kind in ("entity", "attribute", "aliased", "from_statement subquery", "refresh"):
        out["ORM " + kind] = orm(kind)

    def orm_flush(conn, vals):
        with Session(bind=conn) as s:
            objs = [VRow(id=300 + k, s=v) for k, v in enumerate(vals)]
            s.add_all(objs)
            s.flush()
            binds = COUNTS.get("Tagged.bind", 0)
            s.expire_all()
            got = [o.s for o in objs]
        if binds != len(vals):
            return got, list(vals), len(vals), -1            # force a count failure that names the bind side
        COUNTS["Tagged.bind"] = binds
        return got, list(vals), len(vals), len(vals)
    out["ORM flush + reload"] = orm_flush
    return out


CTX_VALUES = ["a", "", "<x>", None, "ü"]


def eval_context(name):
    from sqlalchemy import delete, insert
    e = ctx_env()
    t = e["t"]
    fn = contexts()[name]
    failed, facts = [], dict(context=name, values=CTX_VALUES)
    try:
        with e["eng"].connect() as conn:
            conn.execute(delete(t))
            conn.execute(insert(t), [dict(id=k + 1, s=v, n=k) for k, v in enumerate(CTX_VALUES)])
            COUNTS.clear()
            got, want, binds, results = fn(conn, list(CTX_VALUES))
            conn.rollback()
    except Exception as ex:     # noqa: BLE001
        return ["once"], dict(facts, exception=f"{type(ex).__name__}: {ex}"[:300])
    facts.update(delivered=got, expected=want, bind_calls=COUNTS.get("Tagged.bind", 0), result_calls=COUNTS.get("Tagged.result", 0),
                 expected_bind_calls=binds, expected_result_calls=results)
    if got != want:
        failed.append("value")
    if COUNTS.get("Tagged.bind", 0) != binds or COUNTS.get("Tagged.result", 0) != results:
        failed.append("once")
    return failed, facts


# ----------------------------------------------------------------------------------------------- (d) postgresql.ARRAY
LABEL_ALPHABET = 'a ,"\\{'


class Shade(enum.Enum):
    """a Python enum persisted by its values, which need every kind of quoting in the array text form"""
    light = "light"
    dark_blue = "dark blue"
    comma = "a,b"
    quote = 'q"t'
    backslash = "b\\s"
    null = "NULL"


def enum_labels():
    """all strings of length 0..2 over LABEL_ALPHABET + the words NULL / null + two plain labels"""
    return ["".join(t) for n in range(0, 3) for t in itertools.product(LABEL_ALPHABET, repeat=n)] + ["NULL", "null", "one", "three"]


CORE_LABELS = ["one", "a ", "a,", 'a"', "a\\", "NULL"]


def pg_array_out(value):
    """spec (PostgreSQL manual 8.15.6 "Array Input and Output Syntax"): the text the server's array output routine produces
    for an array whose elements have the text form `str` (None = NULL element; nested lists = further dimensions)"""
    out = []
    for v in value:
        if v is None:
            out.append("NULL")
        elif isinstance(v, (list, tuple)):
            out.append(pg_array_out(v))
        elif v == "" or v.upper() == "NULL" or any(ch in v for ch in '{}," \\\t\n\r\v\f'):
            out.append('"%s"' % v.replace("\\", "\\\\").replace('"', '\\"'))
        else:
            out.append(v)
    return "{%s}" % ",".join(out)


_ACAT = {}


def array_catalogue():
    """array item id -> dict(make, elements, core, mode, deco, forms)"""
    if _ACAT:
        return _ACAT
    from sqlalchemy import Enum
    from sqlalchemy.dialects import postgresql
    cat = catalogue()
    for tid in ("Integer", "String", "Boolean", "Enum('a','b',native_enum=False)", "Enum(Color,native_enum=False)", "Uuid(native_uuid=False)",
                "Interval(native=False)", "TypeDecorator Tagged(String)", "TypeDecorator Plus(Integer)", "TypeDecorator DecoEnum(Enum)"):
        ent = cat[tid]
        elems = [v for v in ent["values"] if v is not None][:3] + [None]
        _ACAT[tid] = dict(make=ent["make"], elements=elems, core=elems, mode=ent["mode"], deco=ent["deco"], forms=("list",))
    labels = enum_labels()
    _ACAT["Enum(labels) native"] = dict(make=lambda: Enum(*labels, name="verif_lbl"), elements=labels + [None], core=CORE_LABELS + [None], mode="exact",
                                        deco=None, forms=("list", "text"))
    _ACAT["postgresql.ENUM(labels)"] = dict(make=lambda: postgresql.ENUM(*labels, name="verif_lbl"), elements=labels + [None], core=CORE_LABELS + [None],
                                            mode="exact", deco=None, forms=("list", "text"))
    _ACAT["Enum(Shade,values_callable) native"] = dict(make=lambda: Enum(Shade, name="verif_shade", values_callable=lambda c: [m.value for m in c]),
                                                       elements=list(Shade) + [None], core=list(Shade) + [None], mode="is", deco=None, forms=("list", "text"))
    return _ACAT


_PG = {}


def pg_dialects():
    if not _PG:
        from sqlalchemy.dialects.postgresql import asyncpg, pg8000, psycopg, psycopg2
        _PG.update(psycopg2=psycopg2.dialect(), psycopg=psycopg.dialect(), asyncpg=asyncpg.dialect(), pg8000=pg8000.dialect())
    return _PG


def array_values(ent, full, form="list"):
    """(shape, value): None; 1-D: every list of length 0..2 over the element set (full) / the core elements, and every list of
    length 3 over the core elements; 2-D: every rectangular r x c matrix, r, c in 1..2, over the core elements (text form: over the
    first two core elements + None - one dimension is all the text parser claims to handle, see known findings)"""
    yield "none", None
    el, core = (ent["elements"] if full else ent["core"]), ent["core"]
    for n in range(0, 3):
        for t in itertools.product(el, repeat=n):
            yield "1d", list(t)
    for t in itertools.product(core, repeat=3):
        yield "1d", list(t)
    core2 = core if form == "list" else core[:2] + [None]
    for r in (1, 2):
        for c in (1, 2):
            for t in itertools.product(core2, repeat=r * c):
                yield "2d", [list(t[k * c:(k + 1) * c]) for k in range(r)]


def same_array(v, back, mode, as_tuple):
    if v is None or back is None:
        return v is None and back is None
    if isinstance(v, list):
        return type(back) is (tuple if as_tuple else list) and len(back) == len(v) and all(same_array(a, b, mode, as_tuple) for a, b in zip(v, back))
    return same(v, back, mode)


def _flat(v):
    if isinstance(v, (list, tuple)):
        for x in v:
            yield from _flat(x)
    else:
        yield v


_ATYPES = {}


def eval_array(aid, dname, dims, as_tuple, form, value):
    """clauses inverse + once for postgresql.ARRAY(item) with the driver delivering `form` -> (failed clauses, facts)"""
    from sqlalchemy.dialects import postgresql
    ent = array_catalogue()[aid]
    d = pg_dialects()[dname]
    failed, facts = [], dict(value=show(value))
    COUNTS.clear()
    wire = None
    try:
        key = (aid, dims, as_tuple)
        if key not in _ATYPES:
            _ATYPES[key] = postgresql.ARRAY(ent["make"](), dimensions=dims, as_tuple=as_tuple)
        t = _ATYPES[key]
        bp, rp = t._cached_bind_processor(d), t._cached_result_processor(d, None)
        stored = bp(value) if bp else value
        wire = stored if form == "list" or stored is None else pg_array_out(stored)
        back = rp(wire) if rp else wire
    except Exception as e:      # noqa: BLE001
        return ["inverse"], dict(facts, wire=show(wire), exception=f"{type(e).__name__}: {e}"[:200])
    facts.update(wire=show(wire), back=show(back))
    if not same_array(value, back, ent["mode"], as_tuple):
        failed.append("inverse")
    if ent["deco"] and value is not None:
        n = sum(1 for _ in _flat(value))
        facts["counts"] = dict(COUNTS, elements=n)
        if any(COUNTS.get(name + ".bind", 0) != n or COUNTS.get(name + ".result", 0) != n for name in ent["deco"]):
            failed.append("once")
    return failed, facts


def array_cases():
    """(aid, dialect, dimensions, as_tuple, form, full, value index, shape, value) - the whole scope (d)"""
    for aid, ent in array_catalogue().items():
        for dname in pg_dialects():
            # the element set is enumerated in full on the psycopg2 dialect, the core elements on the others (same processors, other impl class)
            full = dname == "psycopg2"
            for form in ent["forms"]:
                vals = list(array_values(ent, full, form))
                for as_tuple in (False, True):
                    for k, (shape, value) in enumerate(vals):
                        for dims in ((None, 1, 2) if shape == "none" else (None, 1) if shape == "1d" else (None, 2)):
                            yield aid, dname, dims, as_tuple, form, full, k, shape, value


def array_input(aid, dname, dims, as_tuple, form, full, k, shape, value):
    """the JSON description of one array case (what a known-finding entry is matched against and what replay() re-runs)"""
    return dict(path="array", type=aid, dialect=dname, dimensions=dims, as_tuple=as_tuple, form=form, full=full, value_index=k, shape=shape,
                value=show(value), elements_ending_in_backslash=sum(1 for x in _flat(value) if isinstance(x, str) and x.endswith("\\")))


# ----------------------------------------------------------------------------------------------- driver
def run(run, tier, seed, args):
    import sqlalchemy
    warnings.simplefilter("ignore")
    cat = catalogue()
    fails = []                  # (function, clause, input, facts)
    n_eval, nontrivial = 0, set()
    samples = []
    pairs = []
    for tid, ent in cat.items():
        for dname in dialects():
            if dname in ("sqlite", "default") or ent["group"] == "portable":
                if dname == "default" and tid.startswith("sqlite."):
                    continue
                pairs.append((tid, dname))
    for tid, dname in pairs:
        ent = cat[tid]
        for i in range(len(ent["values"])):
            n_eval += 1
            failed, facts = eval_pair(tid, dname, i)
            if facts.get("transformed") or facts.get("has_result"):
                nontrivial.add((tid, dname, i))
            if len(samples) < 6 and facts.get("transformed") and n_eval % 37 == 0:
                samples.append(dict(type=tid, dialect=dname, value=facts["value"], stored=facts.get("stored"), back=facts.get("back")))
            for clause in failed:
                fails.append((f"{tid} @ {dname}", clause, dict(type=tid, dialect=dname, value_index=i, value=facts["value"], path="processors"), facts))
    for tid, ent in cat.items():
        for i in range(len(ent["values"])):
            n_eval += 1
            failed, facts = eval_sqlite(tid, i)
            nontrivial.add((tid, "sqlite3", i))
            for clause in failed:
                fails.append((f"{tid} @ sqlite3", clause, dict(type=tid, dialect="sqlite3", value_index=i, value=facts["value"], path="sqlite3"), facts))
        n_eval += 1
        failed, facts = eval_sqlite(tid, 0, many=True)
        for clause in failed:
            fails.append((f"{tid} @ sqlite3", clause, dict(type=tid, dialect="sqlite3", value_index=-1, value=facts["value"], path="sqlite3-executemany"), facts))
    n_array, array_by_form = 0, {}
    for case in array_cases():
        aid, dname, dims, as_tuple, form, full, k, shape, value = case
        n_eval += 1
        n_array += 1
        failed, facts = eval_array(aid, dname, dims, as_tuple, form, value)
        array_by_form[form] = array_by_form.get(form, 0) + 1
        if value:       # a non-empty array: every element goes through the item processors / the text parser
            nontrivial.add(("array", aid, dname, form, full, k))
        if form == "text" and shape == "1d" and len(value) == 3 and None in value and len(samples) < 8 and n_array % 101 == 0:
            samples.append(dict(array_of=aid, dialect=dname, form=form, value=facts["value"], wire=facts.get("wire"), back=facts.get("back")))
        for clause in failed:
            fails.append((f"ARRAY({aid}) @ {dname} [{form} form]", clause, array_input(*case), facts))
    ctx_names = list(contexts())
    for name in ctx_names:
        n_eval += 1
        failed, facts = eval_context(name)
        nontrivial.add(("context", name))
        if name in ("union all", "INSERT..RETURNING", "ORM entity"):
            samples.append(dict(context=name, delivered=facts.get("delivered"), bind_calls=facts.get("bind_calls"), result_calls=facts.get("result_calls")))
        for clause in failed:
            fails.append((f"TypeDecorator in context: {name}", clause, dict(context=name, path="context"), facts))
    known, new = {}, {}
    for function, clause, inp, facts in fails:
        k = run.match_known(function=function, clause=clause, input=json.dumps(inp, sort_keys=True, default=repr))
        if k is not None:
            known.setdefault(k["what"], [k, 0, (function, clause, inp, facts)])[1] += 1
        else:
            new.setdefault((function, clause), []).append((inp, facts))
    for what, (k, cnt, (function, clause, inp, facts)) in known.items():
        run.known_finding(k, f"{cnt} failing cases, e.g. {function} [{clause}] value={inp.get('value')} back={facts.get('back')}")
    for (function, clause), lst in sorted(new.items()):
        inp, facts = lst[0]
        run.violation(f"{function}-{clause}", dict(function=function, clause=clause, input=inp, facts=facts, failing_inputs_in_this_class=len(lst),
                                                    reason="inverse-pair / exactly-once contract failed on the real type processors"))
    by_dialect = {}
    for tid, dname in pairs:
        by_dialect.setdefault(dname, []).append(tid)
    run.coverage.update(
        evaluations=n_eval, distinct_nontrivial=len(nontrivial), exhaustive=True,
        rule="cases = (type, dialect, boundary value) for the processor pair, (type, value) and (type, all values as one executemany) through a real "
             "in-memory sqlite3 database, and one case per nesting context; distinct by construction; non-trivial = a result processor exists or the "
             "stored form differs from the Python value (every database and context case counts); (d): one case = (item type, dialect, dimensions, "
             "as_tuple, wire form, array value), non-trivial = distinct (item type, dialect, wire form, array value) with a non-empty array",
        scope=f"{len(cat)} types x boundary catalogues (None always included; Boolean / Enum exhaustive) on SQLite + DefaultDialect (processor pair) and through "
              f"sqlite3 {__import__('sqlite3').sqlite_version}; {sum(1 for e in cat.values() if e['group'] == 'portable')} driver-independent types also on "
              f"postgresql / mysql / mssql / oracle (processor pair); {len(ctx_names)} nesting contexts for the exactly-once clause on SQLite; "
              f"postgresql.ARRAY of {len(array_catalogue())} item types ({sum(1 for e in array_catalogue().values() if 'text' in e['forms'])} native ENUMs, "
              f"{len(enum_labels())} labels = all strings of length 0..2 over {LABEL_ALPHABET!r} + NULL / null / 2 plain) x dialects {list(pg_dialects())} x "
              f"dimensions None / 1 / 2 x as_tuple x wire form list / text (native ENUMs: both) x all lists of length 0..2 over the element set "
              f"(full on psycopg2, core elements on the other dialects), of length 3 over the core elements, all 1..2 x 1..2 matrices: {n_array} cases",
        array_cases_by_wire_form=array_by_form, array_item_types=list(array_catalogue()),
        types=list(cat), dialect_scope={k: len(v) for k, v in by_dialect.items()}, contexts=ctx_names, contract_failures=len(fails),
        samples=samples[:12], sqlalchemy=sqlalchemy.__file__)
    run.assumptions += [
        "driver = identity on the stored form: holds for sqlite3 (exercised for real) and is assumed for the processor-pair evaluation on the other dialects, "
        "which is why only driver-independent types are evaluated there (DESIGN 2.9)",
        "aware datetimes on SQLite outside (no offset in the storage format); Numeric beyond 15 significant digits outside (SQLite stores REAL); "
        "ints beyond 64 bit, dates outside datetime's range outside the types' domains",
        "native UUID / INTERVAL / JSON of the server dialects: their processors consume driver objects - outside",
        "ARRAY: the two wire forms (list = identity of the driver's array typecaster; text = PostgreSQL's documented array output syntax, manual 8.15.6, "
        "spec function pg_array_out) are assumed contracts of driver and server - no server is run; element text of a native ENUM = its label; "
        "array_in / storage on the server, arrays with lower bounds ('[2:3]={...}'), labels outside the enumerated alphabet are outside",
        "Python's pickle, json, uuid, datetime, decimal modules are trusted",
    ]
    if n_eval < 500:
        run.crashes.append(f"vacuity guard: only {n_eval} evaluations")


def replay(data):
    warnings.simplefilter("ignore")
    inp, clause = data["input"], data.get("clause")
    if inp.get("path") == "array":
        shape, value = list(array_values(array_catalogue()[inp["type"]], inp["full"], inp["form"]))[inp["value_index"]]
        failed, facts = eval_array(inp["type"], inp["dialect"], inp["dimensions"], inp["as_tuple"], inp["form"], value)
    elif inp.get("path") == "context":
        failed, facts = eval_context(inp["context"])
    elif inp.get("path") == "processors":
        failed, facts = eval_pair(inp["type"], inp["dialect"], inp["value_index"])
    else:
        failed, facts = eval_sqlite(inp["type"], max(inp["value_index"], 0), many=inp["value_index"] < 0)
    if clause in failed or (not clause and failed):
        print(f"REPLAY-FAILS {data.get('function')} clause={clause} input={json.dumps(inp, default=repr)} facts={json.dumps(facts, default=repr)[:600]}")
        return 1
    print(f"REPLAY-PASSES {data.get('function')} clause={clause} input={json.dumps(inp, default=repr)} (clauses failing now: {failed})")
    return 0
