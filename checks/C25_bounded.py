"""C25 — bounded complement (run-time contracts over the fake DBAPI, NOT proof): the QueuePool never hands one connection
to two holders and respects its limits; a checkout that waits is served by a connection returned before its timeout.
Two parts, one coverage block each: (1) SEQUENTIAL histories, (2) REAL-THREAD deterministic schedules of waiting checkouts.
Neither explores all thread interleavings: the property's quantifier over schedules is covered only for the schedule family (2).

(1) SEQUENTIAL.  ``bounded(run, tier, seed)`` drives the REAL ``QueuePool(pool_size ∈ 0..2, max_overflow ∈ -1..2, FIFO and LIFO)``
through every history of {checkout, checkout with failing creator, return (holder 0/1/2), hard invalidate, soft invalidate,
pool-wide ``_invalidate``, drop reference + gc, use} (pool timeout 0, one thread) and evaluates after EVERY step (clauses in
rtc/poolhist.py):

  P1  max_overflow > -1 ∧ pool_size > 0 ⇒ #DBAPI connections open (ghost ledger) <= pool_size + max_overflow
  P2  pool_size > 0 ⇒ #idle <= pool_size
  P3  ``checkedout()`` == number of live holders (the ghost releases a holder on close / hard invalidate /
      ``Pool._invalidate(fairy)`` / dropped reference; a soft invalidation and a failed checkout do not change it)
  P4  no DBAPI connection is referenced by two live fairies
  P5/P6/P7  a handed-out connection is open, not invalidated, not older than a pool-wide invalidation of its generation; no idle
      connection is closed; no call reaches a closed connection
  P8  a checkout fails only because the creator failed or the limit is reached (then with ``TimeoutError``)
and after all holders released: R1 ``checkedout() == 0``, R2 every open connection is idle in the pool, R4 the pool hands out
``pool_size + max_overflow`` connections again (no slot leaked by a creator failure or an invalidation).

(2) THREAD SCHEDULES (``run_schedule``).  REAL ``QueuePool(pool_size, max_overflow) ∈ {(1,0), (2,0), (1,1)}``, FIFO and LIFO, pool
timeout T = 20 s.  The main thread exhausts the pool; 1 or 2 waiter THREADS call ``pool.connect()`` and block in the timed
``Queue.get`` (each is observed inside ``Condition.wait`` before the schedule goes on); then the main thread executes one or two
BLOCKS of up to 3 (quick: two blocks of up to 2) operations over {ret = return a connection, co = check one out, inv = hard
invalidate one}.  A block is atomic with respect to the waiters — the main thread holds the queue's re-entrant mutex around it
— so that a wake-up delivered inside the block can be *stolen* inside the block (``ret, co``: the woken waiter finds the queue
empty again), several wake-ups can be delivered at once (``ret, ret``), a return can hit a full queue, etc.  After each block
the main thread waits (bounded) for QUIESCENCE: every waiter is blocked in ``Condition.wait`` un-notified or has finished.
Finally every connection (main's and the served waiters') is returned one at a time with quiescence in between.
Synchronisation is by observation, never by sleeping: the queue's ``not_empty`` condition object is replaced by a
``threading.Condition`` subclass that reports wait-entry / notify / wake-up to a monitor (the Queue and pool code that runs is the
real one); all waits of the harness are bounded and every thread is a daemon joined with a timeout.  Clauses, at every
quiescent point:

  P1, P2, P3 (``checkedout()`` == main's holders + served waiters), P4, P5 (not closed), P6 as above;
  W0  a timed checkout on an exhausted pool blocks (does not fail or return at once);
  W1  a waiting checkout gives up (``TimeoutError``) only after its timeout has elapsed — giving up earlier means it cannot be
      "served by a connection returned before its timeout";  any other exception: P8;
  W2  every connection having been returned to the pool well before a waiter's deadline (the whole schedule takes
      milliseconds; no verdict if the machine stalled to within 2 s of a deadline), that waiter has been SERVED — late service is
      accepted (the property does not bound the latency), ``TimeoutError`` is not;
and at the end R1, R2, R4 (the refill must not wait).  "short" schedules: one waiter with T = 0.3 s, one block of <= 2 operations,
nothing returned afterwards until the waiter has finished: it is served or times out, never before 0.3 s (W1), and the
P-clauses / R-clauses hold afterwards.

``bounded`` appends the two blocks to ``run.coverage["bounded"]`` and reports failures through ``run``.
"""
import json
import threading
import time
import zlib

from rtc import fakedbapi as F
from rtc import poolhist as H
from rtc.shard import default_procs, shard_map
from checks.C26_bounded import report as _report

FUNCTION = "sqlalchemy.pool.impl.QueuePool._do_get/_do_return_conn/_inc_overflow/_dec_overflow/checkedout"
OPS = ["co", "cof", "ci0", "ci1", "ci2", "inv0", "soft0", "poolinv0", "gc0", "use0"]
CONFIGS = [dict(name=f"queue({ps},{mo}){'+lifo' if lifo else ''}", pool="queue", pool_size=ps, max_overflow=mo, lifo=lifo)
           for ps in (0, 1, 2) for mo in (-1, 0, 1, 2) for lifo in (False,)] + \
          [dict(name="queue(2,1)+lifo", pool="queue", pool_size=2, max_overflow=1, lifo=True),
           dict(name="queue(1,1)+lifo", pool="queue", pool_size=1, max_overflow=1, lifo=True)]


def histories(maxlen):
    def ok(prefix, op):
        if op in ("co", "cof"):
            return True
        made = sum(1 for o in prefix if o in ("co", "cof"))
        released = sum(1 for o in prefix if o[:2] in ("ci", "in", "gc", "po"))
        return made - released > int(op[-1])

    def rec(prefix):
        if prefix:
            yield prefix
        if len(prefix) == maxlen:
            return
        for op in OPS:
            if ok(prefix, op):
                yield from rec(prefix + (op,))
    yield from rec(())


def abstract(trace_steps):
    return "|".join(f"{s['op']}:{s.get('raised') or '-'}:{s.get('checkedout')}" for s in trace_steps)


def worker(shard, nshards, maxlen):
    F.quiet()
    out = dict(runs=0, evaluated=0, na=0, failures=[], nontrivial=0, at_limit=0, creator_failures=0, samples=[])
    idx = 0
    for ops in histories(maxlen):
        for cfg in CONFIGS:
            idx += 1
            if idx % nshards != shard:
                continue
            out["runs"] += 1
            r = H.run_history(cfg, ops, trace=False)
            if r["na"]:
                out["na"] += 1
                continue
            out["evaluated"] += 1
            # non-trivial: the history reached the limit (a checkout was refused) or a creator failure fired or a connection
            # was closed by the pool (overflow return / invalidation): read from the ledger
            nt = bool(r["fired"]) or r.get("closed", 0) > 0 or r.get("refused", 0) > 0
            if nt:
                out["nontrivial"] += 1
            out["creator_failures"] += 1 if r["fired"] else 0
            out["at_limit"] += 1 if r.get("refused", 0) else 0
            if r["failure"]:
                out["failures"].append(dict(config=cfg["name"], ops=list(ops), faults=[], **r["failure"]))
            elif len(out["samples"]) < 1 and len(ops) == maxlen and r["fired"] and r.get("refused"):
                out["samples"].append(dict(config=cfg["name"], ops=list(ops), creator_failures=len(r["fired"]), refused_checkouts=r["refused"]))
    return out


# ===================================================================================================== thread schedules
# Real threads, deterministic schedules (see the module docstring, "THREAD SCHEDULES").  Nothing of the pool is modelled: the
# real ``QueuePool`` / ``util.queue.Queue`` run; the only instrumentation is that the queue's ``not_empty`` condition object is
# replaced by a subclass of ``threading.Condition`` that reports wait-entry / wake-up / notify to a monitor, so that the main
# thread can wait (bounded) for *quiescence* — every waiter is blocked inside ``Condition.wait`` un-notified, or has finished —
# instead of sleeping.  A block of main-thread operations is made atomic with respect to the waiters by holding the queue's
# (re-entrant) mutex around it: a waiter that is notified inside the block can only look at the queue after the block.
T_LONG = 20.0           # pool timeout of the waiters in "long" mode: never reached by a schedule (they take milliseconds)
T_SHORT = 0.3           # pool timeout in "short" mode: the waiter is allowed to time out, but not before T_SHORT elapsed
QUIESCE_BOUND = 10.0    # bounded wait for quiescence / for the queue mutex
DEADLINE_MARGIN = 2.0   # a verdict on "served before its timeout" is only given when the returns ended this long before a deadline
EPS = 0.05
BLOCK_OPS = ["ret", "co", "inv"]
TCONFIGS = [dict(name=f"queue({ps},{mo}){'+lifo' if lifo else ''}", pool_size=ps, max_overflow=mo, lifo=lifo)
            for ps, mo in ((1, 0), (2, 0), (1, 1)) for lifo in (False, True)]
TFUNCTION = "sqlalchemy.util.queue.Queue.get/put + sqlalchemy.pool.impl.QueuePool._do_get/_do_return_conn (timed wait, real threads)"


class _Monitor:
    """who is blocked where; every transition except 'done' happens while the acting thread holds the queue mutex"""

    def __init__(self):
        self.cv = threading.Condition(threading.Lock())
        self.state = {}          # waiter index -> new | waiting | notified | running | done
        self.by_ident = {}
        self.order = []          # indexes blocked in wait() and not yet notified, in wait-entry order (= Condition's own order)
        self.rewaits = 0         # a waiter that had been notified found the queue empty and went back to waiting
        self.was_notified = set()

    def enter_wait(self):
        with self.cv:
            i = self.by_ident.get(threading.get_ident(), "main")
            if i in self.was_notified:
                self.rewaits += 1
                self.was_notified.discard(i)
            self.state[i] = "waiting"
            self.order.append(i)
            self.cv.notify_all()

    def notified(self, n):
        with self.cv:
            for i in self.order[:n]:
                self.state[i] = "notified"
                self.was_notified.add(i)
            del self.order[:n]

    def leave_wait(self):
        with self.cv:
            i = self.by_ident.get(threading.get_ident(), "main")
            if i in self.order:          # left by time-out, not by notify
                self.order.remove(i)
            self.state[i] = "running"

    def done(self, i):
        with self.cv:
            self.state[i] = "done"
            self.was_notified.discard(i)
            self.cv.notify_all()

    def quiescent(self):
        return all(v in ("waiting", "done") for k, v in self.state.items() if k != "main")

    def wait_quiescent(self, bound):
        with self.cv:
            return self.cv.wait_for(self.quiescent, bound)


class _TracedCondition(threading.Condition):
    def __init__(self, lock, mon):
        super().__init__(lock)
        self._mon = mon

    def wait(self, timeout=None):
        self._mon.enter_wait()
        try:
            return super().wait(timeout)
        finally:
            self._mon.leave_wait()

    def notify(self, n=1):
        self._mon.notified(n)
        super().notify(n)


def run_schedule(cfg, nw, blocks, mode="long", trace=False):
    """cfg: one of TCONFIGS; nw: number of waiter threads; blocks: tuple of tuples over BLOCK_OPS, each executed by the main thread
    atomically (queue mutex held); mode 'long' (waiters must all be served by the final returns) | 'short' (one waiter with a short
    timeout, nothing is returned after the blocks until it has finished).
    -> dict(failure | None, na, inconclusive, rewaits, served, steps)"""
    from sqlalchemy import pool as sapool, exc as sa_exc
    L = F.Ledger()
    timeout = T_LONG if mode == "long" else T_SHORT
    ps, mo = cfg["pool_size"], cfg["max_overflow"]
    cap = ps + mo
    p = F.make_pool(L, sapool.QueuePool, pool_size=ps, max_overflow=mo, timeout=timeout, use_lifo=bool(cfg.get("lifo")))
    q = p._pool
    mon = _Monitor()
    q.not_empty = _TracedCondition(q.mutex, mon)
    held = []                       # fairies of the main thread
    results = {}                    # waiter index -> dict(outcome, fairy, t0, elapsed, timeout_error, msg)
    closed_served = set()
    threads = []
    steps = []
    out = dict(failure=None, na=False, inconclusive=None, rewaits=0, served=0, steps=steps)

    def fail(clause, detail, at):
        raise H.Fail(clause, f"{at}: {detail}")

    def live_fairies():
        return held + [results[i]["fairy"] for i in sorted(results) if results[i]["outcome"] == "served" and i not in closed_served]

    def check_state(at):
        # only called at quiescence: no thread is inside pool code
        live = live_fairies()
        for f in live:
            dc = f.dbapi_connection
            if dc is None or dc.closed:
                fail("P5-handed-out-closed", f"a live checkout holds {dc!r}", at)
        if len({id(f.dbapi_connection) for f in live}) != len(live):
            fail("P4-two-holders", repr([f.dbapi_connection for f in live]), at)
        if len(L.open) > cap:
            fail("P1-limit", f"{len(L.open)} open DBAPI connections > pool_size+max_overflow={cap}", at)
        idle = F.idle_connections(p)
        if len(q.queue) > ps:
            fail("P2-idle", f"{len(q.queue)} idle > pool_size={ps}", at)
        if any(c.closed for c in idle):
            fail("P6-idle-closed", repr(idle), at)
        if p.checkedout() != len(live):
            fail("P3-checkedout-count", f"checkedout()={p.checkedout()} live checkouts={len(live)}", at)
        for i, r in results.items():
            # W1: giving up is allowed only once the time-out has elapsed
            if r["outcome"] != "served" and not (r["timeout_error"] and r["elapsed"] >= timeout - EPS):
                if r["timeout_error"]:
                    fail("W1-gave-up-before-its-timeout", f"waiter {i} raised TimeoutError after {r['elapsed']:.2f}s, its timeout is "
                         f"{timeout:.2f}s ({r['msg']})", at)
                fail("P8-spurious-checkout-failure", f"waiter {i}: {r['outcome']}: {r['msg']}", at)

    def waiter(i):
        mon.by_ident[threading.get_ident()] = i
        t0, w0 = time.monotonic(), time.time()
        r = dict(outcome="served", fairy=None, timeout_error=False, msg="")
        try:
            r["fairy"] = p.connect()
        except BaseException as ex:  # noqa — classified, not kept
            r.update(outcome=type(ex).__name__, timeout_error=isinstance(ex, sa_exc.TimeoutError), msg=str(ex)[:110])
        r["elapsed"] = max(time.monotonic() - t0, time.time() - w0)
        r["t0"] = t0
        results[i] = r
        mon.done(i)

    def quiesce(at):
        if not mon.wait_quiescent(QUIESCE_BOUND):
            raise TimeoutError(f"{at}: no quiescence within {QUIESCE_BOUND}s: {dict(mon.state)}")

    def record(step, **kw):
        if trace:
            steps.append(dict(step=step, waiters={str(k): v for k, v in mon.state.items()}, rewaits=mon.rewaits,
                              outcomes={str(i): (r["outcome"], round(r["elapsed"], 2)) for i, r in results.items()},
                              idle=repr(F.idle_connections(p)), checkedout=p.checkedout(), main_holds=len(held), **kw))

    def close_one():
        """return one connection: main's first, else the one of a served waiter -> False when there is nothing left"""
        if held:
            held.pop(0).close()
            return True
        for i in sorted(results):
            if results[i]["outcome"] == "served" and i not in closed_served:
                closed_served.add(i)
                results[i]["fairy"].close()
                return True
        return False

    try:
        try:
            # ---- phase 0: exhaust the pool; phase 1: the waiters block one after the other
            for _ in range(cap):
                held.append(p.connect())
            for i in range(nw):
                mon.state[i] = "new"
                th = threading.Thread(target=waiter, args=(i,), daemon=True, name=f"C25-waiter-{i}")
                threads.append(th)
                th.start()
                quiesce(f"waiter {i} started")
                if mon.state[i] != "waiting":
                    fail("W0-did-not-wait", f"waiter {i} on an exhausted pool did not block: {results.get(i)}", f"waiter {i} started")
            check_state("all waiters blocked")
            record("waiters-blocked")
            # ---- phase 2: atomic blocks
            for bi, block in enumerate(blocks):
                if not q.mutex.acquire(timeout=QUIESCE_BOUND):
                    raise TimeoutError(f"block {bi}: queue mutex not available within {QUIESCE_BOUND}s")
                try:
                    for op in block:
                        if op == "co":
                            if not (len(q.queue) > 0 or p._overflow < p._max_overflow):
                                out["na"] = True        # the main thread itself would block: not a schedule of this family
                                break
                            held.append(p.connect())
                        elif not held:
                            out["na"] = True
                            break
                        elif op == "ret":
                            held.pop(0).close()
                        else:
                            held.pop(0).invalidate()
                finally:
                    q.mutex.release()
                if out["na"]:
                    break
                if mode == "long":
                    quiesce(f"after block {bi} {list(block)}")
                    check_state(f"after block {bi} {list(block)}")
                record(f"block {bi} {list(block)}")
            # ---- phase 3
            if mode == "short":
                for i, th in enumerate(threads):
                    th.join(T_SHORT + QUIESCE_BOUND)
                    if th.is_alive():
                        raise TimeoutError(f"waiter {i} (timeout {T_SHORT}s) still running after {T_SHORT + QUIESCE_BOUND}s")
                if not out["na"]:
                    check_state("short-timeout waiter finished")
                record("waiter-finished")
            # every connection is returned, one at a time, quiescence after each: every waiter can be served
            while True:
                quiesce("final returns")
                if not out["na"]:
                    check_state("final returns")
                if all(v == "done" for v in mon.state.values()) or not close_one():
                    break
            t_returned = time.monotonic()
            for i, th in enumerate(threads):
                if mon.state[i] != "done" and not out["na"]:
                    # everything is back in the pool and this waiter is still blocked: it has until its deadline
                    th.join(timeout + QUIESCE_BOUND)
                else:
                    th.join(QUIESCE_BOUND)
                if th.is_alive():
                    raise TimeoutError(f"waiter {i} still running at the end")
            record("all-returned")
            if mode == "long" and not out["na"]:
                for i in range(nw):
                    r = results[i]
                    if r["outcome"] != "served":
                        if t_returned > r["t0"] + timeout - DEADLINE_MARGIN:
                            out["inconclusive"] = f"the schedule took {t_returned - r['t0']:.1f}s (machine too slow), no verdict for waiter {i}"
                            continue
                        fail("W2-not-served-by-a-connection-returned-before-its-timeout",
                             f"waiter {i} (timeout {timeout:.0f}s) ended with {r['outcome']} after {r['elapsed']:.2f}s although every "
                             f"connection was returned to the pool {t_returned - r['t0']:.2f}s after it started waiting", "end")
                check_state("end")
            out["served"] = sum(1 for r in results.values() if r["outcome"] == "served")
            out["rewaits"] = mon.rewaits
            # ---- release everything; R1 / R2 / R4
            while close_one():
                pass
            if not out["na"] and out["inconclusive"] is None:
                if p.checkedout() != 0:
                    fail("R1-checkedout-after-release", f"checkedout()={p.checkedout()} with no holder", "release-all")
                idle = F.idle_connections(p)
                leaked = [c for c in L.open if not any(c is d for d in idle)]
                if leaked:
                    fail("R2-open-connection-not-in-pool", f"open {L.open!r}, idle {idle!r}", "release-all")
                # R4: the pool hands out pool_size + max_overflow connections again without waiting
                p._timeout = 0
                for j in range(cap):
                    try:
                        held.append(p.connect())
                    except BaseException as ex:  # noqa
                        fail("R4-slot-leaked", f"refill checkout {j + 1} of {cap}: {type(ex).__name__}: {str(ex)[:100]}", "refill")
                check_state("refill")
        except H.Fail as fl:
            out["failure"] = dict(clause=fl.clause, detail=fl.detail)
            out["rewaits"] = mon.rewaits
            record("FAILED", clause=fl.clause)
        except TimeoutError as te:      # the harness's own bounded waits (builtin TimeoutError, not sqlalchemy's)
            out["inconclusive"] = str(te)
            record("INCONCLUSIVE", why=str(te))
    finally:
        # never leave a thread blocked for longer than its pool timeout: give everything back, bounded joins, daemon threads
        try:
            while close_one():
                pass
            while held:
                held.pop().close()
        except BaseException:  # noqa
            pass
        for th in threads:
            th.join(0.5 if out["failure"] or out["inconclusive"] else QUIESCE_BOUND)
        for r in results.values():
            try:
                if r.get("fairy") is not None:
                    r["fairy"].close()
            except BaseException:  # noqa
                pass
        try:
            p.dispose()
        except BaseException:  # noqa
            pass
    return out


def all_blocks(maxops):
    out = []

    def rec(prefix):
        if prefix:
            out.append(prefix)
        if len(prefix) < maxops:
            for op in BLOCK_OPS:
                rec(prefix + (op,))
    rec(())
    return out


def schedules(tier):
    """(config, number of waiters, blocks, mode), enumerated once each"""
    one = all_blocks(3)
    two = all_blocks(2) if tier == "quick" else all_blocks(3)
    seqs = [(b,) for b in one] + [(a, b) for a in two for b in two]
    out = []
    for cfg in TCONFIGS:
        for nw in (1, 2):
            for blocks in seqs:
                out.append((cfg, nw, blocks, "long"))
        for b in [()] + [(b,) for b in all_blocks(2)]:
            out.append((cfg, 1, b, "short"))
    return out


def sched_desc(cfg, nw, blocks, mode):
    return dict(config=cfg["name"], waiters=nw, blocks=[list(b) for b in blocks], mode=mode,
                pool_timeout=T_LONG if mode == "long" else T_SHORT)


def tworker(shard, nshards, tier):
    F.quiet()
    out = dict(runs=0, evaluated=0, na=0, stolen=0, rewaits=0, served=0, short=0, failures=[], inconclusive=[], samples=[])
    nfail = 0
    for idx, (cfg, nw, blocks, mode) in enumerate(schedules(tier)):
        if idx % nshards != shard:
            continue
        if nfail >= 3:          # a defect in the wait loop costs up to one pool timeout per failing schedule: bounded
            break
        out["runs"] += 1
        r = run_schedule(cfg, nw, blocks, mode)
        if r["inconclusive"] and not r["failure"]:
            r = run_schedule(cfg, nw, blocks, mode)          # once more (a stalled machine)
        if r["failure"]:
            nfail += 1
            out["failures"].append(dict(sched_desc(cfg, nw, blocks, mode), **r["failure"]))
            continue
        if r["inconclusive"]:
            out["inconclusive"].append(dict(sched_desc(cfg, nw, blocks, mode), why=r["inconclusive"]))
            continue
        if r["na"]:
            out["na"] += 1
            continue
        out["evaluated"] += 1
        out["short"] += 1 if mode == "short" else 0
        out["served"] += r["served"]
        out["rewaits"] += r["rewaits"]
        if r["rewaits"]:
            out["stolen"] += 1
            if not out["samples"] and nw == 2:
                out["samples"].append(dict(sched_desc(cfg, nw, blocks, mode), waiters_served=r["served"], stolen_wakeups=r["rewaits"]))
    return out


def report_threads(run, failures):
    seen = {}
    for d in sorted(failures, key=lambda d: (len(d["blocks"]), sum(map(len, d["blocks"])), d["waiters"], d["config"], d["blocks"], d["mode"])):
        desc = dict(config=d["config"], waiters=d["waiters"], blocks=d["blocks"], mode=d["mode"], pool_timeout=d["pool_timeout"],
                    clause=d["clause"])
        dj = json.dumps(desc, sort_keys=True)
        k = run.match_known(function=TFUNCTION, input=dj)
        if k is not None:
            run.known_finding(k, "deterministic real-thread schedules on the real QueuePool")
            continue
        sig = (d["clause"], d["mode"])
        seen[sig] = seen.get(sig, 0) + 1
        if seen[sig] > 1 or len(seen) > 8:
            continue
        run.violation(f"C25-threads-{d['clause'][:40]}-{zlib.crc32(dj.encode()) % 10**8}",
                      dict(function=TFUNCTION, bounded_module="checks.C25_bounded", input=desc,
                           expected="contract clause " + d["clause"] + " (checks/C25_bounded.py, THREAD SCHEDULES)", actual=d["detail"],
                           reason="bounded run-time contract check (C25_bounded)"))
    if seen:
        run.coverage.setdefault("bounded_violation_classes", {}).update({" | ".join(k): v for k, v in seen.items()})


def tcfg_by_name(name):
    return next(c for c in TCONFIGS if c["name"] == name)


def bounded_threads(run, tier):
    procs = default_procs(tier)
    res = shard_map(tworker, procs, procs, tier)
    tot = dict(runs=0, evaluated=0, na=0, stolen=0, rewaits=0, served=0, short=0)
    failures, samples, inconclusive = [], [], []
    for r in res:
        if r is None or "crash" in r:
            run.crashes.append("C25 bounded (threads): " + (r or {}).get("crash", "shard returned nothing"))
            continue
        for k in tot:
            tot[k] += r[k]
        failures += r["failures"]
        samples += r["samples"]
        inconclusive += r["inconclusive"]
    cfg = tcfg_by_name("queue(1,0)")
    tr = run_schedule(cfg, 1, (("ret", "co"),), "long", trace=True)
    samples = samples[:1] + [dict(sched_desc(cfg, 1, (("ret", "co"),), "long"), trace=tr["steps"], failure=tr["failure"])]
    nsched = len(schedules(tier))
    blk = dict(
        label="bounded (not proof)", property="C25",
        scope=f"REAL THREADS, deterministic schedules (not all interleavings): QueuePool(pool_size, max_overflow) in "
              f"{[c['name'] for c in TCONFIGS]} with a pool timeout of {T_LONG:.0f}s; the pool is exhausted by the main thread, 1 or 2 "
              f"waiter threads block in a timed checkout (each observed inside Condition.wait), then "
              f"{'one block of <= 3 operations or two blocks of <= 2 operations' if tier == 'quick' else 'one or two blocks of <= 3 operations'} "
              f"over {BLOCK_OPS} (return / checkout / hard invalidate by the main thread, each block atomic w.r.t. the waiters = "
              f"queue mutex held: wake-ups delivered inside a block may be stolen inside it), quiescence and all clauses after each "
              f"block, then every connection is returned one at a time; plus per configuration {1 + len(all_blocks(2))} schedules with one "
              f"waiter whose timeout is {T_SHORT}s and no return after the block (it may time out, never early)",
        evaluations=tot["evaluated"], distinct_nontrivial=tot["stolen"],
        rule="(configuration, #waiters, block sequence, mode) tuples enumerated once each; a schedule in which the main thread would "
             "itself block (checkout from an empty exhausted pool) or has nothing to return is pruned at run time; counted in "
             "distinct_nontrivial when, according to the instrumented condition object, at least one waiter was notified, found the "
             "queue empty again and went back to waiting (stolen wake-up)",
        samples=samples, exhaustive=True, schedules=nsched, pruned_not_applicable=tot["na"], stolen_wakeups=tot["rewaits"],
        waiters_served=tot["served"], short_timeout_schedules=tot["short"], inconclusive=len(inconclusive))
    run.coverage.setdefault("bounded", []).append(blk)
    if tot["stolen"] < 2 and not failures:
        run.crashes.append("C25 bounded (threads): vacuity guard: no schedule produced a stolen wake-up")
    for inc in inconclusive[:5]:
        run.undecided.append("C25 bounded (threads): no verdict (bounded wait expired twice): " + json.dumps(inc, sort_keys=True))
    report_threads(run, failures)


def cfg_by_name(name):
    return next(c for c in CONFIGS if c["name"] == name)


def bounded(run, tier, seed):
    F.quiet()
    maxlen = 5 if tier == "quick" else 6
    procs = default_procs(tier)
    res = shard_map(worker, procs, procs, maxlen)
    tot = dict(runs=0, evaluated=0, na=0, nontrivial=0, at_limit=0, creator_failures=0)
    failures, samples = [], []
    for r in res:
        if r is None or "crash" in r:
            run.crashes.append("C25 bounded: " + (r or {}).get("crash", "shard returned nothing"))
            continue
        for k in tot:
            tot[k] += r[k]
        failures += r["failures"]
        samples += r["samples"]
    tr = H.run_history(cfg_by_name("queue(1,1)"), ("co", "co", "co", "inv0", "cof", "co"), trace=True)
    samples = samples[:2] + [dict(config="queue(1,1)", ops=["co", "co", "co", "inv0", "cof", "co"], trace=tr["steps"], failure=tr["failure"])]
    blk = dict(
        label="bounded (not proof)", property="C25",
        scope=f"part 1, SEQUENTIAL (single-threaded) histories — thread schedules are in the second block: every history of length <= "
              f"{maxlen} over {OPS} on QueuePool(pool_size in 0..2, max_overflow in -1..2) FIFO plus two LIFO configurations "
              f"({len(CONFIGS)} configurations), timeout=0; every step judged",
        evaluations=tot["evaluated"], distinct_nontrivial=tot["nontrivial"],
        rule="histories are enumerated depth-first (an operation on a holder index that cannot exist yet is cut, statically or at "
             "run time); every (configuration, history) pair is distinct; it is non-trivial (counted) when, according to the "
             "ledger, a creator failure fired, a checkout was refused at the limit, or the pool closed a connection "
             "(overflow return / invalidation)",
        samples=samples, exhaustive=True, pruned_no_target=tot["na"], histories_reaching_the_limit=tot["at_limit"],
        histories_with_creator_failure=tot["creator_failures"])
    run.coverage.setdefault("bounded", []).append(blk)
    if tot["nontrivial"] < 2:
        run.crashes.append("C25 bounded: vacuity guard: no history reached a limit / fault")
    _report(run, [dict(f) for f in failures], "C25")
    bounded_threads(run, tier)


def replay(data):
    F.quiet()
    inp = data["input"]
    if "blocks" in inp:
        r = run_schedule(tcfg_by_name(inp["config"]), inp["waiters"], tuple(tuple(b) for b in inp["blocks"]), inp["mode"], trace=True)
        if r["inconclusive"] and not r["failure"]:
            print(f"REPLAY-INCONCLUSIVE {TFUNCTION} input={json.dumps(inp, sort_keys=True)} {r['inconclusive']}")
            return 2
        if r["failure"]:
            print(f"REPLAY-FAILS {TFUNCTION} input={json.dumps(inp, sort_keys=True)} clause={r['failure']['clause']} {r['failure']['detail']}")
            for s in r["steps"]:
                print("   ", json.dumps(s, default=repr))
            return 1
        print(f"REPLAY-PASSES {TFUNCTION} input={json.dumps(inp, sort_keys=True)} stolen_wakeups={r['rewaits']} served={r['served']}")
        return 0
    r = H.run_history(cfg_by_name(inp["config"]), tuple(inp["ops"]), trace=True)
    if r["failure"]:
        print(f"REPLAY-FAILS {FUNCTION} input={json.dumps(inp, sort_keys=True)} clause={r['failure']['clause']} {r['failure']['detail']}")
        for s in r["steps"]:
            print("   ", json.dumps(s, default=repr))
        return 1
    print(f"REPLAY-PASSES {FUNCTION} input={json.dumps(inp, sort_keys=True)}")
    return 0
