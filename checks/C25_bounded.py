"""C25 — bounded complement (run-time contracts over the fake DBAPI, NOT proof): the QueuePool never hands one connection
to two holders and respects its limits.  SEQUENTIAL histories only: one thread, no schedules, no time-outs / wake-ups —
the property's quantifier over thread interleavings is NOT explored here.

``bounded(run, tier, seed)`` drives the REAL ``QueuePool(pool_size ∈ 0..2, max_overflow ∈ -1..2, FIFO and LIFO)`` through every
history of {checkout, checkout with failing creator, return (holder 0/1/2), hard invalidate, soft invalidate, pool-wide
``_invalidate``, drop reference + gc, use} and evaluates after EVERY step (clauses in rtc/poolhist.py):

  P1  max_overflow > -1 ∧ pool_size > 0 ⇒ #DBAPI connections open (ghost ledger) <= pool_size + max_overflow
  P2  pool_size > 0 ⇒ #idle <= pool_size
  P3  ``checkedout()`` == number of live holders (the ghost releases a holder on close / hard invalidate /
      ``Pool._invalidate(fairy)`` / dropped reference; a soft invalidation and a failed checkout do not change it)
  P4  no DBAPI connection is referenced by two live fairies
  P5/P6/P7  a handed-out connection is open, not invalidated, not older than a pool-wide invalidation of its generation; no idle
      connection is closed; no call reaches a closed connection
  P8  a checkout fails only because the creator failed or the limit is reached (then with ``TimeoutError``)
and after all holders released: R1 ``checkedout() == 0``, R2 every open connection is idle in the pool, R4 the pool hands out
``pool_size + max_overflow`` connections again (no slot leaked by a creator failure or an invalidation).

It appends exactly one block to ``run.coverage["bounded"]`` and reports failures through ``run``.
"""
import json

from rtc import fakedbapi as F
from rtc import poolhist as H
from rtc.shard import default_procs, shard_map
from checks.C26_bounded import report as _report

FUNCTION = "sqlalchemy.pool.impl.QueuePool._do_get/_do_return_conn/_inc_overflow/_dec_overflow/checkedout"
OPS = ["co", "cof", "ci0", "ci1", "ci2", "inv0", "soft0", "poolinv0", "gc0", "use0"]
CONFIGS = [dict(name=f"queue({ps},{mo}){'+lifo' if lifo else ''}", pool="queue", pool_size=ps, max_overflow=mo, lifo=lifo)
           for ps in (0, 1, 2) for mo in (-1, 0, 1, 2) for lifo in (False,)] + \
          [dict(name="queue(2,1)+lifo", pool="queue", pool_size=2, max_overflow=1, lifo=True),
           dict(name="queue(1,1)+lifo", pool="queue", pool_size=1, max_overflow=1, lifo=True)]


def histories(maxlen):
    def ok(prefix, op):
        if op in ("co", "cof"):
            return True
        made = sum(1 for o in prefix if o in ("co", "cof"))
        released = sum(1 for o in prefix if o[:2] in ("ci", "in", "gc", "po"))
        return made - released > int(op[-1])

    def rec(prefix):
        if prefix:
            yield prefix
        if len(prefix) == maxlen:
            return
        for op in OPS:
            if ok(prefix, op):
                yield from rec(prefix + (op,))
    yield from rec(())


def abstract(trace_steps):
    return "|".join(f"{s['op']}:{s.get('raised') or '-'}:{s.get('checkedout')}" for s in trace_steps)


def worker(shard, nshards, maxlen):
    F.quiet()
    out = dict(runs=0, evaluated=0, na=0, failures=[], nontrivial=0, at_limit=0, creator_failures=0, samples=[])
    idx = 0
    for ops in histories(maxlen):
        for cfg in CONFIGS:
            idx += 1
            if idx % nshards != shard:
                continue
            out["runs"] += 1
            r = H.run_history(cfg, ops, trace=False)
            if r["na"]:
                out["na"] += 1
                continue
            out["evaluated"] += 1
            # non-trivial: the history reached the limit (a checkout was refused) or a creator failure fired or a connection
            # was closed by the pool (overflow return / invalidation): read from the ledger
            nt = bool(r["fired"]) or r.get("closed", 0) > 0 or r.get("refused", 0) > 0
            if nt:
                out["nontrivial"] += 1
            out["creator_failures"] += 1 if r["fired"] else 0
            out["at_limit"] += 1 if r.get("refused", 0) else 0
            if r["failure"]:
                out["failures"].append(dict(config=cfg["name"], ops=list(ops), faults=[], **r["failure"]))
            elif len(out["samples"]) < 1 and len(ops) == maxlen and r["fired"] and r.get("refused"):
                out["samples"].append(dict(config=cfg["name"], ops=list(ops), creator_failures=len(r["fired"]), refused_checkouts=r["refused"]))
    return out


def cfg_by_name(name):
    return next(c for c in CONFIGS if c["name"] == name)


def bounded(run, tier, seed):
    F.quiet()
    maxlen = 5 if tier == "quick" else 6
    procs = default_procs(tier)
    res = shard_map(worker, procs, procs, maxlen)
    tot = dict(runs=0, evaluated=0, na=0, nontrivial=0, at_limit=0, creator_failures=0)
    failures, samples = [], []
    for r in res:
        if r is None or "crash" in r:
            run.crashes.append("C25 bounded: " + (r or {}).get("crash", "shard returned nothing"))
            continue
        for k in tot:
            tot[k] += r[k]
        failures += r["failures"]
        samples += r["samples"]
    tr = H.run_history(cfg_by_name("queue(1,1)"), ("co", "co", "co", "inv0", "cof", "co"), trace=True)
    samples = samples[:2] + [dict(config="queue(1,1)", ops=["co", "co", "co", "inv0", "cof", "co"], trace=tr["steps"], failure=tr["failure"])]
    blk = dict(
        label="bounded (not proof)", property="C25",
        scope=f"SEQUENTIAL (single-threaded) histories only — thread schedules are not explored: every history of length <= "
              f"{maxlen} over {OPS} on QueuePool(pool_size in 0..2, max_overflow in -1..2) FIFO plus two LIFO configurations "
              f"({len(CONFIGS)} configurations), timeout=0; every step judged",
        evaluations=tot["evaluated"], distinct_nontrivial=tot["nontrivial"],
        rule="histories are enumerated depth-first (an operation on a holder index that cannot exist yet is cut, statically or at "
             "run time); every (configuration, history) pair is distinct; it is non-trivial (counted) when, according to the "
             "ledger, a creator failure fired, a checkout was refused at the limit, or the pool closed a connection "
             "(overflow return / invalidation)",
        samples=samples, exhaustive=True, pruned_no_target=tot["na"], histories_reaching_the_limit=tot["at_limit"],
        histories_with_creator_failure=tot["creator_failures"])
    run.coverage.setdefault("bounded", []).append(blk)
    if tot["nontrivial"] < 2:
        run.crashes.append("C25 bounded: vacuity guard: no history reached a limit / fault")
    _report(run, [dict(f) for f in failures], "C25")


def replay(data):
    F.quiet()
    inp = data["input"]
    r = H.run_history(cfg_by_name(inp["config"]), tuple(inp["ops"]), trace=True)
    if r["failure"]:
        print(f"REPLAY-FAILS {FUNCTION} input={json.dumps(inp, sort_keys=True)} clause={r['failure']['clause']} {r['failure']['detail']}")
        for s in r["steps"]:
            print("   ", json.dumps(s, default=repr))
        return 1
    print(f"REPLAY-PASSES {FUNCTION} input={json.dumps(inp, sort_keys=True)}")
    return 0
