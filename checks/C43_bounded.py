"""C43 bounded complement — ORM-enabled UPDATE / DELETE with synchronize_session keep in-session objects equal to the table.

Driven (real, tree under test): `Session.execute(update(A) | delete(A) ... , synchronize_session='evaluate' | 'fetch' | 'auto')`
-> `_BulkUDCompileState._do_pre_synchronize_evaluate / _do_post_synchronize_evaluate / ..._fetch` -> `_EvaluatorCompiler`;
one Session holding all 80 rows of a table (x, y in {NULL, -7, 0, 3}; s in {NULL, '', 'a%', 'ab', 'A_'}), SQLite :memory:
with `PRAGMA case_sensitive_like=ON` (SQLite's LIKE is otherwise case-insensitive, DESIGN §2.9).

Contract (the property, per statement and per row r; "the database now implies" is read back from SQLite itself):
  U  UPDATE ... WHERE crit SET z = <fresh marker k>:   (in-session object of r has z == k)  <=>  (row r has z == k in the table)
  D  DELETE ... WHERE crit:                             (object of r is still in the session)  <=>  (row r is still in the table)
  V  UPDATE (all rows) SET w = <expression>:            in-session w of r == table w of r
  R  with 'evaluate' the statement may instead be REFUSED (InvalidRequestError "Could not evaluate current criteria in Python");
     any other exception is a failure.  'fetch' must always be in sync.
Levels.  Every atomic criterion is judged by itself in both polarities (crit and NOT crit) with all three strategies and with
DELETE.  A composition (AND / OR / NOT trees) is judged on row r only if none of its leaves fails on r by itself — the composition
contract assumes faithful sub-evaluators, exactly like the proved three-valued contracts; such (statement, row) pairs are counted
in `skipped_leaf_already_diverges` and the leaf failure is reported at its own level.
"""
import itertools
import json
import time

from rtc import ormharness as H

FN = "orm/bulk_persistence.py::synchronize_session"
_M = None
_W = {}
XS = [None, -7, 0, 3]
SS = [None, "", "a%", "ab", "A_"]


def mappings():
    global _M
    if _M is None:
        import types
        from sqlalchemy import Column, Float, Integer, String
        from sqlalchemy.orm import declarative_base
        Base = declarative_base()

        class A(Base):
            __tablename__ = "ev_a"
            id = Column(Integer, primary_key=True)
            x = Column(Integer)
            y = Column(Integer)
            s = Column(String)
            z = Column(Integer)
            w = Column(Float)
            t = Column(String)
        _M = types.SimpleNamespace(Base=Base, A=A)
    return _M


def atoms():
    """name -> criterion on the mapped class (names are what replay files and known-finding patterns carry)"""
    from sqlalchemy import null, or_
    A = mappings().A
    return {
        "x>1": A.x > 1, "x==y": A.x == A.y, "x!=y": A.x != A.y, "x<=y": A.x <= A.y, "x is None": A.x.is_(None), "x is not None": A.x.is_not(None),
        "x in (1,3)": A.x.in_([1, 3]), "y>1": A.y > 1, "x in (3,NULL)": A.x.in_([3, None]), "x not in (3,NULL)": A.x.not_in([3, None]),
        "x not in (0,3)": A.x.not_in([0, 3]), "x in ()": A.x.in_([]), "x not in ()": A.x.not_in([]), "x+y>0": A.x + A.y > 0, "x*y==0": A.x * A.y == 0,
        "x-y<0": A.x - A.y < 0, "x%3==0": A.x % 3 == 0, "x%3==2": A.x % 3 == 2, "x/3==1": A.x / 3 == 1, "x/y==1": A.x / A.y == 1, "x/2>1": A.x / 2 > 1,
        "s=='ab'": A.s == "ab", "s.startswith('a')": A.s.startswith("a"), "s.startswith('a%')": A.s.startswith("a%"),
        "s.startswith('a%',auto)": A.s.startswith("a%", autoescape=True), "s.endswith('b')": A.s.endswith("b"), "s.endswith('_')": A.s.endswith("_"),
        "s+'x'=='abx'": A.s + "x" == "abx", "s.contains('b')": A.s.contains("b"), "s.like('a%')": A.s.like("a%"), "s.ilike('a_')": A.s.ilike("a_"),
        "x.between(0,3)": A.x.between(0, 3), "(x>1) is true": (A.x > 1).is_(True), "x is distinct from y": A.x.is_distinct_from(A.y), "-x>0": -A.x > 0,
        "x==None": A.x == None, "x!=None": A.x != None, "x>y or NULL==1": or_(A.x > A.y, null() == 1),  # noqa: E711
    }


CORE = ["x>1", "x==y", "x is None", "y>1", "x in (1,3)", "x<=y", "x!=y", "s=='ab'", "x+y>0", "x not in (0,3)", "x is not None", "x*y==0", "x-y<0", "x/2>1"]
SETS = {"x+y": lambda A: A.x + A.y, "x*2": lambda A: A.x * 2, "x-y": lambda A: A.x - A.y, "x%3": lambda A: A.x % 3, "x/2": lambda A: A.x / 2,
        "x/y": lambda A: A.x / A.y, "y": lambda A: A.y, "7": lambda A: 7, "-x": lambda A: -A.x}
SHAPES = ["and", "or", "not-and", "not-or", "and3", "or3", "not-and3", "not-or3", "and(a,or(b,c))", "or(a,and(b,c))", "not(and(a,not b))"]


def tree_for(shape, names):
    a = list(names)
    if shape in ("and", "or"):
        return [shape, a[0], a[1]]
    if shape in ("not-and", "not-or"):
        return ["not", [shape[4:], a[0], a[1]]]
    if shape in ("and3", "or3"):
        return [shape[:-1], a[0], a[1], a[2]]
    if shape in ("not-and3", "not-or3"):
        return ["not", [shape[4:-1], a[0], a[1], a[2]]]
    if shape == "and(a,or(b,c))":
        return ["and", a[0], ["or", a[1], a[2]]]
    if shape == "or(a,and(b,c))":
        return ["or", a[0], ["and", a[1], a[2]]]
    if shape == "not(and(a,not b))":
        return ["not", ["and", a[0], ["not", a[1]]]]
    raise KeyError(shape)


def arity(shape):
    return 2 if shape in ("and", "or", "not-and", "not-or", "not(and(a,not b))") else 3


def build(tree, at):
    from sqlalchemy import and_, not_, or_
    if isinstance(tree, str):
        return at[tree]
    op, args = tree[0], [build(t, at) for t in tree[1:]]
    return {"and": and_, "or": or_}[op](*args) if op != "not" else not_(args[0])


def leaves(tree):
    if isinstance(tree, str):
        return [tree]
    return [x for t in tree[1:] for x in leaves(t)]


def sql3(tree, leaf_vals):
    """SQL's three-valued value of a tree given its leaves' values (None = NULL) — the standard truth tables"""
    if isinstance(tree, str):
        return leaf_vals[tree]
    vals = [sql3(t, leaf_vals) for t in tree[1:]]
    if tree[0] == "not":
        return None if vals[0] is None else (not vals[0])
    if tree[0] == "and":
        return False if any(v is False for v in vals) else (None if any(v is None for v in vals) else True)
    return True if any(v is True for v in vals) else (None if any(v is None for v in vals) else False)


def top_info(tree, leaf_vals):
    if isinstance(tree, str):
        return dict(op="atom", operands_sql=[leaf_vals[tree]])
    if tree[0] == "not" and not isinstance(tree[1], str) and tree[1][0] in ("and", "or"):
        return dict(op="not-" + tree[1][0], operands_sql=[sql3(t, leaf_vals) for t in tree[1][1:]])
    return dict(op=tree[0], operands_sql=[sql3(t, leaf_vals) for t in tree[1:]])


# ----------------------------------------------------------------------------------------------- world (one per process)
class World:
    def __init__(self):
        from sqlalchemy import create_engine, event, select
        from sqlalchemy.orm import Session
        m = mappings()
        self.A = m.A
        self.e = create_engine("sqlite://")

        @event.listens_for(self.e, "connect")
        def _pragma(dbapi_con, rec):
            dbapi_con.execute("PRAGMA case_sensitive_like=ON")
        m.Base.metadata.create_all(self.e)
        self.rows = {}
        with self.e.begin() as c:
            i = 0
            for x in XS:
                for y in XS:
                    for sv in SS:
                        i += 1
                        self.rows[i] = dict(x=x, y=y, s=sv)
                        c.execute(m.A.__table__.insert().values(id=i, x=x, y=y, s=sv, z=0))
        self.s = Session(self.e, expire_on_commit=False, autoflush=False)
        self.select = select
        self.k = 0
        self.at = atoms()
        self.load()
        # SQL's own three-valued value of every atom on every row
        self.leaf_sql = {}
        for name, crit in self.at.items():
            for rid, v in self.s.execute(select(self.A.id, crit)):
                self.leaf_sql[(name, rid)] = None if v is None else bool(v)
        self.leaf_bad = None

    def load(self):
        self.objs = self.s.scalars(self.select(self.A).order_by(self.A.id)).all()

    def reset(self):
        self.s.rollback()
        self.load()

    def update(self, crit, strategy):
        """-> (status, session_ids, db_ids)   status: ok / refused / raised:<Name>"""
        from sqlalchemy import update
        from sqlalchemy.exc import InvalidRequestError
        A = self.A
        self.k += 1
        k = self.k
        try:
            self.s.execute(update(A).where(crit).values(z=k), execution_options={"synchronize_session": strategy})
        except InvalidRequestError as ex:
            if "Could not evaluate current criteria in Python" in str(ex):
                return "refused", None, None
            self.reset()
            return "raised:InvalidRequestError", None, None
        except Exception as ex:
            self.reset()
            return "raised:" + type(ex).__name__, None, None
        db = set(self.s.scalars(self.select(A.id).where(A.z == k)))
        sess = {o.id for o in self.objs if o.z == k}
        return "ok", sess, db

    def delete(self, crit, strategy):
        from sqlalchemy import delete
        from sqlalchemy.exc import InvalidRequestError
        A = self.A
        try:
            self.s.execute(delete(A).where(crit), execution_options={"synchronize_session": strategy})
        except InvalidRequestError as ex:
            st = "refused" if "Could not evaluate current criteria in Python" in str(ex) else "raised:InvalidRequestError"
            self.reset()
            return st, None, None
        except Exception as ex:
            self.reset()
            return "raised:" + type(ex).__name__, None, None
        db_left = set(self.s.scalars(self.select(A.id)))
        sess_left = {rid for rid, o in zip(sorted(self.rows), self.objs) if o in self.s}
        self.reset()
        allids = set(self.rows)
        return "ok", allids - sess_left, allids - db_left       # "matched" = removed

    def setexpr(self, name, strategy):
        """-> (status, {rid: session value}, {rid: db value})"""
        from sqlalchemy import update
        from sqlalchemy.exc import InvalidRequestError
        A = self.A
        try:
            self.s.execute(update(A).values(w=SETS[name](A)), execution_options={"synchronize_session": strategy})
        except InvalidRequestError as ex:
            st = "refused" if "Could not evaluate" in str(ex) else "raised:InvalidRequestError"
            self.reset()
            return st, None, None
        except Exception as ex:
            self.reset()
            return "raised:" + type(ex).__name__, None, None
        sess = {o.id: o.w for o in self.objs}
        db = dict(tuple(r) for r in self.s.execute(self.select(A.id, A.w)))
        self.reset()
        return "ok", sess, db

    def atom_table(self):
        """leaf_bad[(atom, rid)] = True when the atom by itself (either polarity, UPDATE + evaluate) fails on that row"""
        if self.leaf_bad is not None:
            return self.leaf_bad
        from sqlalchemy import not_
        bad = {}
        for name, crit in self.at.items():
            for c in (crit, not_(crit)):
                st, sess, db = self.update(c, "evaluate")
                if st == "refused":
                    for rid in self.rows:
                        bad[(name, rid)] = "refused"
                elif st != "ok":
                    for rid in self.rows:
                        bad[(name, rid)] = st
                else:
                    for rid in sess ^ db:
                        bad.setdefault((name, rid), "diverges")
        self.leaf_bad = bad
        return bad


def world():
    if "w" not in _W:
        H.quiet()
        _W["w"] = World()
    return _W["w"]


def desc(stmt, strategy, tree, w, rid, session, db):
    lv = {n: w.leaf_sql[(n, rid)] for n in set(leaves(tree))} if rid is not None else {}
    d = dict(stmt=stmt, strategy=strategy, criterion=tree, row=(w.rows[rid] if rid is not None else None), session=session, db=db)
    if rid is not None:
        d["top"] = top_info(tree, lv)
    return d


def judge_statement(w, stmt, strategy, tree, res, is_atom_level):
    """run one statement, compare per row; appends to res"""
    crit = build(tree, w.at)
    fn = w.update if stmt == "update" else w.delete
    st, sess, db = fn(crit, strategy)
    res["statements"] += 1
    if st == "refused":
        res["refused"] += 1
        if strategy == "fetch":
            res["failures"].append(desc(stmt, strategy, tree, w, None, "refused", None))
        return
    if st != "ok":
        # a composition raises because one of its leaves raises by itself: reported at the leaf's own level
        if not is_atom_level and any(str(w.atom_table().get((n, 1), "")).startswith("raised") for n in leaves(tree)):
            res["skipped_leaf_already_diverges"] += len(w.rows)
        else:
            res["failures"].append(desc(stmt, strategy, tree, w, None, st, None))
        return
    bad = None if is_atom_level else w.atom_table()
    lvs = None if is_atom_level else set(leaves(tree))
    for rid in w.rows:
        if bad is not None and any((n, rid) in bad for n in lvs):
            res["skipped_leaf_already_diverges"] += 1
            continue
        res["evaluations"] += 1
        in_db = rid in db
        if in_db or any(w.leaf_sql[(n, rid)] is None for n in set(leaves(tree))):
            res["nontrivial"].add((json.dumps(tree), rid))
        if (rid in sess) != in_db:
            res["failures"].append(desc(stmt, strategy, tree, w, rid, rid in sess, in_db))


def _new_res():
    return dict(statements=0, evaluations=0, refused=0, skipped_leaf_already_diverges=0, failures=[], samples=[], nontrivial=set())


def _worker(job):
    w = world()
    res = _new_res()
    kind = job["kind"]
    if kind == "atoms":
        names = job["atoms"]
        for name in names:
            for tree in (name, ["not", name]):
                for strategy in ("evaluate", "fetch", "auto"):
                    judge_statement(w, "update", strategy, tree, res, True)
                judge_statement(w, "delete", "evaluate", tree, res, True)
        res["samples"].append(dict(stmt="update", strategy="evaluate", criterion=["not", names[0]], rows_in_session=len(w.rows)))
    elif kind == "set":
        for name in job["sets"]:
            st, sess, db = w.setexpr(name, "evaluate")
            res["statements"] += 1
            if st == "refused":
                res["refused"] += 1
            elif st != "ok":
                res["failures"].append(dict(stmt="update-set", strategy="evaluate", criterion=None, set=name, row=None, session=st, db=None))
            else:
                for rid in w.rows:
                    res["evaluations"] += 1
                    a, b = sess[rid], db[rid]
                    if b is not None:
                        res["nontrivial"].add(("set:" + name, rid))
                    if not (a == b or (a is not None and b is not None and abs(a - b) < 1e-9)):
                        res["failures"].append(dict(stmt="update-set", strategy="evaluate", criterion=None, set=name, row=w.rows[rid], session=a, db=b))
    else:
        shape, first, pool = job["shape"], job["first"], job["pool"]
        for rest in itertools.product(pool, repeat=arity(shape) - 1):
            tree = tree_for(shape, [first] + list(rest))
            judge_statement(w, "update", "evaluate", tree, res, False)
        if job.get("delete"):
            tree = tree_for(shape, [first] + list(pool[:arity(shape) - 1]))
            judge_statement(w, "delete", "evaluate", tree, res, False)
        res["samples"].append(dict(stmt="update", strategy="evaluate", criterion=tree, rows_in_session=len(w.rows)))
    return res


def joblist_for(tier):
    names = list(atoms())
    jobs = [dict(kind="atoms", atoms=names[i:i + 3], length=3) for i in range(0, len(names), 3)]
    jobs.append(dict(kind="set", sets=list(SETS), length=2))
    pool2 = names if tier != "quick" else names[:20]
    pool3 = CORE[:8] if tier == "quick" else CORE
    for shape in SHAPES:
        pool = pool2 if arity(shape) == 2 else pool3
        for first in pool:
            jobs.append(dict(kind="tree", shape=shape, first=first, pool=pool, delete=True, length=arity(shape)))
    return jobs, pool2, pool3


def bounded(run, tier, seed):
    t0 = time.time()
    jobs, pool2, pool3 = joblist_for(tier)
    if seed:
        import random
        random.Random(seed).shuffle(jobs)
    agg = H.Agg()
    for r in H.run_sharded(_worker, jobs):
        agg.add(r)
    failures = agg.get("failures", [])
    seen = set()
    for d in sorted(failures, key=lambda d: json.dumps(d, sort_keys=True, default=repr)):
        dj = json.dumps(d, sort_keys=True, default=repr)
        k = run.match_known(function=FN + "/" + d["stmt"], input=dj)
        if k is not None:
            run.known_finding(k, "bounded end-to-end replay on SQLite")
            continue
        cls = (d["stmt"], json.dumps(d.get("criterion") or d.get("set")))
        if cls in seen or len(seen) >= 8:
            continue
        seen.add(cls)
        run.violation(f"sync-{d['stmt']}-{d['strategy']}-{abs(hash(dj)) % 10**8}",
                      dict(function=FN + "/" + d["stmt"], input=d, expected="in-session state equals the table (or the statement is refused)",
                           actual=dict(session=d["session"], db=d["db"]), reason="bounded run-time contract check (C43_bounded)"))
    blk = dict(
        scope=f"80 rows (x, y in {XS}, s in {SS}) all loaded in one Session, SQLite :memory:, case_sensitive_like=ON; {len(atoms())} atomic criteria, each as crit and NOT crit, "
              f"UPDATE with synchronize_session in (evaluate, fetch, auto) and DELETE with evaluate; {len(SETS)} SET expressions (evaluate); compositions with evaluate: "
              f"AND / OR / NOT(AND) / NOT(OR) / NOT(AND(a, NOT b)) over ALL ordered pairs of {len(pool2)} atoms, and AND3 / OR3 / NOT(AND3) / NOT(OR3) / AND(a, OR(b, c)) / "
              f"OR(a, AND(b, c)) over ALL ordered triples of {len(pool3)} atoms; every (statement, row) pair compared with the table",
        evaluations=agg["evaluations"], distinct_nontrivial=len(agg.get("nontrivial", ())),
        rule="statements are enumerated exhaustively over the stated atom pools; one evaluation = one (statement, row) comparison; distinct_nontrivial = number of distinct "
             "(criterion, row) pairs in which the row was matched in the database or some leaf of the criterion is NULL on that row (three-valued path), counted as a set",
        samples=agg.get("samples", [])[:5], exhaustive=True, label="bounded (not proof)", statements=agg["statements"], refused_by_evaluator=agg["refused"],
        skipped_leaf_already_diverges=agg["skipped_leaf_already_diverges"], contract_failures=len(failures), wall_s=round(time.time() - t0, 1))
    run.coverage.setdefault("bounded", []).append(blk)
    return blk


def replay(data):
    d = data["input"]
    w = world()
    res = _new_res()
    if d["stmt"] == "update-set":
        st, sess, db = w.setexpr(d["set"], d["strategy"])
        if st != "ok":
            bad = [st] if st != "refused" else []
        else:
            bad = [(w.rows[r], sess[r], db[r]) for r in w.rows if not (sess[r] == db[r] or (sess[r] is not None and db[r] is not None and abs(sess[r] - db[r]) < 1e-9))]
            if d.get("row") is not None:
                bad = [b for b in bad if b[0] == d["row"]]
    else:
        judge_statement(w, d["stmt"], d["strategy"], d["criterion"], res, True)
        bad = [f for f in res["failures"] if d.get("row") is None or f["row"] == d["row"]]
    if bad:
        print(f"REPLAY-FAILS {FN}/{d['stmt']} strategy={d['strategy']} criterion={d.get('criterion') or d.get('set')} row={d.get('row')} -> {json.dumps(bad[0], default=repr)[:300]}")
        return 1
    print(f"REPLAY-PASSES {FN}/{d['stmt']} strategy={d['strategy']} criterion={d.get('criterion') or d.get('set')} row={d.get('row')}")
    return 0
