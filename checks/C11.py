"""C11 — row lookup by column expression / label / string returns that expression's value (bounded run-time contract check).

Functions under contract (real code, imported from sqlalchemy): CursorResultMetaData.__init__ (key map and duplicate
handling), _merge_cursor_description, _merge_cols_by_name, _merge_textual_cols_by_position, _merge_cols_by_none,
_index_for_key, _raise_for_ambiguous_column_name, _adapt_to_context (compiled-cache hit), SQLCompiler._add_to_result_map /
_label_select_column (which produce the compiled result map the meta data is built from).

Assumed DBAPI contract (the only external): the cursor returns the columns in SELECT-list order and description[i][0] is
the rendered name of column i.

Ghost state: select-list position i carries the expression object E_i and the row value at position i is v_i, all v_i
distinct (so a value identifies its position).  For a key k let P(k) = set of positions k denotes:
  * a ColumnElement k denotes i when E_i is k (the element under a Label is also looked up: it may be unknown to the row, but
    if a value comes back it must be the value of a position that labels k);
  * a string s denotes i when result.keys()[i] == s.
Contract, evaluated on every real result row:
  ensures  |P(k)| == 1                      ==>  row._mapping[k] == v_i   (no exception, never another value)
  ensures  |P(k)| >= 2, values differ       ==>  raises InvalidRequestError("Ambiguous column name ...")
  ensures  |P(k)| >= 2, values all equal    ==>  that value, or the ambiguity error
  ensures  tuple(row) == (v_0, ..., v_n)  and  row[i] == v_i  and  explicit label at i  ==>  keys()[i] == label name
  never    another column's value.

Two drivers: (a) real execution on in-memory SQLite, every statement built twice and executed twice on one connection
(the second execution takes the compiled-cache + _adapt_to_context path); (b) a stub cursor: CursorResult over a
FullyBufferedCursorFetchStrategy whose description replays the *compiled* rendered names (de-normalised for dialects that
require it) for statements compiled by the PostgreSQL / Oracle / MSSQL / MySQL / SQLite dialect objects, no database.

Wide shapes - cursor.description has MORE columns than the compiled statement lists (the contract is the same, the ghost
state is per *result* position):
  * frag_first / frag_last: a textual fragment that the database expands to several columns - literal_column("*"), text("*"),
    literal_column("a.*"), text("b.*"), text("a.id, b.id, b.x AS y"), literal_column("b.a_id, a.y AS a_id") - before / after a
    select list of 0..2 (thorough: 0..3) pool expressions over a JOIN b, all label styles.  Positions produced by the fragment
    have no key object.  Such statements are matched to the cursor BY NAME (documented for textual columns), so an object
    key denotes every position carrying the name that was rendered for it: P(E_i) = { j : keys()[j] == keys()[i] }.
  * text_fewer_positional / text_fewer_byname: text("SELECT <list>, b.id, a.id, b.x ...").columns(...) declaring only <list>
    (positionally, by Column objects: P(E_i) = {i}) or by name in another order.
  In both, a string that names two positions with different values must raise, whatever the relation between the number
  of distinct names and the number of compiled columns (the failure records that relation as `diag`).
  Stub description for these: the rendered name (ResultColumn.keyname) of compiled columns, the bare column names for what
  a fragment / undeclared column yields.

Histories over the compiled cache (shapes perm:<kind>) - the contract above quantifies over every execution, whatever the
state of the compiled cache; the second execution of the shapes above reuses the shared Column objects at the SAME positions
(or brand-new objects).  Here a history is a sequence of executions of one statement template over the same k (2..3)
interchangeable objects, step t putting object pi_t(r) into slot r; the objects are
  * alias / subquery / cte: anonymous s.alias() / select(s).subquery() / select(s).cte() of a 3-row table s; slot r is
    pinned to row r (WHERE slot_r.id = <id of row r>), the select list is an ordered selection of (slot, column) pairs;
  * anon_label: (s.c.x + <1000 * (j+1)>).label(None); the select list is an ordered selection of slots.
  Anonymous names are assigned by order of appearance and bound values are extracted, so all steps of a history have the
  same SQL text and cache key: every step after the first is served by the Compiled and the CursorResultMetaData of step 1
  (measured per step: context.cache_hit) through _adapt_to_context, with the invoked statement's column objects at other
  result positions than in the compiled statement.  Ghost state and clauses are unchanged: position i of step t carries the
  object the statement *of step t* selects there, and v_i is what the database produced (row of the slot / x + the bound
  value of the label in that slot); only keys occurring in the statement of step t are looked up.  Each history starts on a
  cold cache (Engine.clear_compiled_cache()); the first permutation is the identity (objects are fresh per history).
  Stub driver: step 1 compiles, later steps build the CursorResult with CACHE_HIT and the permuted invoked statement.
"""
import itertools
import json
import multiprocessing
import random
import time
import warnings

LEVEL = "exploration"

VALUES = {"a.id": 10, "a.x": 20, "a.a_very_long_column_name_one": 30, "a.y": 40,
          "b.id": 50, "b.x": 60, "b.a_very_long_column_name_one": 70, "b.a_id": 85}
# expression pool: name -> (builder(a, b), value on SQLite)
POOL = ["a.id", "a.x", "a.a_very_long_column_name_one", "a.y", "b.id", "b.x", "b.a_very_long_column_name_one", "b.a_id",
        "a.x+b.x", "a.x.label(y)", "b.id.label(id)", "a.y.label(a_x)", "b.x.label(a_very_long_label_name_for_b_x)", "literal_column(b.x+1)", "a.y+1"]
POOL_VALUES = dict(VALUES, **{"a.x+b.x": 80, "a.x.label(y)": 20, "b.id.label(id)": 50, "a.y.label(a_x)": 40,
                                "b.x.label(a_very_long_label_name_for_b_x)": 60, "literal_column(b.x+1)": 61, "a.y+1": 41})
SHAPES = ["plain", "labels", "dup", "subquery", "cte", "union", "text_positional", "text_byname", "mixed_text"]
# shapes whose cursor.description has MORE columns than the compiled statement knows about: a textual fragment that the
# database expands to several columns, placed before / after the select list, and TextualSelects that declare only a prefix /
# a subset of what the SQL returns.  fragment kind -> [(value name, name in cursor.description)] in database order
A_COLS = [("a.id", "id"), ("a.x", "x"), ("a.a_very_long_column_name_one", "a_very_long_column_name_one"), ("a.y", "y")]
B_COLS = [("b.id", "id"), ("b.x", "x"), ("b.a_very_long_column_name_one", "a_very_long_column_name_one"), ("b.a_id", "a_id")]
FRAGMENTS = {
    "lc_star": ("literal_column", "*", A_COLS + B_COLS),
    "text_star": ("text", "*", A_COLS + B_COLS),
    "lc_a_star": ("literal_column", "a.*", A_COLS),
    "text_b_star": ("text", "b.*", B_COLS),
    "text_multi": ("text", "a.id, b.id, b.x AS y", [("a.id", "id"), ("b.id", "id"), ("b.x", "y")]),
    "lc_multi": ("literal_column", "b.a_id, a.y AS a_id", [("b.a_id", "a_id"), ("a.y", "a_id")]),
}
FRAG_SHAPES = ["frag_%s:%s" % (pos, k) for k in FRAGMENTS for pos in ("first", "last")]
TEXT_EXTRAS = [("b.id", "id"), ("a.id", "id"), ("b.x", "x")]        # returned by the SQL, not declared with .columns()
WIDE_SHAPES = FRAG_SHAPES + ["text_fewer_positional", "text_fewer_byname"]
WIDE_DRIVERS = ["sqlite", "stub:oracle", "stub:postgresql"]
STYLES = ["NONE", "TABLENAME_PLUS_COL", "DISAMBIGUATE_ONLY"]
STUB_DIALECTS = ["postgresql", "oracle", "mssql", "mysql", "sqlite"]

_ENV = {}


def tables():
    if "a" not in _ENV:
        warnings.simplefilter("ignore")
        from sqlalchemy import MetaData, Table, Column, Integer
        m = MetaData()
        _ENV["a"] = Table("a", m, Column("id", Integer, primary_key=True), Column("x", Integer), Column("a_very_long_column_name_one", Integer), Column("y", Integer))
        _ENV["b"] = Table("b", m, Column("id", Integer, primary_key=True), Column("x", Integer), Column("a_very_long_column_name_one", Integer), Column("a_id", Integer))
        _ENV["md"] = m
    return _ENV["a"], _ENV["b"]


def engine(label_length):
    key = ("engine", label_length)
    if key not in _ENV:
        from sqlalchemy import create_engine, insert
        a, b = tables()
        e = create_engine("sqlite://", label_length=label_length)
        _ENV["md"].create_all(e)
        with e.begin() as c:
            c.execute(insert(a).values(id=10, x=20, a_very_long_column_name_one=30, y=40))
            c.execute(insert(b).values(id=50, x=60, a_very_long_column_name_one=70, a_id=85))
        _ENV[key] = e
        _ENV[("conn", label_length)] = e.connect()
    return _ENV[key], _ENV[("conn", label_length)]


def build_expr(name):
    """a *fresh* expression object for a pool name (table columns are shared objects, derived ones are new each time)"""
    from sqlalchemy import literal_column, Integer
    a, b = tables()
    if name in VALUES:
        t, c = name.split(".")
        return (a if t == "a" else b).c[c]
    if name == "a.x+b.x":
        return a.c.x + b.c.x
    if name == "a.y+1":
        return a.c.y + 1
    if name == "literal_column(b.x+1)":
        return literal_column("b.x + 1", Integer)
    if ".label(" in name:
        col, lab = name[:-1].split(".label(")
        return build_expr(col).label(lab)
    raise AssertionError(name)


def from_clause():
    a, b = tables()
    return a.join(b, a.c.id < b.c.a_id)


def style_of(name):
    import sqlalchemy as sa
    return getattr(sa, "LABEL_STYLE_" + name)


def build_statement(shape, names, style, dialect_for_text=None):
    """-> (statement, key-expression object per result position (None: produced by text), value name per result position
    [, description plan per result position for the stub: ("rc", compiled result column index) | ("lit", name)]) or None
    when the shape does not apply to this select list"""
    from sqlalchemy import select, union_all, text, literal_column, Integer, exc as sa_exc
    from sqlalchemy.sql.elements import Label
    exprs = [build_expr(n) for n in names]
    vals = list(names)
    st = style_of(style)
    if shape in WIDE_SHAPES:
        plan = [("rc", i) for i in range(len(exprs))]
        if shape.startswith("frag_"):
            pos, kind = shape[5:].split(":")
            ctor, sql, expansion = FRAGMENTS[kind]
            frag = literal_column(sql) if ctor == "literal_column" else text(sql)
            fvals = [v for v, _ in expansion]
            if pos == "first":
                stmt = select(frag, *exprs)
                keyobjs = [None] * len(fvals) + exprs
                vals = fvals + vals
                plan = [("lit", n) for _, n in expansion] + [("rc", i + 1) for i in range(len(exprs))]
            else:
                stmt = select(*exprs, frag)
                keyobjs = exprs + [None] * len(fvals)
                vals = vals + fvals
                plan = plan + [("lit", n) for _, n in expansion]
            stmt = stmt.select_from(from_clause()).set_label_style(st)
            ncompiled = len(exprs) + 1
        else:
            if not names or not all(n in VALUES for n in names):
                return None
            extras = [v for v, _ in TEXT_EXTRAS]
            if shape == "text_fewer_positional":
                sql = "SELECT " + ", ".join(list(names) + extras) + " FROM a JOIN b ON a.id < b.a_id"
                stmt = text(sql).columns(*exprs)
                keyobjs = exprs + [None] * len(extras)
                vals = vals + extras
                plan = plan + [("lit", n) for _, n in TEXT_EXTRAS]
            else:
                if len({n.split(".")[1] for n in names}) != len(names):
                    return None
                order = list(reversed(names))
                sql = "SELECT " + ", ".join(order + extras) + " FROM a JOIN b ON a.id < b.a_id"
                stmt = text(sql).columns(**{n.split(".")[1]: Integer for n in names})
                keyobjs = [None] * (len(names) + len(extras))
                vals = order + extras
                plan = [("lit", n.split(".")[1]) for n in order] + [("lit", n) for _, n in TEXT_EXTRAS]
            ncompiled = len(names)
        return stmt, keyobjs, vals, plan, ncompiled
    if not names:
        return None
    if shape == "plain":
        stmt = select(*exprs).select_from(from_clause()).set_label_style(st)
        keyobjs = exprs
    elif shape == "labels":
        if any(isinstance(e, Label) for e in exprs):
            return None
        exprs = [e.label("l%d" % i) for i, e in enumerate(exprs)]
        stmt = select(*exprs).select_from(from_clause()).set_label_style(st)
        keyobjs = exprs
    elif shape == "dup":
        exprs = exprs + [exprs[0]]
        vals = vals + [vals[0]]
        stmt = select(*exprs).select_from(from_clause()).set_label_style(st)
        keyobjs = exprs
    elif shape in ("subquery", "cte"):
        if "literal_column(b.x+1)" in names:
            return None         # an unlabelled literal_column expression cannot be re-selected from a subquery (invalid SQL, user error)
        inner = select(*exprs).select_from(from_clause()).set_label_style(style_of("TABLENAME_PLUS_COL"))
        sq = inner.subquery("sq") if shape == "subquery" else inner.cte("q")
        try:
            cols = list(sq.c)
        except sa_exc.InvalidRequestError:
            return None         # documented: explicit label colliding with a generated label cannot be exported by a subquery
        if len(cols) != len(exprs):
            return None
        stmt = select(sq).set_label_style(st)
        keyobjs = cols
    elif shape == "union":
        s1 = select(*exprs).select_from(from_clause()).set_label_style(st)
        s2 = select(*[build_expr(n) for n in names]).select_from(from_clause()).set_label_style(st)
        stmt = union_all(s1, s2)
        keyobjs = exprs
    elif shape == "text_positional":
        if not all(n in VALUES for n in names):
            return None
        sql = "SELECT " + ", ".join(n for n in names) + " FROM a JOIN b ON a.id < b.a_id"
        stmt = text(sql).columns(*exprs)
        keyobjs = exprs
    elif shape == "text_byname":
        if not all(n in VALUES for n in names) or len({n.split(".")[1] for n in names}) != len(names):
            return None
        sql = "SELECT " + ", ".join(n for n in reversed(names)) + " FROM a JOIN b ON a.id < b.a_id"      # SELECT order differs from .columns() order
        stmt = text(sql).columns(**{n.split(".")[1]: Integer for n in names})
        vals = list(reversed(names))
        keyobjs = [None] * len(names)
    elif shape == "mixed_text":
        extra = text("b.x + 5 AS extra_t")
        stmt = select(*exprs, extra).select_from(from_clause()).set_label_style(st)
        vals = vals + ["extra_t"]
        keyobjs = exprs + [None]
    else:
        raise AssertionError(shape)
    return stmt, keyobjs, vals


def value_of(valname, position, stub):
    if stub:
        return 100 + position
    if valname == "extra_t":
        return 65
    return POOL_VALUES[valname]


def candidate_keys(keyobjs):
    """all keys to look up: the select-list objects, and for labels also the labelled element"""
    from sqlalchemy.sql.elements import Label
    out = []
    for i, k in enumerate(keyobjs):
        if k is None:
            continue
        if not any(k is o for o in out):
            out.append(k)
        if isinstance(k, Label) and not any(k.element is o for o in out):
            out.append(k.element)
    return out


def positions_of(key, keyobjs):
    return [i for i, e in enumerate(keyobjs) if e is not None and e is key]


def label_positions_of(key, keyobjs):
    from sqlalchemy.sql.elements import Label
    return [i for i, e in enumerate(keyobjs) if isinstance(e, Label) and e.element is key]


def lookup(row, key):
    from sqlalchemy import exc
    try:
        return ["value", row._mapping[key]]
    except exc.InvalidRequestError as e:
        if "Ambiguous column name" in str(e):
            return ["ambiguous"]
        return ["exc", type(e).__name__, str(e)[:80]]
    except Exception as e:  # noqa: BLE001
        return ["exc", type(e).__name__, str(e)[:80]]


def check_row(row, keys, keyobjs, vals, stub, explicit_labels, desc_base, keynames=None):
    """evaluate the contract on one row -> list of failure descriptions.  keynames: id(key object) -> stable name for the
    failure record (anonymous aliases / labels carry their id() in str())"""
    fails = []
    _str = (lambda k: keynames.get(id(k), str(k))) if keynames else str
    n = len(vals)
    # stub rows are coded by expression: position of the first occurrence of the same expression (a database returns equal
    # values for the same expression selected twice)
    expect = [value_of(vals[i], vals.index(vals[i]), stub) for i in range(n)]
    evals = 0
    if list(row) != expect:
        fails.append(dict(desc_base, clause="positional", key="tuple(row)", expected=expect, got=list(row)))
    evals += 1
    keys = list(keys)
    if len(keys) != n:
        fails.append(dict(desc_base, clause="keys-length", key="keys()", expected=n, got=keys))
        return fails, evals, 0
    for i, lab in explicit_labels.items():
        evals += 1
        if keys[i] != lab:
            fails.append(dict(desc_base, clause="label-key", key="keys()[%d]" % i, expected=lab, got=keys[i]))
    todo = [(k, positions_of(k, keyobjs), "object:%s" % type(k).__name__) for k in candidate_keys(keyobjs)]
    name_matched = desc_base["shape"].startswith("frag_")
    if name_matched:
        # a select() with a textual fragment: the database decides how many columns the fragment yields, so compiled columns
        # are matched to cursor.description BY NAME (documented); an object key therefore denotes every position that carries
        # the name rendered for it (= keys()[its own position], DBAPI contract)
        todo = [(k, sorted({j for i in pos for j in range(n) if keys[j] == keys[i]}), kind) for k, pos, kind in todo]
    todo += [(s, [i for i in range(n) if keys[i] == s], "string") for s in dict.fromkeys(keys)]
    nontrivial = 0
    for key, pos, kind in todo:
        evals += 1
        got = lookup(row, key)
        pv = [expect[i] for i in pos]
        if len(pos) > 1:
            nontrivial += 1
        if len(pos) == 0:
            # the element under a label: the row may not know it, but it must never give another position's value
            lpos = label_positions_of(key, keyobjs)
            if name_matched:
                lpos = sorted({j for i in lpos for j in range(n) if keys[j] == keys[i]})
            lp = [expect[i] for i in lpos]
            if got[0] == "value" and got[1] not in lp:
                fails.append(dict(desc_base, clause="lookup", key_kind=kind, key=_str(key), positions=pos, expected=["no-such-column-or-value-of", lp], got=got, wrong_value=True))
            continue
        if len(pos) == 1:
            ok = got == ["value", pv[0]]
            want = ["value", pv[0]]
        elif len(set(pv)) == 1:
            ok = got == ["value", pv[0]] or got == ["ambiguous"]
            want = ["value-or-ambiguous", pv[0]]
        else:
            ok = got == ["ambiguous"]
            want = ["ambiguous"]
        if not ok:
            diag = []
            if "ncompiled" in desc_base and want == ["ambiguous"]:
                # the precondition under which the duplicate scan of CursorResultMetaData.__init__ is skipped by design
                # (it compares the number of distinct names with the number of compiled columns)
                diag.append("distinct-names-%s-compiled-columns" % (
                    "equal" if len(set(keys)) == desc_base["ncompiled"] else "more-than" if len(set(keys)) > desc_base["ncompiled"] else "fewer-than"))
            elif isinstance(key, str):
                if len(set(keys)) < len(keys):
                    diag.append("keys-contain-duplicate-names")
                for j, vn in enumerate(vals):
                    if j not in pos and vn in VALUES and vn.replace(".", "_") == key:
                        diag.append("key-equals-table-qualified-label-of-another-position")
                        break
            fails.append(dict(desc_base, clause="lookup", key_kind=kind, key=_str(key), positions=pos, expected=want, got=got, diag=diag,
                              wrong_value=bool(got[0] == "value" and got[1] not in pv)))
    return fails, evals, nontrivial


# ------------------------------------------------------------------------------------------------ driver (a): SQLite
def explicit_labels_of(keyobjs):
    from sqlalchemy.sql.elements import Label
    return {i: e.name for i, e in enumerate(keyobjs) if isinstance(e, Label)}


def run_case_sqlite(shape, names, style, label_length):
    e, conn = engine(label_length)
    out = []
    evals = nontriv = 0
    for execution in (1, 2):
        built = build_statement(shape, names, style)
        if built is None:
            return None
        stmt, keyobjs, vals = built[:3]
        base = dict(driver="sqlite", shape=shape, select_list=list(names), label_style=style, label_length=label_length, execution=execution)
        if len(built) > 3:
            base["ncompiled"] = built[4]
        try:
            res = conn.execute(stmt)
            keys = list(res.keys())
            row = res.first()
        except Exception as ex:  # noqa: BLE001
            out.append(dict(base, clause="execute", key="", expected="a row", got=["exc", type(ex).__name__, str(ex)[:120]]))
            return out, evals, nontriv
        lab = explicit_labels_of(keyobjs) if shape not in ("subquery", "cte") else {}
        r = check_row(row, keys, keyobjs, vals, False, lab, base)
        out += r[0]
        evals += r[1]
        nontriv += r[2]
    return out, evals, nontriv


# ------------------------------------------------------------------------------------------------ driver (b): stub cursor
class _StubConn:
    _echo = False

    def _safe_close_cursor(self, cursor):
        pass


def stub_dialect(name, label_length):
    key = ("dialect", name, label_length)
    if key not in _ENV:
        from sqlalchemy.dialects import registry
        _ENV[key] = registry.load(name)(label_length=label_length)
    return _ENV[key]


def stub_result(dialect, compiled, invoked_statement, cache_hit, rows, plan=None):
    """a real CursorResult over a stub cursor: description replays the compiled rendered names"""
    from sqlalchemy.engine import cursor as _cursor
    from sqlalchemy.engine.interfaces import CacheStats
    from sqlalchemy import util
    ctx = dialect.execution_ctx_cls.__new__(dialect.execution_ctx_cls)
    ctx.dialect = dialect
    ctx.compiled = compiled
    ctx.invoked_statement = invoked_statement
    ctx.execution_options = util.EMPTY_DICT
    ctx.cursor = None
    ctx.root_connection = _StubConn()
    ctx.cache_hit = CacheStats.CACHE_HIT if cache_hit else CacheStats.CACHE_MISS
    ctx._num_sentinel_cols = 0
    ctx.result_column_struct = (compiled._result_columns, compiled._ordered_columns, compiled._textual_ordered_columns,
                                compiled._ad_hoc_textual, compiled._loose_column_name_matching)     # as DefaultExecutionContext._init_compiled
    ctx.isinsert = ctx.isupdate = ctx.isdelete = False
    names = [rc.name for rc in compiled._result_columns]
    if plan is not None:        # what a database reports when a fragment expands to several columns / the SQL returns more than declared
        names = [compiled._result_columns[x].keyname if how == "rc" else x for how, x in plan]   # keyname = the name as rendered in the SQL text
    if dialect.requires_name_normalize:
        names = [dialect.denormalize_name(n) for n in names]
    desc = [(n, None, None, None, None, None, None) for n in names]
    strategy = _cursor.FullyBufferedCursorFetchStrategy(None, alternate_description=desc, initial_buffer=rows)
    return _cursor.CursorResult(ctx, strategy, desc), names


def run_case_stub(shape, names, style, label_length, dialect_name):
    if shape in ("mixed_text", "text_byname"):
        return None     # their cursor description carries textual column names, which the compiled result columns do not give
    d = stub_dialect(dialect_name, label_length)
    out = []
    evals = nontriv = 0
    compiled = None
    for execution in (1, 2):
        built = build_statement(shape, names, style)
        if built is None:
            return None
        stmt, keyobjs, vals = built[:3]
        plan = built[3] if len(built) > 3 else None
        base = dict(driver="stub:" + dialect_name, shape=shape, select_list=list(names), label_style=style, label_length=label_length, execution=execution)
        if plan is not None:
            base["ncompiled"] = built[4]
        try:
            if compiled is None:
                compiled = stmt.compile(dialect=d)
                compiled._cached_metadata = None
            nrc = len(compiled._result_columns) if plan is None else len(plan)
            res, _ = stub_result(d, compiled, stmt, execution == 2, [tuple(100 + vals.index(vals[i]) for i in range(nrc))], plan)
            keys = list(res.keys())
            row = res.first()
        except Exception as ex:  # noqa: BLE001
            out.append(dict(base, clause="execute", key="", expected="a row", got=["exc", type(ex).__name__, str(ex)[:120]]))
            return out, evals, nontriv
        lab = explicit_labels_of(keyobjs) if shape not in ("subquery", "cte") else {}
        r = check_row(row, keys, keyobjs, vals, True, lab, base)
        out += r[0]
        evals += r[1]
        nontriv += r[2]
    return out, evals, nontriv


CASE_KEYS = ("driver", "shape", "select_list", "label_style", "label_length", "k", "history")


def run_case(case):
    if case["shape"].startswith("perm:"):
        r = run_case_perm(case)
        return r[0], r[1], r[2]
    if case["driver"] == "sqlite":
        return run_case_sqlite(case["shape"], case["select_list"], case["label_style"], case["label_length"])
    return run_case_stub(case["shape"], case["select_list"], case["label_style"], case["label_length"], case["driver"].split(":")[1])


# ------------------------------------------------------------------------------------------------ histories over the compiled cache
# A *history* is a sequence of executions of statements built from ONE template over the same k interchangeable objects
# (anonymous aliases / subqueries / CTEs of table s, or anonymous labels over expressions that differ only in a bound value);
# step t assigns the objects to the template's slots by a permutation pi_t.  All steps render the same SQL and have the same
# cache key, so every step after the first is served by the Compiled and the result meta data of step 1 and goes through
# CursorResultMetaData._adapt_to_context with an invoked statement whose column objects sit at other positions than in the
# statement that was compiled.  The contract is the one of check_row, evaluated on every step with the key objects of the
# statement *of that step*.
PERM_KINDS = ["alias", "subquery", "cte", "anon_label"]
PERM_COLS = ["id", "x", "a_very_long_column_name_one"]
PERM_ROWS = 3
PERM_STUBS_QUICK = ["oracle", "postgresql"]
for _r in range(PERM_ROWS):
    for _j, _c in enumerate(PERM_COLS):
        POOL_VALUES["s%d.%s" % (_r, _c)] = 10 * (_r + 1) + _j * 100       # slot r is pinned to row r of s; every cell distinct
    POOL_VALUES["s0.x+%d" % (1000 * (_r + 1))] = POOL_VALUES["s0.x"] + 1000 * (_r + 1)


def perm_table():
    if "s" not in _ENV:
        from sqlalchemy import MetaData, Table, Column, Integer
        m = MetaData()
        _ENV["s"] = Table("s", m, Column("id", Integer, primary_key=True), Column("x", Integer), Column("a_very_long_column_name_one", Integer))
        _ENV["smd"] = m
    return _ENV["s"]


def perm_engine(label_length):
    key = ("perm-engine", label_length)
    if key not in _ENV:
        from sqlalchemy import create_engine, insert
        s = perm_table()
        e = create_engine("sqlite://", label_length=label_length)
        _ENV["smd"].create_all(e)
        with e.begin() as c:
            c.execute(insert(s), [dict(zip(PERM_COLS, [POOL_VALUES["s%d.%s" % (r, col)] for col in PERM_COLS])) for r in range(PERM_ROWS)])
        _ENV[key] = (e, e.connect())
    return _ENV[key]


def perm_objects(kind, k):
    """k fresh interchangeable objects and their stable names"""
    from sqlalchemy import select
    s = perm_table()
    names = {}
    if kind == "anon_label":
        objs = [(s.c.x + 1000 * (j + 1)).label(None) for j in range(k)]
        for j, o in enumerate(objs):
            names[id(o)] = "L%d" % j
            names[id(o.element)] = "L%d.element" % j
        return objs, names
    objs = [s.alias() if kind == "alias" else select(s).subquery() if kind == "subquery" else select(s).cte() for _ in range(k)]
    for j, o in enumerate(objs):
        for c in PERM_COLS:
            names[id(o.c[c])] = "F%d.%s" % (j, c)
    return objs, names


def build_perm(kind, k, sel, perm, style, objs):
    """the template statement with object objs[perm[r]] in slot r -> (statement, key object per position, value name per position)"""
    from sqlalchemy import select
    s = perm_table()
    st = style_of(style)
    if kind == "anon_label":
        cols = [objs[perm[r]] for r in sel]
        vals = ["s0.x+%d" % (1000 * (perm[r] + 1)) for r in sel]
        return select(*cols).where(s.c.id == POOL_VALUES["s0.id"]).set_label_style(st), cols, vals
    cols = [objs[perm[r]].c[c] for r, c in sel]
    vals = ["s%d.%s" % (r, c) for r, c in sel]
    crit = [objs[perm[r]].c.id == POOL_VALUES["s%d.id" % r] for r in range(k)]
    crit += [objs[perm[r]].c.id < objs[perm[r + 1]].c.id for r in range(k - 1)]      # joins the slots (true by the pinning; no cartesian-product warning)
    return select(*cols).where(*crit).set_label_style(st), cols, vals


def run_case_perm(case):
    """-> (failures, evaluations, non-trivial?, steps served from the cache with permuted objects)"""
    from sqlalchemy.engine.interfaces import CacheStats
    kind = case["shape"].split(":")[1]
    k, sel, history, style, ll = case["k"], [tuple(x) if isinstance(x, list) else x for x in case["select_list"]], case["history"], case["label_style"], case["label_length"]
    stub = case["driver"].startswith("stub:")
    objs, names = perm_objects(kind, k)
    out = []
    evals = permuted_hits = 0
    compiled = None
    if stub:
        d = stub_dialect(case["driver"].split(":")[1], ll)
    else:
        e, conn = perm_engine(ll)
        e.clear_compiled_cache()            # every history starts cold: step 1 compiles
    for step, perm in enumerate(history, 1):
        stmt, keyobjs, vals = build_perm(kind, k, sel, perm, style, objs)
        base = dict(driver=case["driver"], shape=case["shape"], k=k, select_list=[list(x) if isinstance(x, tuple) else x for x in sel], history=[list(p) for p in history],
                    label_style=style, label_length=ll, execution=step, slots=list(perm))
        try:
            if stub:
                if compiled is None:
                    compiled = stmt.compile(dialect=d)
                    compiled._cached_metadata = None
                res, _ = stub_result(d, compiled, stmt, step > 1, [tuple(100 + i for i in range(len(vals)))])
                hit = step > 1
            else:
                res = conn.execute(stmt)
                hit = res.context.cache_hit is CacheStats.CACHE_HIT
            keys = list(res.keys())
            row = res.first()
        except Exception as ex:  # noqa: BLE001
            out.append(dict(base, clause="execute", key="", expected="a row", got=["exc", type(ex).__name__, str(ex)[:120]]))
            break
        if hit and list(perm) != list(history[0]):
            permuted_hits += 1
        r = check_row(row, keys, keyobjs, vals, stub, {}, base, keynames=names)
        out += r[0]
        evals += r[1]
        if r[0]:
            break           # judged at the first failing step: later steps run on a cache the failure may have left behind
    return out, evals, permuted_hits


def perm_cases(tier):
    """all histories: k objects, every ordered selection of template columns, every sequence of permutations (first = identity:
    the objects are fresh per history, so this loses nothing)"""
    thorough = tier == "thorough"
    out = []
    for k in (2, 3):
        perms = [list(p) for p in itertools.permutations(range(k))]
        length = 3 if (k == 2 or thorough) else 2
        if k == 2 and thorough:
            length = 4
        histories = [[perms[0]] + list(h) for h in itertools.product(perms, repeat=length - 1)]
        entries = [(r, c) for r in range(k) for c in (PERM_COLS if k == 2 or thorough else PERM_COLS[:2])]
        maxlen = 3 if k == 2 else 2
        for kind in PERM_KINDS:
            if kind == "anon_label":
                lists = [list(p) for n in range(1, k + 1) for p in itertools.permutations(range(k), n)]
            else:
                lists = [list(p) for n in range(1, maxlen + 1) for p in itertools.permutations(entries, n)]
            for sel in lists:
                for h in histories:
                    out.append((kind, k, sel, h))
    return out


def _work_perm(task):
    _, chunk, stubs = task
    evals = cases = nontriv = nfails = hits = 0
    fails = {}
    for kind, k, sel, h in chunk:
        for driver in ["sqlite"] + ["stub:" + d for d in stubs]:
            for ll in (None, 10):
                for style in STYLES:
                    case = dict(driver=driver, shape="perm:" + kind, k=k, select_list=sel, history=h, label_style=style, label_length=ll)
                    r = run_case_perm(case)
                    cases += 1
                    evals += r[1]
                    hits += r[2]
                    if r[2]:
                        nontriv += 1
                    for f in r[0]:
                        nfails += 1
                        cls = (f["driver"], f["shape"], f["clause"], f.get("key_kind"), f["execution"], f["label_style"], json.dumps(f.get("expected"))[:14],
                               json.dumps(f.get("got"))[:30])
                        lst = fails.setdefault(cls, [])
                        if len(lst) < 2:
                            lst.append(f)
    return dict(evals=evals, cases=cases, skipped=0, nontrivial=nontriv, fails=[f for l in fails.values() for f in l], nfails=nfails, permuted_hits=hits)


# ------------------------------------------------------------------------------------------------ enumeration
def select_lists(tier, seed):
    lists = [list(p) for k in (1, 2) for p in itertools.permutations(POOL, k)]
    triples = [list(p) for p in itertools.permutations(POOL, 3)]
    if tier != "thorough":
        rnd = random.Random(seed)
        rnd.shuffle(triples)
        triples = triples[:len(triples) // 9]
    return lists + triples


def _work(task):
    if task[0] == "perm":
        return _work_perm(task)
    drivers, lists, wide_max = task
    wide_drivers = WIDE_DRIVERS if wide_max > 2 else WIDE_DRIVERS[:2]       # quick: SQLite + the Oracle stub (name normalisation)
    evals = cases = skipped = nontriv_cases = 0
    fails = {}
    nfails = 0
    sigs = set()
    for names in lists:
        for driver in drivers:
            for ll in (None, 10):
                for style in STYLES:
                    wide = WIDE_SHAPES if driver in wide_drivers and len(names) <= wide_max else []
                    for shape in (SHAPES if names else []) + wide:
                        if shape in ("subquery", "cte", "text_positional", "text_byname", "text_fewer_positional", "text_fewer_byname") and style != "NONE":
                            continue        # label style of the outer statement is irrelevant / not applicable for these
                        case = dict(driver=driver, shape=shape, select_list=names, label_style=style, label_length=ll)
                        r = run_case(case)
                        if r is None:
                            skipped += 1
                            continue
                        cases += 1
                        evals += r[1]
                        if r[2]:
                            nontriv_cases += 1
                            sigs.add((shape, style, ll, tuple(names)))
                        for f in r[0]:
                            nfails += 1
                            cls = (f["driver"], f["shape"], f["clause"], f.get("key_kind"), f["execution"], f["label_style"], json.dumps(f.get("expected"))[:14],
                                   json.dumps(f.get("got"))[:30], json.dumps(f.get("diag")))
                            lst = fails.setdefault(cls, [])
                            if len(lst) < 2:
                                lst.append(f)
    return dict(evals=evals, cases=cases, skipped=skipped, nontrivial=nontriv_cases, fails=[f for l in fails.values() for f in l], nfails=nfails)


def run(run, tier, seed, args):
    t0 = time.time()
    lists = [[]] + select_lists(tier, seed)     # the empty select list: wide shapes only (the fragment alone)
    drivers = ["sqlite"] + ["stub:" + d for d in STUB_DIALECTS]
    nproc = min(16, multiprocessing.cpu_count())
    chunk = max(1, len(lists) // (nproc * 8))
    wide_max = 2 if tier != "thorough" else 3
    tasks = [(drivers, lists[i:i + chunk], wide_max) for i in range(0, len(lists), chunk)]
    pcases = perm_cases(tier)
    perm_stubs = STUB_DIALECTS if tier == "thorough" else PERM_STUBS_QUICK
    pchunk = max(1, len(pcases) // (nproc * 4))
    ptasks = [("perm", pcases[i:i + pchunk], perm_stubs) for i in range(0, len(pcases), pchunk)]
    with multiprocessing.get_context("fork").Pool(nproc) as pool:
        results = pool.map(_work, ptasks + tasks, 1)
    presults = results[:len(ptasks)]
    permuted_hits = sum(r["permuted_hits"] for r in presults)
    if permuted_hits == 0:
        run.crashes.append("C11: no permuted history step was served from the compiled cache (vacuity guard)")
    evals = sum(r["evals"] for r in results)
    cases = sum(r["cases"] for r in results)
    nontriv = sum(r["nontrivial"] for r in results)
    fails = [f for r in results for f in r["fails"]]
    nfails = sum(r["nfails"] for r in results)
    fails.sort(key=lambda f: (len(f["select_list"]), json.dumps(f, sort_keys=True, default=repr)))
    seen_classes = set()
    for f in fails:
        dj = json.dumps(f, sort_keys=True, default=repr)
        fn = "CursorResultMetaData." + {"lookup": "_index_for_key", "positional": "__init__", "keys-length": "__init__", "label-key": "__init__", "execute": "__init__"}[f["clause"]]
        k = run.match_known(function=fn, input=dj)
        if k is not None:
            run.known_finding(k, "bounded SELECT corpus")
            continue
        cls = (f["driver"], f["shape"], f["clause"], f.get("key_kind"), json.dumps(f.get("expected"))[:20], f["got"][0] if isinstance(f["got"], list) and f["got"] else "")
        if cls in seen_classes or len(seen_classes) >= 10:
            continue
        seen_classes.add(cls)
        run.violation("C11-%s-%s-%08d" % (f["driver"].replace(":", "_"), f["shape"], abs(hash(dj)) % 10 ** 8),
                      dict(function=fn, input=f, expected=f.get("expected"), actual=f.get("got"),
                           reason="row lookup returned something other than the value of the expression the key denotes (or raised / failed to raise)"))
    samples = []
    for case in (dict(driver="sqlite", shape="plain", select_list=["a.x", "b.x", "a.y.label(a_x)"], label_style="NONE", label_length=10),
                 dict(driver="sqlite", shape="frag_last:lc_star", select_list=["b.x.label(a_very_long_label_name_for_b_x)"], label_style="TABLENAME_PLUS_COL", label_length=None),
                 dict(driver="stub:oracle", shape="dup", select_list=["a.a_very_long_column_name_one", "b.a_very_long_column_name_one"], label_style="TABLENAME_PLUS_COL", label_length=10)):
        built = build_statement(case["shape"], case["select_list"], case["label_style"])
        r = run_case(case)
        samples.append(dict(case=case, sql=str(built[0].compile(dialect=engine(case["label_length"])[0].dialect if case["driver"] == "sqlite" else stub_dialect(case["driver"].split(":")[1], case["label_length"]))).replace("\n", " "),
                            contract_failures=len(r[0]), lookups=r[1]))
    pcase = dict(driver="sqlite", shape="perm:alias", k=2, select_list=[[0, "x"], [1, "x"]], history=[[0, 1], [1, 0], [0, 1]], label_style="DISAMBIGUATE_ONLY", label_length=None)
    objs, _ = perm_objects("alias", 2)
    r = run_case(pcase)
    samples.append(dict(case=pcase, sql=[str(build_perm("alias", 2, [(0, "x"), (1, "x")], p, "DISAMBIGUATE_ONLY", objs)[0].compile(dialect=perm_engine(None)[0].dialect)).replace("\n", " ")
                                         for p in pcase["history"][:2]],
                        contract_failures=len(r[0]), lookups=r[1], steps_served_from_cache_with_permuted_objects=r[2]))
    if cases == 0:
        run.crashes.append("C11: no case ran (vacuity guard)")
    run.coverage.update(
        evaluations=evals, cases=cases, distinct_nontrivial=nontriv,
        history_cases=sum(r["cases"] for r in presults), history_cases_nontrivial=sum(r["nontrivial"] for r in presults),
        history_steps_served_from_cache_with_permuted_objects=permuted_hits,
        rule="cases = (driver, shape, select list, label style, label_length), each built and run twice; select lists are all ordered selections of "
             "1..2 of the %d pool expressions plus %s ordered triples; one evaluation = one key lookup / positional / keys() clause on a real row; a case is "
             "non-trivial when at least one of its keys denotes two or more positions (name / label / object collision); distinct by construction. "
             "The wide shapes (cursor.description longer than the compiled column list) run for select lists of 0..%d expressions on drivers %s. "
             "History cases = (driver, kind, k, select list over template slots, sequence of slot permutations, label style, label_length): every step is "
             "judged; a history case is non-trivial when at least one step was served from the compiled cache (measured: context.cache_hit) with the "
             "objects in other slots than in the statement that was compiled; distinct by construction" % (
                 len(POOL), "all" if tier == "thorough" else "a seeded 1/9 sample of the", wide_max, WIDE_DRIVERS if wide_max > 2 else WIDE_DRIVERS[:2]),
        samples=samples, exhaustive=tier == "thorough",
        scope="SELECTs over a JOIN b (colliding column names id / x / a_very_long_column_name_one, 27-character names, labels colliding with column names and "
              "with table-qualified labels, anonymous expressions, literal_column) x shapes %s x label styles %s x label_length in {None, 10} x drivers: "
              "in-memory SQLite (every cell a distinct value; second execution through the compiled cache / _adapt_to_context) and a stub cursor replaying the "
              "compiled names for the %s dialect objects; select lists: %d; wide shapes %s: textual fragments %s placed first / last in the select "
              "list, TextualSelect declaring a positional prefix / a by-name subset of what the SQL returns (undeclared %s); "
              "histories over the compiled cache: k in {2, 3} interchangeable objects of kind %s (anonymous alias / subquery / CTE of a 3-row table, slot r "
              "pinned to row r; anonymous labels over x + <bound value>), select lists = ordered selections of %s template columns (slot, column), "
              "every sequence of %s slot permutations after the identity, one cold cache per history, drivers SQLite + stub %s: %d histories" % (
                  SHAPES, STYLES, STUB_DIALECTS, len(lists), WIDE_SHAPES, {k: v[1] for k, v in FRAGMENTS.items()}, [v for v, _ in TEXT_EXTRAS],
                  PERM_KINDS, "1..3 (k=2) / 1..2 (k=3; 3 columns per slot)" if tier == "thorough" else "1..3 (k=2) / 1..2 (k=3; 2 columns per slot)", "3 (k=2) / 2 (k=3)" if tier == "thorough" else "2 (k=2) / 1 (k=3)",
                  perm_stubs, len(pcases)),
        contract_failures=nfails, wall_s=round(time.time() - t0, 1))
    run.assumptions += [
        "DBAPI contract: cursor returns columns in SELECT-list order, description[i][0] is the rendered name of column i (stub: de-normalised for Oracle)",
        "SQLite's own column naming stands for 'a backend'; other backends' naming only through the stub replaying compiled names",
        "outside: ORM entity rows, RETURNING, driver_column_names option, loose_column_name_matching dialects",
        "histories: only keys that occur in the statement of the step are looked up (a column object of an earlier step's statement that the current "
        "statement does not select denotes no position; the property does not say what such a lookup does)",
    ]


def replay(data):
    case = data["input"]
    r = run_case({k: case[k] for k in CASE_KEYS if k in case})
    if r is None:
        print("REPLAY: case not applicable", case)
        return 3
    fails = r[0]
    if "clause" in case:     # the recorded lookup only: the same case may also show a known finding on another key
        fails = [f for f in fails if (f["clause"], f.get("key"), f.get("key_kind")) == (case["clause"], case.get("key"), case.get("key_kind"))
                 and f.get("execution") == case.get("execution", f.get("execution"))]
    if fails:
        for f in fails[:5]:
            print(f"REPLAY-FAILS {data.get('function')} case={ {k: case[k] for k in CASE_KEYS if k in case} } "
                  f"execution={f['execution']} clause={f['clause']} key={f.get('key')} expected={f.get('expected')} got={f.get('got')}")
        return 1
    print("REPLAY-PASSES", {k: case[k] for k in CASE_KEYS if k in case}, "lookups", r[1])
    return 0
