"""C36 bounded complement — attribute history == net change since load, on the real attribute implementations.

Driven (real, tree under test): `_ScalarAttributeImpl.set / delete`, `_ScalarObjectAttributeImpl.set / delete`,
`_CollectionAttributeImpl` append / remove / set (bulk replace) through InstrumentedList / InstrumentedSet / KeyFuncDict
mutators, `InstanceState._modified_event` (committed_state capture, first write wins), `Session.expire`, writes of the
foreign-key COLUMN attribute (`h.best_id = NULL / id of b0 / id of b1`, pending) interleaved in every position with the
operations on the many-to-one `h.best` that is derived from that column (the implementation finds the "old" value of an
unloaded reference through the foreign key: `LOAD_AGAINST_COMMITTED`), and then
`inspect(obj).attrs.<key>.history` -> `History.from_scalar_attribute / from_object_attribute / from_collection`,
`History.sum / non_deleted / non_added / has_changes / empty`, and `Session.flush` (persist exactly that difference).

Contract (documented conventions of `History`, DESIGN §5 C36 K; `cur` = what the attribute now holds in the instance dict,
`orig` = the value the ghost saw in the attribute at its FIRST successful write since load / expire; an operation that raises
is not a write):
  H0  never written since load:                        ((), [cur], ())      or ((), (), ()) when nothing is loaded
  H1  scalar, orig known:   cur == orig                ((), [cur], ())
                            cur != orig                ([cur], (), [orig])
                            deleted (`del`)            ((), (), [orig])                      (the `del` convention)
  H2  orig unknown (first write hit an unloaded / never-set attribute):  ([cur], (), ())  and ([None], (), ()) after `del`
  H3  object reference: as H1 with `is`; an orig of None is not reported in `deleted` (then `del` reports ([None], (), ()));
      on an EXPIRED many-to-one the implementation may or may not know orig: both H1 and H2 readings are accepted
      (H1 with orig = the object the COMMITTED row references).  A write of the foreign-key column attribute is a write of another
      attribute: it is neither a write of the reference nor a change of its committed or current value, so H0-H3 for `best`
      are evaluated exactly as if the column writes were not in the sequence
  H4  collection (list / set / dict): added = [c in cur | c not in orig], unchanged = [c in cur | c in orig],
      deleted = [o in orig | o not in cur]   (by identity; ordered for lists, as multisets for set / dict)
  H5  sum() = added+unchanged+deleted, non_deleted() = added+unchanged, non_added() = unchanged+deleted,
      has_changes() = bool(added or deleted), empty() = not any of the three
  F   after `Session.flush()` the row / foreign keys in SQLite equal `cur` (a deleted scalar / reference is NULL), and the
      history of the attribute shows no change.  For `best`: when its history reports a difference the row's foreign key is
      that of `cur`; when it reports none the flush persists nothing for the reference and the row holds the foreign-key
      column's own value (the last one written in the sequence, else the committed one).
The ghost never reads `committed_state`.
"""
import json
import time

from rtc import ormharness as H

FN = "orm/attributes.py::History"
ALLOWED = (ValueError, KeyError, IndexError, AttributeError)
_M = None
_G = dict(engine=None)
UNSET, NOSTATE, MAYBE = "<unset>", "<no-state>", "<maybe>"


def mappings():
    """H (holder) with a scalar, a many-to-one, a list, a set and a dict collection; targets B and T.  Once per process."""
    global _M
    if _M is not None:
        return _M
    import types
    from sqlalchemy import Column, ForeignKey, Integer, String
    from sqlalchemy.orm import attribute_keyed_dict, configure_mappers, declarative_base, relationship
    Base = declarative_base()

    class B(Base):
        __tablename__ = "hb"
        id = Column(Integer, primary_key=True)

        def __repr__(self):
            return f"b{self.id}"

    class T(Base):
        __tablename__ = "ht"
        id = Column(Integer, primary_key=True)
        name = Column(String)
        hl = Column(ForeignKey("hh.id"))
        hs = Column(ForeignKey("hh.id"))
        hd = Column(ForeignKey("hh.id"))

        def __repr__(self):
            return f"t{self.id}"

        def __hash__(self):
            # equality stays identity; the hash is made independent of the object's address so that the element `h.tags.pop()` removes
            # (and with it every counted figure) is the same in every run.  Read from the instance dict: never triggers a load.
            return self.__dict__.get("id", -1)

    class Hh(Base):
        __tablename__ = "hh"
        id = Column(Integer, primary_key=True)
        x = Column(Integer)
        best_id = Column(ForeignKey("hb.id"))
        best = relationship(B)
        items = relationship(T, foreign_keys=[T.hl], order_by=T.id)
        tags = relationship(T, foreign_keys=[T.hs], collection_class=set)
        named = relationship(T, foreign_keys=[T.hd], collection_class=attribute_keyed_dict("name"))

    configure_mappers()
    _M = types.SimpleNamespace(Base=Base, B=B, T=T, Hh=Hh)
    return _M


TNAMES = {0: "a", 1: "b", 2: "c", 3: "a"}
FK_VALUES = (None, 0, 1)          # values written to the foreign-key column attribute h.best_id (ids of b0 / b1, or NULL)


# ----------------------------------------------------------------------------------------------- operation catalogues
def _cat(attr):
    ops = []

    def add(name, fn):
        ops.append((name, fn))
    if attr == "x":
        for v in (None, 1, 2):
            add(f"h.x={v!r}", lambda e, v=v: setattr(e["h"], "x", v))
        add("del h.x", lambda e: delattr(e["h"], "x"))
        add("expire(h,['x'])", lambda e: e["s"].expire(e["h"], ["x"]) if e["s"] is not None and e["persistent"] else None)
    elif attr == "best":
        add("h.best=None", lambda e: setattr(e["h"], "best", None))
        for i in (0, 1):
            add(f"h.best=b{i}", lambda e, i=i: setattr(e["h"], "best", e["b"][i]))
        add("del h.best", lambda e: delattr(e["h"], "best"))
        add("expire(h,['best'])", lambda e: e["s"].expire(e["h"], ["best"]) if e["s"] is not None and e["persistent"] else None)
        # writes of the foreign-key COLUMN attribute the reference is derived from (pending, unflushed): they change neither the
        # committed nor the current value of `best`, but the implementation resolves an unloaded `best` through the foreign key
        for v in FK_VALUES:
            add(f"h.best_id={v!r}", lambda e, v=v: setattr(e["h"], "best_id", v))
    elif attr == "items":
        for i in range(3):
            add(f"h.items.append(t{i})", lambda e, i=i: e["h"].items.append(e["t"][i]))
            add(f"h.items.remove(t{i})", lambda e, i=i: e["h"].items.remove(e["t"][i]))
        add("h.items=[t2,t0]", lambda e: setattr(e["h"], "items", [e["t"][2], e["t"][0]]))
        add("h.items=[]", lambda e: setattr(e["h"], "items", []))
        add("h.items.pop()", lambda e: e["h"].items.pop())
        add("h.items.clear()", lambda e: e["h"].items.clear())
        add("h.items.insert(0,t1)", lambda e: e["h"].items.insert(0, e["t"][1]))
        add("h.items[0:1]=[t2]", lambda e: e["h"].items.__setitem__(slice(0, 1), [e["t"][2]]))
        add("del h.items[0]", lambda e: e["h"].items.__delitem__(0))
    elif attr == "tags":
        for i in range(3):
            add(f"h.tags.add(t{i})", lambda e, i=i: e["h"].tags.add(e["t"][i]))
            add(f"h.tags.discard(t{i})", lambda e, i=i: e["h"].tags.discard(e["t"][i]))
        add("h.tags.remove(t1)", lambda e: e["h"].tags.remove(e["t"][1]))
        add("h.tags={t2,t0}", lambda e: setattr(e["h"], "tags", {e["t"][2], e["t"][0]}))
        add("h.tags=set()", lambda e: setattr(e["h"], "tags", set()))
        add("h.tags.clear()", lambda e: e["h"].tags.clear())
        add("h.tags.pop()", lambda e: e["h"].tags.pop())
        add("h.tags|={t1,t2}", lambda e: e["h"].tags.__ior__({e["t"][1], e["t"][2]}))
        add("h.tags-={t0}", lambda e: e["h"].tags.__isub__({e["t"][0]}))
        add("h.tags^={t0,t2}", lambda e: e["h"].tags.__ixor__({e["t"][0], e["t"][2]}))
    elif attr == "named":
        for i in range(4):
            add(f"h.named['{TNAMES[i]}']=t{i}", lambda e, i=i: e["h"].named.__setitem__(TNAMES[i], e["t"][i]))
        for k in "abc":
            add(f"del h.named['{k}']", lambda e, k=k: e["h"].named.__delitem__(k))
        add("h.named.pop('a',None)", lambda e: e["h"].named.pop("a", None))
        add("h.named={'c':t2,'a':t0}", lambda e: setattr(e["h"], "named", {"c": e["t"][2], "a": e["t"][0]}))
        add("h.named={}", lambda e: setattr(e["h"], "named", {}))
        add("h.named.clear()", lambda e: e["h"].named.clear())
        add("h.named.update({'b':t1})", lambda e: e["h"].named.update({"b": e["t"][1]}))
        add("h.named.setdefault('c',t2)", lambda e: e["h"].named.setdefault("c", e["t"][2]))
        add("h.named.popitem()", lambda e: e["h"].named.popitem())
    return ops


ATTRS = ("x", "best", "items", "tags", "named")
KINDS = ("persistent", "expired", "transient")
_CATS = {}


def catalogue(attr):
    if attr not in _CATS:
        _CATS[attr] = _cat(attr)
    return _CATS[attr]


# ----------------------------------------------------------------------------------------------- fixture
def reset_db(engine, variant):
    with engine.begin() as c:
        for t in ("ht", "hh", "hb"):
            c.exec_driver_sql(f"delete from {t}")
        c.exec_driver_sql("insert into hb (id) values (0), (1)")
        if variant == 0:
            c.exec_driver_sql("insert into hh (id, x, best_id) values (1, NULL, NULL)")
            c.exec_driver_sql("insert into ht (id, name, hl, hs, hd) values (0,'a',NULL,NULL,NULL),(1,'b',NULL,NULL,NULL),(2,'c',NULL,NULL,NULL),(3,'a',NULL,NULL,NULL)")
        else:
            c.exec_driver_sql("insert into hh (id, x, best_id) values (1, 1, 0)")
            c.exec_driver_sql("insert into ht (id, name, hl, hs, hd) values (0,'a',1,1,1),(1,'b',1,1,1),(2,'c',NULL,NULL,NULL),(3,'a',NULL,NULL,NULL)")


def committed_value(attr, variant, env):
    if variant == 0:
        return {"x": None, "best": None, "items": [], "tags": [], "named": []}[attr]
    t, b = env["t"], env["b"]
    return {"x": 1, "best": b[0], "items": [t[0], t[1]], "tags": [t[0], t[1]], "named": [t[0], t[1]]}[attr]


def contents(attr, value):
    """the members of a collection value as a list"""
    if attr == "named":
        return list(value.values())
    return list(value)


def tok(v):
    return repr(v) if v is not None and not isinstance(v, (int, str)) else v


def toks(seq):
    return [tok(v) for v in seq]


# ----------------------------------------------------------------------------------------------- one case
def run_case(attr, kind, variant, names, engine=None, reset=True):
    """-> dict(fails=[...], expected, actual, changed: bool).  Everything runs in one transaction that is rolled back, so the
    fixture rows only need (re)writing when the committed-value variant changes (`reset`)."""
    from sqlalchemy import inspect, select
    from sqlalchemy.orm import Session
    m = mappings()
    engine = engine or _G["engine"]
    if kind == "transient":
        variant = 0
    if reset:
        reset_db(engine, variant)
    cat = dict(catalogue(attr))
    s = Session(engine)
    fails = []
    try:
        b = s.scalars(select(m.B).order_by(m.B.id)).all()
        t = s.scalars(select(m.T).order_by(m.T.id)).all()
        if kind == "transient":
            h = m.Hh(id=9)
        else:
            h = s.get(m.Hh, 1)
            for a in ATTRS:        # load everything (lazy collections included)
                getattr(h, a)
            if kind == "expired":
                s.expire(h)
        env = dict(h=h, b=b, t=t, s=s, persistent=kind != "transient")
        v0 = committed_value(attr, variant, env)
        coll = attr in ("items", "tags", "named")
        orig = UNSET
        fk = UNSET                  # ghost of the foreign-key column attribute: the last value written to h.best_id in this sequence
        for name in names:
            d = h.__dict__
            present = attr in d
            before = (contents(attr, d[attr]) if coll else d[attr]) if present else None
            try:
                cat[name](env)
            except ALLOWED:
                continue
            except Exception as ex:
                fails.append(f"operation {name} raised {type(ex).__name__}: {str(ex)[:120]}")
                break
            if name.startswith("h.best_id="):
                fk = FK_VALUES[[f"h.best_id={v!r}" for v in FK_VALUES].index(name)]
                continue            # a write of ANOTHER attribute: neither a write of `best` nor a change of what `best` holds
            if name.startswith("expire("):
                if kind != "transient":
                    orig = UNSET
                continue
            if orig is UNSET:
                if coll:
                    # a collection mutator always works on the loaded collection: orig = contents at first write
                    orig = list(before) if present else (list(v0) if kind != "transient" else [])
                elif present:
                    orig = before
                elif attr == "best" and kind != "transient":
                    orig = MAYBE
                else:
                    orig = NOSTATE
        d = h.__dict__
        present = attr in d
        cur = (contents(attr, d[attr]) if coll else d[attr]) if present else ([] if coll else None)   # an un-stored empty collection reads []
        hist = inspect(h).attrs[attr].history
        actual = [list(hist.added), list(hist.unchanged), list(hist.deleted)]
        # ---- expectation (H0-H4)
        if coll:
            if orig is UNSET:
                accept = [[[], list(cur), []]] if present else [[[], [], []]]
            else:
                ids = {id(o) for o in orig}
                cids = {id(c) for c in cur}
                accept = [[[c for c in cur if id(c) not in ids], [c for c in cur if id(c) in ids], [o for o in orig if id(o) not in cids]]]
        else:
            def known(o):
                if attr == "x":
                    if present:
                        return [[], [cur], []] if cur == o else [[cur], [], [o]]
                    return [[], [], [o]]
                if present and cur is o:
                    return [[], [cur], []]
                if o is None:
                    return [[cur], [], []] if present else [[None], [], []]
                return [[cur], [], [o]] if present else [[], [], [o]]
            nostate = [[cur], [], []] if present else [[None], [], []]
            if orig is UNSET:
                accept = [[[], [cur], []]] if present else [[[], [], []]]
            elif orig is NOSTATE:
                accept = [nostate]
                if not present and kind == "transient":
                    accept.append([[], [], []])      # never had a value and has none now: "no net change" is equally faithful
            elif orig is MAYBE:
                accept = [nostate, known(v0)]
            else:
                accept = [known(orig)]

        def same(a, e):
            if attr in ("tags", "named"):
                return all(sorted(map(id, x)) == sorted(map(id, y)) for x, y in zip(a, e))
            return all(len(x) == len(y) and all(p is q or (attr == "x" and p == q) for p, q in zip(x, y)) for x, y in zip(a, e))
        if not any(same(actual, e) for e in accept):
            fails.append("history differs from the documented net change")
        # ---- H5
        a_, u_, d_ = actual
        if list(hist.sum()) != a_ + u_ + d_ or list(hist.non_deleted()) != a_ + u_ or list(hist.non_added()) != u_ + d_ \
                or hist.has_changes() != bool(a_ or d_) or hist.empty() != (not (a_ or u_ or d_)):
            fails.append("History.sum/non_deleted/non_added/has_changes/empty disagree with the three members")
        # ---- F: flush persists exactly cur
        changed = bool(accept[0][0] or accept[0][2])
        if not fails:
            try:
                if kind == "transient":
                    s.add(h)
                s.flush()
                hid = 9 if kind == "transient" else 1
                conn = s.connection()
                if attr == "x":
                    dbv = conn.exec_driver_sql(f"select x from hh where id={hid}").scalar()
                    want = cur if present else (None if orig is not UNSET else v0)
                    if dbv != want:
                        fails.append(f"after flush the row holds x={dbv!r}, the attribute holds {want!r}")
                elif attr == "best":
                    dbv = conn.exec_driver_sql(f"select best_id from hh where id={hid}").scalar()
                    if a_ or d_:        # the reference reports a difference: the flush persists it (it wins over a pending foreign-key column write)
                        wantobj = cur if present else None
                        want = None if wantobj is None else wantobj.id
                        if dbv != want:
                            fails.append(f"after flush the row holds best_id={dbv!r}, the attribute holds {tok(wantobj)}")
                    else:               # no difference reported for the reference: the row keeps the foreign key column's own value
                        want = fk if fk is not UNSET else (None if v0 is None else v0.id)
                        if dbv != want:
                            fails.append(f"after flush the row holds best_id={dbv!r}; the reference reports no change and the foreign key column holds {want!r}")
                else:
                    col = {"items": "hl", "tags": "hs", "named": "hd"}[attr]
                    dbv = sorted(r[0] for r in conn.exec_driver_sql(f"select id from ht where {col}={hid}"))
                    want = sorted({c.id for c in (cur if present else v0)})
                    if dbv != want:
                        fails.append(f"after flush rows {dbv} reference the holder through {col}, the collection holds {want}")
                h2 = inspect(h).attrs[attr].history
                if h2.added or h2.deleted:
                    fails.append("history still reports a change after flush")
            except Exception as ex:
                fails.append(f"flush raised {type(ex).__name__}: {str(ex)[:160]}")
        return dict(fails=fails, changed=changed, actual=[toks(x) for x in actual], expected=[[toks(x) for x in e] for e in accept],
                    orig=(orig if isinstance(orig, str) else (toks(orig) if coll else tok(orig))))
    finally:
        s.rollback()
        s.close()


# ----------------------------------------------------------------------------------------------- worker / entry
def _worker(job):
    H.quiet()
    if _G["engine"] is None:
        _G["engine"] = H.new_engine(mappings().Base.metadata)
    attr, kind, variant = job["attr"], job["kind"], job["variant"]
    cat = catalogue(attr)
    res = dict(evaluations=0, nontrivial=0, failures=[], samples=[], fk_column_write_mixed_with_reference_ops=0)
    reset_db(_G["engine"], 0 if kind == "transient" else variant)
    for idxs in H.job_sequences(len(cat), job):
        names = [cat[k][0] for k in idxs]
        r = run_case(attr, kind, variant, names, reset=False)
        res["evaluations"] += 1
        if r["changed"]:
            res["nontrivial"] += 1
        if attr == "best" and any(n.startswith("h.best_id=") for n in names) and any(not n.startswith("h.best_id=") for n in names):
            res["fk_column_write_mixed_with_reference_ops"] += 1
        desc = dict(attr=attr, kind=kind, variant=variant, ops=names, history=r["actual"], expected_one_of=r["expected"], first_write_saw=r["orig"])
        if r["fails"]:
            desc["broken"] = r["fails"]
            res["failures"].append(desc)
        elif r["changed"] and not res["samples"] and len(names) == job["length"]:
            res["samples"].append(desc)
    return res


def lengths_for(tier):
    return (1, 2, 3) if tier == "quick" else (1, 2, 3, 4)


def bounded(run, tier, seed):
    t0 = time.time()
    lengths = lengths_for(tier)
    joblist = []
    for attr in ATTRS:
        n = len(catalogue(attr))
        for kind in KINDS:
            for variant in ((0,) if kind == "transient" else (0, 1)):
                joblist += H.jobs(n, lengths, min_jobs=12, attr=attr, kind=kind, variant=variant)
    if seed:
        import random
        random.Random(seed).shuffle(joblist)
    agg = H.Agg()
    for r in H.run_sharded(_worker, joblist):
        agg.add(r)
    failures = agg.get("failures", [])
    seen = set()
    for d in sorted(failures, key=lambda d: (len(d["ops"]), json.dumps(d, sort_keys=True, default=repr))):
        dj = json.dumps(d, sort_keys=True, default=repr)
        k = run.match_known(function=FN + "/" + d["attr"], input=dj)
        if k is not None:
            run.known_finding(k, "bounded replay on the real functions")
            continue
        cls = (d["attr"], d["kind"], d["ops"][-1], d["broken"][0][:30])
        if cls in seen or len(seen) >= 6:
            continue
        seen.add(cls)
        run.violation(f"history-{d['attr']}-{d['kind']}{d['variant']}-" + "--".join(d["ops"]),
                      dict(function=FN + "/" + d["attr"], input=d, expected=d["expected_one_of"], actual=d["history"], reason="bounded run-time contract check (C36_bounded)"))
    samples = sorted(agg.get("samples", []), key=lambda x: (x["attr"], x["kind"], -len(x["ops"])))
    picked, seen_a = [], set()
    for smp in samples:
        if (smp["attr"], smp["kind"]) not in seen_a and len(picked) < 8:
            seen_a.add((smp["attr"], smp["kind"]))
            picked.append(smp)
    blk = dict(
        scope=f"one holder object with a scalar (x), a many-to-one (best), a list (items), a set (tags) and a keyed dict (named); object persistent-loaded / "
              f"persistent-expired (two committed values each: empty and populated) / transient; ALL mutation sequences of length in {list(lengths)} per attribute over "
              f"{ {a: len(catalogue(a)) for a in ATTRS} } operations (assign incl. set-back-to-original and None, del, expire, append / remove / pop / insert / clear / slice / "
              f"replace / set operators / dict setitem, delitem, pop, update, setdefault, popitem; for the many-to-one also pending writes of its foreign-key column attribute "
              f"h.best_id in {list(FK_VALUES)}, in every position of the sequence); history read with inspect(obj).attrs.<key>.history, then flush on SQLite :memory:",
        evaluations=agg["evaluations"], distinct_nontrivial=agg["nontrivial"],
        rule="each (attribute, object kind, committed value, operation sequence) is enumerated once; non-trivial = the documented net change is not empty "
             "(expected added or deleted non-empty), counted",
        samples=picked, exhaustive=True, label="bounded (not proof)", contract_failures=len(failures),
        sequences_mixing_fk_column_writes_with_reference_operations=agg["fk_column_write_mixed_with_reference_ops"], wall_s=round(time.time() - t0, 1))
    run.coverage.setdefault("bounded", []).append(blk)
    return blk


def replay(data):
    H.quiet()
    d = data["input"]
    eng = H.new_engine(mappings().Base.metadata)
    r = run_case(d["attr"], d["kind"], d["variant"], d["ops"], eng)
    if r["fails"]:
        print(f"REPLAY-FAILS {FN}/{d['attr']} kind={d['kind']} variant={d['variant']} ops={d['ops']} history={r['actual']} expected one of {r['expected']} broken={r['fails']}")
        return 1
    print(f"REPLAY-PASSES {FN}/{d['attr']} kind={d['kind']} variant={d['variant']} ops={d['ops']} history={r['actual']}")
    return 0
