"""C43 — ORM-enabled UPDATE/DELETE keep in-session objects in sync: the three-valued evaluator closures."""
import contracts.evaluator  # noqa: F401
from pyvc.contract import FUNCS
from vlib.proof import run_proofs
from vlib.bounded import run_bounded

LEVEL = "proof"
KEYS = [k for k, c in FUNCS.items() if "C43" in c.props]


def _more_bounded(run, tier, seed):
    import importlib
    importlib.import_module('checks.C43_bounded').bounded(run, tier, seed)


def run(run, tier, seed, args):
    run_proofs(run, KEYS, tier, update_baseline=args.update_baseline, source_root=args.source_root)
    if not args.source_root:
        run_bounded(run, KEYS, tier)
        _more_bounded(run, tier, seed)
    run.assumptions += [
        "SQL three-valued logic as the standard defines it (AND/OR/NOT truth tables) is the oracle",
        "sub-evaluators are pure callables returning None/True/False/_EXPIRED_OBJECT; _NO_OBJECT inputs are not judged",
        "outside: that the database evaluates the same criteria the same way; synchronize_session plumbing in orm/bulk_persistence.py",
    ]
