"""C28 — bounded complement (class B, *not* proof): event listeners fire exactly as registered.

Contract, evaluated on the real event system (sqlalchemy.event: api.listen / api.remove, registry._EventKey, attr._ClsLevelDispatch,
attr._ListenerCollection, attr._EmptyListener, base._Dispatch._update), nothing copied:

  ghost registry   regs : ordered list of live registrations (target, fn, insert, once, named, propagate, fired)
                   L[K] : per class K the ordered ids of the registrations that apply to K (made on K or an ancestor):
                          listen(T) appends to (insert=True: prepends to) L[K] for every existing K <= T; a class defined
                          later starts with its parent's list; remove(T, fn) deletes that registration from every L[K]
                   I[o] : the same per instance
  event.listen(t, "ev", fn, **flags)   ensures  (t, fn) not registered  ==> one new registration;  already registered ==> no change
                                                 ("one registration puts a listener in once")
  event.remove(t, "ev", fn)            ensures  registered ==> exactly that registration leaves, others keep their order;
                                                 not registered ==> InvalidRequestError
  o.dispatch.ev(x)  (o instance of K)  ensures  the recorded invocation sequence == [r in L[K]] ++ [r in I[o]], each once, in order,
                                                 minus once-listeners that already ran; named listeners get {x: value}, others (value,)
  copy.dispatch._update(o.dispatch)    ensures  the copy's instance listeners == [r in I[o] | r.propagate]   (what propagate=True means)

Hierarchy: A, B(A) exist from the start, C(B) is defined by an operation (late-defined subclass); instances a1 : A from the start,
c1 : C once C exists; a fresh instance of B at each dispatch("b_new"); a copy of a1 for dispatch("copy_of_a1").
One shared Events class (a new Events class per history would make every listen() scan all of them: event.base._registrars);
a fresh class hierarchy and fresh functions per history; after each history everything it left in the shared dispatcher and in the
registry is purged by target identity (id() reuse of collected classes / functions would otherwise hit stale registry keys), and the
objects of a batch are kept alive until the batch ends.
"""
import gc
import json
import multiprocessing
import random
import time
import warnings

LABEL = "bounded (not proof)"

TARGETS = ["A", "B", "C", "a1", "c1"]
CLASSES = ("A", "B", "C")
PARENTS = {"A": [], "B": ["A"], "C": ["B", "A"]}
FLAGSETS_FULL = [[], ["insert"], ["once"], ["named"], ["propagate"], ["insert", "once"]]
FLAGSETS_SMALL = [[], ["insert"], ["once"], ["insert", "propagate"]]
FIRES = ["a1", "c1", "b_new", "copy_of_a1"]

_EV = {}


def events_class():
    if "TE" not in _EV:
        warnings.simplefilter("ignore")
        from sqlalchemy import event

        class TargetEvents(event.Events):
            def ev(self, x):
                pass
        _EV["TE"] = TargetEvents
    return _EV["TE"]


def ops_for(fns, flagsets):
    ops = []
    for t in TARGETS:
        for f in fns:
            for fl in flagsets:
                ops.append(["listen", t, f, list(fl)])
    for t in TARGETS:
        for f in fns:
            ops.append(["remove", t, f])
    ops.append(["defC"])
    for t in FIRES:
        ops.append(["fire", t])
    return ops


# ------------------------------------------------------------------------------------------------ ghost registry
class Model:
    def __init__(self):
        self.regs = []                  # dicts
        self.L = {"A": [], "B": []}     # class -> list of reg ids
        self.I = {"a1": []}             # instance -> list of reg ids
        self.notes = []

    def note(self, n):
        if n not in self.notes:
            self.notes.append(n)

    def exists(self, t):
        return t in self.L or t in self.I

    def live(self, t, f):
        for i, r in enumerate(self.regs):
            if r["alive"] and r["target"] == t and r["fn"] == f:
                return i
        return None

    def apply(self, op):
        """-> expected observation.  raises KeyError('n/a') when the op is not applicable"""
        kind = op[0]
        if kind == "defC":
            if "C" in self.L:
                raise KeyError("n/a")
            self.L["C"] = list(self.L["B"])
            self.I["c1"] = []
            return ["ok"]
        if kind == "listen":
            _, t, f, flags = op
            if not self.exists(t):
                raise KeyError("n/a")
            if self.live(t, f) is not None:
                if t in CLASSES:
                    self.note("duplicate-listen-on-class")
                else:
                    self.note("duplicate-listen-on-instance")
                return ["ok"]
            for other in [x for x in CLASSES if x != t and self.live(x, f) is not None and (x in PARENTS.get(t, []) or t in PARENTS.get(x, []))] if t in CLASSES else []:
                self.note("same-fn-on-class-and-ancestor")
            rid = len(self.regs)
            self.regs.append(dict(target=t, fn=f, insert="insert" in flags, once="once" in flags, named="named" in flags, propagate="propagate" in flags, alive=True, fired=False))
            if t in CLASSES:
                for k in self.L:
                    if k == t or t in PARENTS[k]:
                        if "insert" in flags:
                            self.L[k].insert(0, rid)
                        else:
                            self.L[k].append(rid)
            else:
                if "insert" in flags:
                    self.I[t].insert(0, rid)
                else:
                    self.I[t].append(rid)
            return ["ok"]
        if kind == "remove":
            _, t, f = op
            if not self.exists(t):
                raise KeyError("n/a")
            rid = self.live(t, f)
            if rid is None:
                return ["exc", "InvalidRequestError"]
            self.regs[rid]["alive"] = False
            for lst in list(self.L.values()) + list(self.I.values()):
                if rid in lst:
                    lst.remove(rid)
            return ["ok"]
        if kind == "fire":
            t = op[1]
            if t == "c1" and "c1" not in self.I:
                raise KeyError("n/a")
            if t == "a1":
                ids = self.L["A"] + self.I["a1"]
            elif t == "c1":
                ids = self.L["C"] + self.I["c1"]
            elif t == "b_new":
                ids = list(self.L["B"])
            else:
                ids = self.L["A"] + [r for r in self.I["a1"] if self.regs[r]["propagate"]]
            out = []
            for rid in ids:
                r = self.regs[rid]
                if r["once"] and r["fired"]:
                    continue
                r["fired"] = True
                out.append([r["fn"], "named" if r["named"] else "positional"])
            return ["calls", out]
        raise AssertionError(op)


# ------------------------------------------------------------------------------------------------ the real side
class Real:
    def __init__(self, keep):
        from sqlalchemy import event
        TE = events_class()

        class A:
            dispatch = event.dispatcher(TE)

        class B(A):
            pass
        self.env = {"A": A, "B": B, "a1": A()}
        self.calls = []
        self.fns = {}
        self.keep = keep
        self.temps = []
        keep.append(self)

    def fn(self, name):
        if name not in self.fns:
            calls = self.calls

            def listener(*a, **kw):
                calls.append([name, "named" if kw else "positional", list(a), sorted(kw.items())])
            listener.__name__ = name
            self.fns[name] = listener
        return self.fns[name]

    def apply(self, op):
        from sqlalchemy import event, exc
        kind = op[0]
        env = self.env
        if kind == "defC":
            C = type("C", (env["B"],), {})
            env["C"] = C
            env["c1"] = C()
            return ["ok"]
        if kind == "listen":
            _, t, f, flags = op
            try:
                event.listen(env[t], "ev", self.fn(f), **{k: True for k in flags})
            except exc.InvalidRequestError:
                return ["exc", "InvalidRequestError"]
            return ["ok"]
        if kind == "remove":
            _, t, f = op
            try:
                event.remove(env[t], "ev", self.fn(f))
            except exc.InvalidRequestError:
                return ["exc", "InvalidRequestError"]
            return ["ok"]
        if kind == "fire":
            t = op[1]
            if t == "b_new":
                obj = env["B"]()
            elif t == "copy_of_a1":
                obj = env["A"]()
                obj.dispatch._update(env["a1"].dispatch)
            else:
                obj = env[t]
            self.temps.append(obj)
            del self.calls[:]
            obj.dispatch.ev(7)
            bad_args = [c for c in self.calls if (c[1] == "named" and (c[2] or c[3] != [("x", 7)])) or (c[1] == "positional" and (c[2] != [7] or c[3]))]
            out = [[c[0], c[1]] for c in self.calls]
            if bad_args:
                return ["calls", out, "bad-arguments", bad_args]
            return ["calls", out]
        raise AssertionError(op)

    def cleanup(self):
        """isolation between histories (never part of a verdict): one Events class is shared, so everything this history left in the
        class-level dispatcher and in the registry is purged by the identity of its targets.  Events._clear() is not enough: registry._clear
        keeps one key per listener function and leaves the other keys behind (same function on A and on B), and a later history whose
        objects re-use those id()s would then find them."""
        from sqlalchemy.event import registry
        try:
            clsdisp = events_class().dispatch.ev
            for name in CLASSES:
                cls = self.env.get(name)
                if cls is not None:
                    clsdisp._clslevel.pop(cls, None)
            ids = {id(o) for o in self.env.values()} | {id(o) for o in self.temps}
            for key in [k for k in list(registry._key_to_collection) if k[0] in ids]:
                registry._key_to_collection.pop(key, None)
            for owner_ref, l2k in list(registry._collection_to_key.items()):
                for lref in [r for r, k in list(l2k.items()) if k[0] in ids]:
                    l2k.pop(lref, None)
        except Exception as e:  # noqa: BLE001
            _EV.setdefault("cleanup_errors", []).append(repr(e))


def run_history(ops, keep, final=True):
    """-> (steps, failure-or-None, trace)"""
    m = Model()
    real = Real(keep)
    trace = []
    steps = 0
    try:
        seq = [(op, False) for op in ops]
        if final:
            seq += [(["fire", t], True) for t in FIRES]
        for i, (op, is_final) in enumerate(seq):
            try:
                exp = m.apply(op)
            except KeyError:
                if is_final:
                    continue
                return steps, dict(function="harness", input=dict(ops=ops, what="inapplicable operation in history", failing_op=op)), trace
            try:
                got = real.apply(op)
            except Exception as e:  # noqa: BLE001
                got = ["exc", type(e).__name__, str(e)[:120]]
            steps += 1
            trace.append([op, got])
            if got != exp:
                fn = {"listen": "event.listen", "remove": "event.remove", "fire": "dispatch", "defC": "_ClsLevelDispatch.update_subclass"}[op[0]]
                desc = dict(ops=ops, failing_index=i, failing_op=op, final_observation=is_final, expected=exp, got=got, notes=list(m.notes),
                            what="order" if (exp[0] == "calls" and got[0] == "calls" and len(got) == 2 and sorted(map(tuple, exp[1])) == sorted(map(tuple, got[1]))) else "membership-or-outcome")
                return steps, dict(function=fn, input=desc), trace
        return steps, None, trace
    finally:
        real.cleanup()


# ------------------------------------------------------------------------------------------------ enumeration
def histories(first_op, length, ops):
    """all applicable op sequences of length <= `length` starting with first_op"""
    out = []

    def rec(prefix, depth, has_c):
        for op in (ops if prefix else [first_op]):
            needs_c = (op[0] in ("listen", "remove") and op[1] in ("C", "c1")) or (op[0] == "fire" and op[1] == "c1")
            if needs_c and not has_c:
                continue
            if op[0] == "defC" and has_c:
                continue
            seq = prefix + [op]
            out.append(seq)
            if depth + 1 < length:
                rec(seq, depth + 1, has_c or op[0] == "defC")
    rec([], 0, False)
    return out


def nontrivial(trace):
    """at least one dispatch invoked two or more listeners, or a remove / once took effect"""
    for op, got in trace:
        if got[0] == "calls" and len(got[1]) >= 2:
            return True
    return False


def _work(task):
    first_op, length, ops = task
    keep = []
    steps = n = nt = 0
    fails = {}
    nfail = 0
    for seq in histories(first_op, length, ops):
        s, f, trace = run_history(seq, keep)
        steps += s
        n += 1
        if nontrivial(trace):
            nt += 1
        if f is not None:
            nfail += 1
            cls = (f["function"], f["input"].get("what"), json.dumps(f["input"].get("notes")), f["input"].get("final_observation"))
            lst = fails.setdefault(cls, [])
            if len(lst) < 3:
                lst.append(f)
        if len(keep) > 400:     # bounded: _Dispatch._clear() walks every class still alive
            keep.clear()
            gc.collect()
    keep.clear()
    return dict(histories=n, steps=steps, nontrivial=nt, nfail=nfail, fails=[x for l in fails.values() for x in l])


def scope_for(tier):
    if tier == "thorough":
        return [dict(length=3, fns=["f", "g", "h"], flagsets=FLAGSETS_FULL), dict(length=4, fns=["f", "g"], flagsets=FLAGSETS_SMALL)]
    return [dict(length=3, fns=["f", "g"], flagsets=FLAGSETS_FULL)]


def bounded(run, tier, seed):
    t0 = time.time()
    events_class()
    tasks = []
    scopes = scope_for(tier)
    for sc in scopes:
        ops = ops_for(sc["fns"], sc["flagsets"])
        sc["ops"] = len(ops)
        for op in ops:
            if (op[0] in ("listen", "remove") and op[1] in ("C", "c1")) or op == ["fire", "c1"]:
                continue
            tasks.append((op, sc["length"], ops))
    random.Random(seed).shuffle(tasks)
    ctx = multiprocessing.get_context("fork")
    with ctx.Pool(min(16, multiprocessing.cpu_count()), maxtasksperchild=2) as pool:
        results = pool.map(_work, tasks, chunksize=1)
    nh = sum(r["histories"] for r in results)
    steps = sum(r["steps"] for r in results)
    nt = sum(r["nontrivial"] for r in results)
    nfail = sum(r["nfail"] for r in results)
    fails = sorted((f for r in results for f in r["fails"]), key=lambda f: (len(f["input"]["ops"]), json.dumps(f["input"], sort_keys=True, default=repr)))
    seen = set()
    known_hits = 0
    for f in fails:
        dj = json.dumps(f["input"], sort_keys=True, default=repr)
        k = run.match_known(function=f["function"], input=dj)
        if k is not None:
            run.known_finding(k, "bounded listen/remove/dispatch histories on the real event system")
            known_hits += 1
            continue
        cls = (f["function"], f["input"].get("what"), json.dumps(f["input"].get("notes")))
        if cls in seen or len(seen) >= 10:
            continue
        seen.add(cls)
        run.violation("C28b-%s-%08d" % (f["function"].replace(".", "_"), abs(hash(dj)) % 10 ** 8),
                      dict(function=f["function"], input=f["input"], expected=f["input"].get("expected"), actual=f["input"].get("got"),
                           reason="listener invocation sequence / listen / remove outcome differs from the registry model", replay_module="checks.C28_bounded"))
    keep = []
    samples = []
    for ops_ in ([["listen", "A", "f", []], ["defC"], ["listen", "B", "g", ["insert"]], ["listen", "c1", "f", ["once"]]],
                 [["listen", "a1", "f", ["propagate"]], ["listen", "a1", "g", []], ["remove", "a1", "g"]]):
        s, f, trace = run_history(ops_, keep)
        samples.append(dict(ops=ops_, observed=trace, agrees_with_model=f is None))
    if nh == 0 or nt < 2:
        run.crashes.append("C28 bounded: vacuous enumeration")
    blk = dict(
        function="event.listen / event.remove / dispatch (_ClsLevelDispatch, _ListenerCollection, _EmptyListener, _Dispatch._update, registry)",
        scope="; ".join("all applicable histories of length <= %d over %d operations (listen on {A, B, late C, instance a1, instance c1} x listeners %s x flag sets %s; "
                        "remove on the same targets; define C(B) late; dispatch on a1 / c1 / a new B() / a propagate-copy of a1), each followed by a dispatch on all four"
                        % (sc["length"], sc["ops"], sc["fns"], sc["flagsets"]) for sc in scopes),
        evaluations=steps, histories=nh, distinct_nontrivial=nt,
        rule="histories enumerated exhaustively (operations on C / c1 only after C is defined); distinct by construction; non-trivial when at least one dispatch "
             "invoked two or more listeners",
        samples=samples, exhaustive=True, label=LABEL, contract_failures=nfail, known_finding_cases=known_hits, wall_s=round(time.time() - t0, 1))
    run.coverage.setdefault("bounded", []).append(blk)
    return blk


def replay(data):
    inp = data["input"]
    keep = []
    s, f, trace = run_history(inp["ops"], keep)
    if f is not None:
        print(f"REPLAY-FAILS {f['function']} ops={inp['ops']} at={f['input'].get('failing_op')} expected={f['input'].get('expected')} got={f['input'].get('got')}")
        return 1
    print(f"REPLAY-PASSES ops={inp['ops']} trace={trace}")
    return 0
