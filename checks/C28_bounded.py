"""C28 — bounded complement (class B, *not* proof): event listeners fire exactly as registered.

Contract, evaluated on the real event system (sqlalchemy.event: api.listen / api.remove, registry._EventKey, attr._ClsLevelDispatch,
attr._ListenerCollection, attr._EmptyListener, base._Dispatch._update), nothing copied:

  ghost registry   regs : ordered list of live registrations (target, fn, insert, once, named, propagate, fired)
                   L[K] : per class K the ordered ids of the registrations that apply to K (made on K or an ancestor):
                          listen(T) appends to (insert=True: prepends to) L[K] for every existing K <= T; a class defined
                          later starts with its parent's list; remove(T, fn) deletes that registration from every L[K]
                   I[o] : the same per instance
  event.listen(t, "ev", fn, **flags)   ensures  (t, fn) not registered  ==> one new registration;  already registered ==> no change
                                                 ("one registration puts a listener in once")
  event.remove(t, "ev", fn)            ensures  registered ==> exactly that registration leaves, others keep their order;
                                                 not registered ==> InvalidRequestError
  o.dispatch.ev(x)  (o instance of K)  ensures  the recorded invocation sequence == [r in L[K]] ++ [r in I[o]], each once, in order,
                                                 minus once-listeners that already ran; named listeners get {x: value}, others (value,)
  copy.dispatch._update(o.dispatch)    ensures  the copy's instance listeners == [r in I[o] | r.propagate]   (what propagate=True means)

Hierarchy: A, B(A) exist from the start, C(B) is defined by an operation (late-defined subclass); instances a1 : A from the start,
c1 : C once C exists; a fresh instance of B at each dispatch("b_new"); a copy of a1 for dispatch("copy_of_a1").
One shared Events class (a new Events class per history would make every listen() scan all of them: event.base._registrars);
a fresh class hierarchy and fresh functions per history; after each history everything it left in the shared dispatcher and in the
registry is purged by target identity (id() reuse of collected classes / functions would otherwise hit stale registry keys), and the
objects of a batch are kept alive until the batch ends.

OVERLAPPING DISPATCH (second coverage block; functions ``ov_*`` / ``overlapping``).  The histories above dispatch one event after the
other.  "Once-only and first-connect listeners run at most once even when dispatched concurrently" and "each once" also speak about
dispatches that OVERLAP.  Scope: one instance a1 of a fresh class A; every list of <= 2 (thorough: 3) listeners, each registered on
{A, a1} as {plain, once=True, _once_unless_exception=True (the registration the engine uses for first-connect listeners)}; two
dispatches on a1 by every pair of methods {plain call, exec_once, exec_once_unless_exception, _exec_w_sync_on_first_run} (the latter
three through ``for_modify`` as the pool / engine call them);
  nested      one thread; each listener is {plain | dispatches the event again from inside its first invocation | raises in its first
              invocation}; the two dispatches follow each other, the overlap comes from the re-dispatching listeners
  concurrent  two REAL threads under a forced schedule: exactly one listener parks inside its first invocation (threading.Event), the
              second thread then dispatches and either runs to its end or is observed waiting for the collection's exec-once mutex
              (``threading.Lock`` as seen by event/attr.py is wrapped for the duration of the scenario so that a thread that has to wait
              reports it — no sleeping; all waits bounded, daemon threads, joins with time-out), then the first is released; a later
              plain dispatch by the main thread closes the scenario
Contract (``OvModel``): a dispatch that runs the listeners invokes, in order (class-level, then instance-level, registration order),
every registered listener exactly once, EXCEPT a once / once-unless-exception listener of which an invocation has already STARTED
(finished or still in progress, in this or another thread) — that one is not invoked; a once-unless-exception listener whose invocation
ended with an exception may be invoked again.  exec_once / exec_once_unless_exception run the listeners only if the collection was not
executed before (an execution that raised counts for exec_once, not for exec_once_unless_exception); two dispatches that both go through
the collection's mutex do not overlap (the second starts after the first ended); _exec_w_sync_on_first_run and a plain call always run
the listeners.  The verdict is the equality of the recorded (thread, listener) invocation sequence and of each dispatch's outcome
(returned / raised) with the ghost's.  Outside: re-entrant exec_once (the non-re-entrant mutex blocks by design), asyncio locks.
"""
import gc
import json
import multiprocessing
import random
import threading
import time
import warnings
import zlib

LABEL = "bounded (not proof)"

TARGETS = ["A", "B", "C", "a1", "c1"]
CLASSES = ("A", "B", "C")
PARENTS = {"A": [], "B": ["A"], "C": ["B", "A"]}
FLAGSETS_FULL = [[], ["insert"], ["once"], ["named"], ["propagate"], ["insert", "once"]]
FLAGSETS_SMALL = [[], ["insert"], ["once"], ["insert", "propagate"]]
FIRES = ["a1", "c1", "b_new", "copy_of_a1"]

_EV = {}


def events_class():
    if "TE" not in _EV:
        warnings.simplefilter("ignore")
        from sqlalchemy import event

        class TargetEvents(event.Events):
            def ev(self, x):
                pass
        _EV["TE"] = TargetEvents
    return _EV["TE"]


def ops_for(fns, flagsets):
    ops = []
    for t in TARGETS:
        for f in fns:
            for fl in flagsets:
                ops.append(["listen", t, f, list(fl)])
    for t in TARGETS:
        for f in fns:
            ops.append(["remove", t, f])
    ops.append(["defC"])
    for t in FIRES:
        ops.append(["fire", t])
    return ops


# ------------------------------------------------------------------------------------------------ ghost registry
class Model:
    def __init__(self):
        self.regs = []                  # dicts
        self.L = {"A": [], "B": []}     # class -> list of reg ids
        self.I = {"a1": []}             # instance -> list of reg ids
        self.notes = []

    def note(self, n):
        if n not in self.notes:
            self.notes.append(n)

    def exists(self, t):
        return t in self.L or t in self.I

    def live(self, t, f):
        for i, r in enumerate(self.regs):
            if r["alive"] and r["target"] == t and r["fn"] == f:
                return i
        return None

    def apply(self, op):
        """-> expected observation.  raises KeyError('n/a') when the op is not applicable"""
        kind = op[0]
        if kind == "defC":
            if "C" in self.L:
                raise KeyError("n/a")
            self.L["C"] = list(self.L["B"])
            self.I["c1"] = []
            return ["ok"]
        if kind == "listen":
            _, t, f, flags = op
            if not self.exists(t):
                raise KeyError("n/a")
            if self.live(t, f) is not None:
                if t in CLASSES:
                    self.note("duplicate-listen-on-class")
                else:
                    self.note("duplicate-listen-on-instance")
                return ["ok"]
            for other in [x for x in CLASSES if x != t and self.live(x, f) is not None and (x in PARENTS.get(t, []) or t in PARENTS.get(x, []))] if t in CLASSES else []:
                self.note("same-fn-on-class-and-ancestor")
            rid = len(self.regs)
            self.regs.append(dict(target=t, fn=f, insert="insert" in flags, once="once" in flags, named="named" in flags, propagate="propagate" in flags, alive=True, fired=False))
            if t in CLASSES:
                for k in self.L:
                    if k == t or t in PARENTS[k]:
                        if "insert" in flags:
                            self.L[k].insert(0, rid)
                        else:
                            self.L[k].append(rid)
            else:
                if "insert" in flags:
                    self.I[t].insert(0, rid)
                else:
                    self.I[t].append(rid)
            return ["ok"]
        if kind == "remove":
            _, t, f = op
            if not self.exists(t):
                raise KeyError("n/a")
            rid = self.live(t, f)
            if rid is None:
                return ["exc", "InvalidRequestError"]
            self.regs[rid]["alive"] = False
            for lst in list(self.L.values()) + list(self.I.values()):
                if rid in lst:
                    lst.remove(rid)
            return ["ok"]
        if kind == "fire":
            t = op[1]
            if t == "c1" and "c1" not in self.I:
                raise KeyError("n/a")
            if t == "a1":
                ids = self.L["A"] + self.I["a1"]
            elif t == "c1":
                ids = self.L["C"] + self.I["c1"]
            elif t == "b_new":
                ids = list(self.L["B"])
            else:
                ids = self.L["A"] + [r for r in self.I["a1"] if self.regs[r]["propagate"]]
            out = []
            for rid in ids:
                r = self.regs[rid]
                if r["once"] and r["fired"]:
                    continue
                r["fired"] = True
                out.append([r["fn"], "named" if r["named"] else "positional"])
            return ["calls", out]
        raise AssertionError(op)


# ------------------------------------------------------------------------------------------------ the real side
class Real:
    def __init__(self, keep):
        from sqlalchemy import event
        TE = events_class()

        class A:
            dispatch = event.dispatcher(TE)

        class B(A):
            pass
        self.env = {"A": A, "B": B, "a1": A()}
        self.calls = []
        self.fns = {}
        self.keep = keep
        self.temps = []
        keep.append(self)

    def fn(self, name):
        if name not in self.fns:
            calls = self.calls

            def listener(*a, **kw):
                calls.append([name, "named" if kw else "positional", list(a), sorted(kw.items())])
            listener.__name__ = name
            self.fns[name] = listener
        return self.fns[name]

    def apply(self, op):
        from sqlalchemy import event, exc
        kind = op[0]
        env = self.env
        if kind == "defC":
            C = type("C", (env["B"],), {})
            env["C"] = C
            env["c1"] = C()
            return ["ok"]
        if kind == "listen":
            _, t, f, flags = op
            try:
                event.listen(env[t], "ev", self.fn(f), **{k: True for k in flags})
            except exc.InvalidRequestError:
                return ["exc", "InvalidRequestError"]
            return ["ok"]
        if kind == "remove":
            _, t, f = op
            try:
                event.remove(env[t], "ev", self.fn(f))
            except exc.InvalidRequestError:
                return ["exc", "InvalidRequestError"]
            return ["ok"]
        if kind == "fire":
            t = op[1]
            if t == "b_new":
                obj = env["B"]()
            elif t == "copy_of_a1":
                obj = env["A"]()
                obj.dispatch._update(env["a1"].dispatch)
            else:
                obj = env[t]
            self.temps.append(obj)
            del self.calls[:]
            obj.dispatch.ev(7)
            bad_args = [c for c in self.calls if (c[1] == "named" and (c[2] or c[3] != [("x", 7)])) or (c[1] == "positional" and (c[2] != [7] or c[3]))]
            out = [[c[0], c[1]] for c in self.calls]
            if bad_args:
                return ["calls", out, "bad-arguments", bad_args]
            return ["calls", out]
        raise AssertionError(op)

    def cleanup(self):
        """isolation between histories (never part of a verdict): one Events class is shared, so everything this history left in the
        class-level dispatcher and in the registry is purged by the identity of its targets.  Events._clear() is not enough: registry._clear
        keeps one key per listener function and leaves the other keys behind (same function on A and on B), and a later history whose
        objects re-use those id()s would then find them."""
        from sqlalchemy.event import registry
        try:
            clsdisp = events_class().dispatch.ev
            for name in CLASSES:
                cls = self.env.get(name)
                if cls is not None:
                    clsdisp._clslevel.pop(cls, None)
            ids = {id(o) for o in self.env.values()} | {id(o) for o in self.temps}
            for key in [k for k in list(registry._key_to_collection) if k[0] in ids]:
                registry._key_to_collection.pop(key, None)
            for owner_ref, l2k in list(registry._collection_to_key.items()):
                for lref in [r for r, k in list(l2k.items()) if k[0] in ids]:
                    l2k.pop(lref, None)
        except Exception as e:  # noqa: BLE001
            _EV.setdefault("cleanup_errors", []).append(repr(e))


def run_history(ops, keep, final=True):
    """-> (steps, failure-or-None, trace)"""
    m = Model()
    real = Real(keep)
    trace = []
    steps = 0
    try:
        seq = [(op, False) for op in ops]
        if final:
            seq += [(["fire", t], True) for t in FIRES]
        for i, (op, is_final) in enumerate(seq):
            try:
                exp = m.apply(op)
            except KeyError:
                if is_final:
                    continue
                return steps, dict(function="harness", input=dict(ops=ops, what="inapplicable operation in history", failing_op=op)), trace
            try:
                got = real.apply(op)
            except Exception as e:  # noqa: BLE001
                got = ["exc", type(e).__name__, str(e)[:120]]
            steps += 1
            trace.append([op, got])
            if got != exp:
                fn = {"listen": "event.listen", "remove": "event.remove", "fire": "dispatch", "defC": "_ClsLevelDispatch.update_subclass"}[op[0]]
                desc = dict(ops=ops, failing_index=i, failing_op=op, final_observation=is_final, expected=exp, got=got, notes=list(m.notes),
                            what="order" if (exp[0] == "calls" and got[0] == "calls" and len(got) == 2 and sorted(map(tuple, exp[1])) == sorted(map(tuple, got[1]))) else "membership-or-outcome")
                return steps, dict(function=fn, input=desc), trace
        return steps, None, trace
    finally:
        real.cleanup()


# ------------------------------------------------------------------------------------------------ enumeration
def histories(first_op, length, ops):
    """all applicable op sequences of length <= `length` starting with first_op"""
    out = []

    def rec(prefix, depth, has_c):
        for op in (ops if prefix else [first_op]):
            needs_c = (op[0] in ("listen", "remove") and op[1] in ("C", "c1")) or (op[0] == "fire" and op[1] == "c1")
            if needs_c and not has_c:
                continue
            if op[0] == "defC" and has_c:
                continue
            seq = prefix + [op]
            out.append(seq)
            if depth + 1 < length:
                rec(seq, depth + 1, has_c or op[0] == "defC")
    rec([], 0, False)
    return out


def nontrivial(trace):
    """at least one dispatch invoked two or more listeners, or a remove / once took effect"""
    for op, got in trace:
        if got[0] == "calls" and len(got[1]) >= 2:
            return True
    return False


def _work(task):
    first_op, length, ops = task
    keep = []
    steps = n = nt = 0
    fails = {}
    nfail = 0
    for seq in histories(first_op, length, ops):
        s, f, trace = run_history(seq, keep)
        steps += s
        n += 1
        if nontrivial(trace):
            nt += 1
        if f is not None:
            nfail += 1
            cls = (f["function"], f["input"].get("what"), json.dumps(f["input"].get("notes")), f["input"].get("final_observation"))
            lst = fails.setdefault(cls, [])
            if len(lst) < 3:
                lst.append(f)
        if len(keep) > 400:     # bounded: _Dispatch._clear() walks every class still alive
            keep.clear()
            gc.collect()
    keep.clear()
    return dict(histories=n, steps=steps, nontrivial=nt, nfail=nfail, fails=[x for l in fails.values() for x in l])


def scope_for(tier):
    if tier == "thorough":
        return [dict(length=3, fns=["f", "g", "h"], flagsets=FLAGSETS_FULL), dict(length=4, fns=["f", "g"], flagsets=FLAGSETS_SMALL)]
    return [dict(length=3, fns=["f", "g"], flagsets=FLAGSETS_FULL)]


def bounded(run, tier, seed):
    t0 = time.time()
    events_class()
    tasks = []
    scopes = scope_for(tier)
    for sc in scopes:
        ops = ops_for(sc["fns"], sc["flagsets"])
        sc["ops"] = len(ops)
        for op in ops:
            if (op[0] in ("listen", "remove") and op[1] in ("C", "c1")) or op == ["fire", "c1"]:
                continue
            tasks.append((op, sc["length"], ops))
    random.Random(seed).shuffle(tasks)
    ctx = multiprocessing.get_context("fork")
    with ctx.Pool(min(16, multiprocessing.cpu_count()), maxtasksperchild=2) as pool:
        results = pool.map(_work, tasks, chunksize=1)
    nh = sum(r["histories"] for r in results)
    steps = sum(r["steps"] for r in results)
    nt = sum(r["nontrivial"] for r in results)
    nfail = sum(r["nfail"] for r in results)
    fails = sorted((f for r in results for f in r["fails"]), key=lambda f: (len(f["input"]["ops"]), json.dumps(f["input"], sort_keys=True, default=repr)))
    seen = set()
    known_hits = 0
    for f in fails:
        dj = json.dumps(f["input"], sort_keys=True, default=repr)
        k = run.match_known(function=f["function"], input=dj)
        if k is not None:
            run.known_finding(k, "bounded listen/remove/dispatch histories on the real event system")
            known_hits += 1
            continue
        cls = (f["function"], f["input"].get("what"), json.dumps(f["input"].get("notes")))
        if cls in seen or len(seen) >= 10:
            continue
        seen.add(cls)
        run.violation("C28b-%s-%08d" % (f["function"].replace(".", "_"), abs(hash(dj)) % 10 ** 8),
                      dict(function=f["function"], input=f["input"], expected=f["input"].get("expected"), actual=f["input"].get("got"),
                           reason="listener invocation sequence / listen / remove outcome differs from the registry model", replay_module="checks.C28_bounded",
                           bounded_module="checks.C28_bounded"))
    keep = []
    samples = []
    for ops_ in ([["listen", "A", "f", []], ["defC"], ["listen", "B", "g", ["insert"]], ["listen", "c1", "f", ["once"]]],
                 [["listen", "a1", "f", ["propagate"]], ["listen", "a1", "g", []], ["remove", "a1", "g"]]):
        s, f, trace = run_history(ops_, keep)
        samples.append(dict(ops=ops_, observed=trace, agrees_with_model=f is None))
    if nh == 0 or nt < 2:
        run.crashes.append("C28 bounded: vacuous enumeration")
    blk = dict(
        function="event.listen / event.remove / dispatch (_ClsLevelDispatch, _ListenerCollection, _EmptyListener, _Dispatch._update, registry)",
        scope="; ".join("all applicable histories of length <= %d over %d operations (listen on {A, B, late C, instance a1, instance c1} x listeners %s x flag sets %s; "
                        "remove on the same targets; define C(B) late; dispatch on a1 / c1 / a new B() / a propagate-copy of a1), each followed by a dispatch on all four"
                        % (sc["length"], sc["ops"], sc["fns"], sc["flagsets"]) for sc in scopes),
        evaluations=steps, histories=nh, distinct_nontrivial=nt,
        rule="histories enumerated exhaustively (operations on C / c1 only after C is defined); distinct by construction; non-trivial when at least one dispatch "
             "invoked two or more listeners",
        samples=samples, exhaustive=True, label=LABEL, contract_failures=nfail, known_finding_cases=known_hits, wall_s=round(time.time() - t0, 1))
    run.coverage.setdefault("bounded", []).append(blk)
    overlapping(run, tier)
    return blk


# ================================================================================================ overlapping dispatch
# Second part (see the module docstring, "OVERLAPPING DISPATCH"): dispatches that overlap — re-entrantly (a listener dispatches the
# same event again) or from two threads under a forced schedule — over listener kinds {plain, once=True, _once_unless_exception=True
# (how first-connect listeners are registered)} and dispatch methods {plain call, exec_once, exec_once_unless_exception,
# _exec_w_sync_on_first_run}.
OV_TARGETS = ["A", "a1"]
OV_FLAGS = ["plain", "once", "once_ue"]
OV_METHODS = ["call", "exec_once", "exec_once_ue", "sync_first"]
OV_BOUND = 10.0         # every wait of the harness is bounded
OV_FUNCTION = "dispatch (overlapping: re-entrant / two threads)"


class _ModelRaise(Exception):
    pass


class OvError(Exception):
    """raised by a 'raise' listener"""


class _HarnessTimeout(Exception):
    pass


class OvModel:
    """ghost: which listener invocations a dispatch makes.  A once / once-unless-exception listener is CLAIMED from the moment an
    invocation of it starts (at most one invocation ever starts; once-unless-exception: it is released again when that invocation
    ends with an exception).  exec_once / exec_once_unless_exception run the listeners only if the collection has not been executed
    (exec_once: an execution that raised counts, exec_once_unless_exception: it does not); _exec_w_sync_on_first_run and a plain call
    always run them.  Order: class-level registrations, then instance-level ones, each in registration order."""

    def __init__(self, regs):
        self.regs = [dict(fn=f, target=t, flag=fl, beh=b, claimed=False, n=0) for f, t, fl, b in regs]
        self.order = [r for r in self.regs if r["target"] == "A"] + [r for r in self.regs if r["target"] == "a1"]
        self.executed = False
        self.log = []
        self.overlap_skips = 0      # a once-type listener skipped by a dispatch that runs while another dispatch is in progress
        self.active = 0             # dispatches in progress (nested or parked)

    def run_listeners(self, who):
        self.active += 1
        try:
            for r in self.order:
                if r["flag"] != "plain":
                    if r["claimed"]:
                        if self.active >= 2:
                            self.overlap_skips += 1
                        continue
                    r["claimed"] = True
                r["n"] += 1
                first = r["n"] == 1
                self.log.append([who, r["fn"]])
                try:
                    if first and r["beh"] == "nest":
                        yield from self.run_listeners(who)
                    elif first and r["beh"] == "raise":
                        raise _ModelRaise()
                    elif first and r["beh"] == "block":
                        yield "park"
                except _ModelRaise:
                    if r["flag"] == "once_ue":
                        r["claimed"] = False
                    raise
        finally:
            self.active -= 1

    def dispatch(self, m, who):
        if m in ("exec_once", "exec_once_ue"):
            if self.executed:
                return
            try:
                yield from self.run_listeners(who)
            except _ModelRaise:
                if m == "exec_once":
                    self.executed = True
                raise
            self.executed = True
        else:
            yield from self.run_listeners(who)

    def drive(self, gen):
        """run a dispatch to its end or to its park point -> 'done' | 'raised' | 'parked'"""
        try:
            for _ in gen:
                return "parked"
        except _ModelRaise:
            return "raised"
        return "done"


def ov_expected(kind, regs, methods):
    m = OvModel(regs)
    outcomes = []
    if kind == "nested":
        for meth in methods:
            outcomes.append(m.drive(m.dispatch(meth, "main")))
    else:
        g1 = m.dispatch(methods[0], "t1")
        st = m.drive(g1)
        assert st == "parked", st
        deferred = methods[0] != "call" and methods[1] != "call"      # both go through the collection's mutex
        if not deferred:
            outcomes.append(["t2", m.drive(m.dispatch(methods[1], "t2"))])
        outcomes.append(["t1", m.drive(g1)])
        if deferred:
            outcomes.append(["t2", m.drive(m.dispatch(methods[1], "t2"))])
        outcomes.append(["main", m.drive(m.dispatch("call", "main"))])
    return dict(log=m.log, outcomes=outcomes), m.overlap_skips


class _TracedLock:
    """what event/attr.py gets from ``threading.Lock()`` while a two-thread scenario runs: a real lock that reports a thread that
    has to wait for it (so the schedule can go on without sleeping) and never waits unboundedly"""

    def __init__(self, sync, state):
        self._l = threading.Lock()
        self._sync, self._state = sync, state

    def __enter__(self):
        if self._l.acquire(blocking=False):
            return self
        with self._sync:
            self._state[threading.current_thread().name] = "blocked-on-mutex"
            self._sync.notify_all()
        if not self._l.acquire(timeout=OV_BOUND):
            raise _HarnessTimeout("exec-once mutex not released within the bound")
        return self

    def __exit__(self, *a):
        self._l.release()


class _ThreadingShim:
    def __init__(self, lock_factory):
        self.Lock = lock_factory

    def __getattr__(self, name):
        return getattr(threading, name)


class OvReal:
    def __init__(self, regs, keep):
        from sqlalchemy import event
        TE = events_class()

        class A:
            dispatch = event.dispatcher(TE)
        self.env = {"A": A, "a1": A()}
        self.temps = []
        self.log = []
        self.inside = threading.Event()
        self.release = threading.Event()
        keep.append(self)
        for f, t, fl, b in regs:
            kw = {"once": {"once": True}, "once_ue": {"_once_unless_exception": True}, "plain": {}}[fl]
            event.listen(self.env[t], "ev", self._listener(f, b), **kw)

    def _listener(self, name, beh):
        st = {"n": 0}
        log, a1, inside, release = self.log, self.env["a1"], self.inside, self.release

        def listener(x):
            st["n"] += 1
            first = st["n"] == 1
            log.append([threading.current_thread().name if threading.current_thread() is not threading.main_thread() else "main", name])
            if first and beh == "nest":
                a1.dispatch.ev(7)
            elif first and beh == "raise":
                raise OvError(name)
            elif first and beh == "block":
                inside.set()
                if not release.wait(OV_BOUND):
                    log.append(["harness", "release-timeout"])
        listener.__name__ = name
        return listener

    def dispatch(self, m):
        """-> 'done' | 'raised'"""
        a1 = self.env["a1"]
        try:
            if m == "call":
                a1.dispatch.ev(7)
            else:
                coll = a1.dispatch.ev.for_modify(a1.dispatch)
                {"exec_once": coll.exec_once, "exec_once_ue": coll.exec_once_unless_exception,
                 "sync_first": coll._exec_w_sync_on_first_run}[m](7)
        except OvError:
            return "raised"
        return "done"


def ov_observed(kind, regs, methods, keep):
    """-> (observation dict, inconclusive-or-None)"""
    from sqlalchemy.event import attr as sa_attr
    real = OvReal(regs, keep)
    try:
        if kind == "nested":
            outcomes = [real.dispatch(m) for m in methods]
            return dict(log=real.log, outcomes=outcomes), None
        sync = threading.Condition()
        state = {}
        finished = []
        orig = sa_attr.threading
        sa_attr.threading = _ThreadingShim(lambda: _TracedLock(sync, state))
        try:
            def body(m):
                name = threading.current_thread().name
                try:
                    res = real.dispatch(m)
                except BaseException as e:  # noqa: BLE001 — reported, the thread must end
                    res = "exc:" + type(e).__name__
                finished.append([name, res])
                with sync:
                    state[name] = "done"
                    sync.notify_all()
            t1 = threading.Thread(target=body, args=(methods[0],), name="t1", daemon=True)
            t2 = threading.Thread(target=body, args=(methods[1],), name="t2", daemon=True)
            t1.start()
            if not real.inside.wait(OV_BOUND):
                real.release.set()
                t1.join(OV_BOUND)
                return None, "the first dispatch never reached the blocking listener"
            t2.start()
            with sync:
                ok = sync.wait_for(lambda: state.get("t2") in ("done", "blocked-on-mutex"), OV_BOUND)
            real.release.set()
            t1.join(OV_BOUND)
            t2.join(OV_BOUND)
            if not ok or t1.is_alive() or t2.is_alive():
                return None, "a dispatching thread neither finished nor blocked on the exec-once mutex within the bound"
        finally:
            real.release.set()
            sa_attr.threading = orig
        finished.append(["main", real.dispatch("call")])
        return dict(log=real.log, outcomes=finished), None
    finally:
        Real.cleanup(real)


_OV_CACHE = {}


def ov_scenarios(tier):
    """(kind, regs, methods) enumerated once each"""
    if tier not in _OV_CACHE:
        _OV_CACHE[tier] = _ov_scenarios(tier)       # computed in the parent before the fork: the workers inherit it
    return _OV_CACHE[tier]


def _ov_scenarios(tier):
    names = ["f", "g", "h"]
    out = []
    pairs = [(a, b) for a in OV_METHODS for b in OV_METHODS]

    def reglists(n, behs):
        opts = [(t, fl, b) for t in OV_TARGETS for fl in OV_FLAGS for b in behs]

        def rec(prefix):
            if prefix:
                yield prefix
            if len(prefix) < n:
                for o in opts:
                    yield from rec(prefix + [o])
        yield from rec([])
    nmax = 2 if tier == "quick" else 3
    for rl in reglists(nmax, ["plain", "nest", "raise"]):
        regs = [[names[i], t, fl, b] for i, (t, fl, b) in enumerate(rl)]
        for mp in pairs:
            out.append(("nested", regs, list(mp)))
    for rl in reglists(nmax, ["plain", "block"]):
        if sum(1 for o in rl if o[2] == "block") != 1:
            continue
        regs = [[names[i], t, fl, b] for i, (t, fl, b) in enumerate(rl)]
        for mp in pairs:
            out.append(("concurrent", regs, list(mp)))
    return out


def ov_run_one(kind, regs, methods, keep):
    exp, skips = ov_expected(kind, regs, methods)
    got, inconclusive = ov_observed(kind, regs, methods, keep)
    if inconclusive:
        got, inconclusive = ov_observed(kind, regs, methods, keep)
    if inconclusive:
        return dict(inconclusive=inconclusive), skips
    if kind == "concurrent":
        # the order in which the two threads END is not part of the contract; the order of listener invocations is
        exp = dict(exp, outcomes=sorted(exp["outcomes"]))
        got = dict(got, outcomes=sorted(got["outcomes"]))
    if got != exp:
        n_exp = {}
        for who, f in exp["log"]:
            n_exp[f] = n_exp.get(f, 0) + 1
        n_got = {}
        for who, f in got["log"]:
            n_got[f] = n_got.get(f, 0) + 1
        once_names = [r[0] for r in regs if r[2] != "plain"]
        what = ("once-listener-ran-more-often-than-allowed" if any(n_got.get(f, 0) > n_exp.get(f, 0) for f in once_names)
                else "invocation-count" if n_got != n_exp else "order-or-outcome")
        return dict(failure=dict(kind=kind, regs=regs, methods=methods, expected=exp, got=got, what=what)), skips
    return {}, skips


def _ov_work(task):
    tier, lo, hi = task
    keep = []
    res = dict(n=0, nontrivial=0, skips=0, by_kind={}, fails=[], inconclusive=[], nfail=0)
    smallest = {}
    sc = ov_scenarios(tier)
    for kind, regs, methods in sc[lo:hi]:
        r, skips = ov_run_one(kind, regs, methods, keep)
        res["n"] += 1
        res["by_kind"][kind] = res["by_kind"].get(kind, 0) + 1
        if skips:
            res["nontrivial"] += 1
            res["skips"] += skips
        if r.get("failure"):
            res["nfail"] += 1
            f = r["failure"]
            cls = (f["kind"], f["what"])
            size = (len(f["regs"]), sum(1 for x in f["regs"] if x[3] != "plain"), sum(1 for x in f["regs"] if x[2] != "plain"))
            if cls not in smallest or size < smallest[cls][0]:      # per class the smallest failing scenario of this chunk
                smallest[cls] = (size, f)
        if r.get("inconclusive"):
            res["inconclusive"].append(dict(kind=kind, regs=regs, methods=methods, why=r["inconclusive"]))
        if len(keep) > 400:
            keep.clear()
            gc.collect()
    keep.clear()
    res["fails"] = [f for _, f in smallest.values()]
    return res


def overlapping(run, tier):
    t0 = time.time()
    n = len(ov_scenarios(tier))
    nchunks = 32
    step = (n + nchunks - 1) // nchunks
    tasks = [(tier, lo, min(n, lo + step)) for lo in range(0, n, step)]
    ctx = multiprocessing.get_context("fork")
    with ctx.Pool(min(16, multiprocessing.cpu_count()), maxtasksperchild=4) as pool:
        results = pool.map(_ov_work, tasks, chunksize=1)
    tot = sum(r["n"] for r in results)
    nt = sum(r["nontrivial"] for r in results)
    nfail = sum(r["nfail"] for r in results)
    by_kind = {}
    for r in results:
        for k, v in r["by_kind"].items():
            by_kind[k] = by_kind.get(k, 0) + v
    fails = sorted((f for r in results for f in r["fails"]), key=lambda f: (len(f["regs"]), sum(1 for x in f["regs"] if x[3] != "plain"), sum(1 for x in f["regs"] if x[2] != "plain"),
                                  json.dumps(f, sort_keys=True)))
    seen = set()
    known_hits = 0
    for f in fails:
        dj = json.dumps(f, sort_keys=True, default=repr)
        k = run.match_known(function=OV_FUNCTION, input=dj)
        if k is not None:
            run.known_finding(k, "overlapping dispatch on the real event system")
            known_hits += 1
            continue
        cls = (f["kind"], f["what"])
        if cls in seen or len(seen) >= 8:
            continue
        seen.add(cls)
        run.violation("C28b-overlap-%s-%s-%08d" % (f["kind"], f["what"][:30], zlib.crc32(dj.encode()) % 10 ** 8),
                      dict(function=OV_FUNCTION, bounded_module="checks.C28_bounded", input=f, expected=f["expected"], actual=f["got"],
                           reason="listener invocations of overlapping dispatches differ from the contract (C28_bounded, OVERLAPPING DISPATCH)"))
    for inc in [i for r in results for i in r["inconclusive"]][:5]:
        run.undecided.append("C28 bounded (overlapping dispatch): no verdict, bounded wait expired twice: " + json.dumps(inc, sort_keys=True))
    keep = []
    samples = []
    for kind, regs, methods in (("nested", [["f", "A", "once", "nest"], ["g", "a1", "plain", "plain"]], ["call", "call"]),
                                ("concurrent", [["f", "A", "once_ue", "block"], ["g", "A", "plain", "plain"]], ["exec_once_ue", "exec_once_ue"]),
                                ("concurrent", [["f", "a1", "once", "block"], ["g", "a1", "once", "plain"]], ["call", "call"])):
        exp, _ = ov_expected(kind, regs, methods)
        got, inc = ov_observed(kind, regs, methods, keep)
        samples.append(dict(kind=kind, regs=regs, methods=methods, observed=got, agrees_with_contract=(inc is None and got is not None and got["log"] == exp["log"])))
    if tot == 0 or nt < 2:
        run.crashes.append("C28 bounded: vacuous enumeration (overlapping dispatch)")
    blk = dict(
        function="util.only_once (event.listen once=True / _once_unless_exception=True) / _CompoundListener.__call__ / exec_once / "
                 "exec_once_unless_exception / _exec_w_sync_on_first_run / _exec_once_impl mutex",
        scope="OVERLAPPING DISPATCH on one instance a1 of class A: every list of <= %d listeners, each registered on {class A, instance a1} as "
              "{plain, once=True, _once_unless_exception=True}; (nested, one thread) each listener behaving as {plain, re-dispatches the event "
              "from inside its first invocation, raises in its first invocation}%s, followed by two dispatches by every pair of methods "
              "%s; (concurrent, two real threads, forced schedule) exactly one listener parks inside its first invocation while a second "
              "thread dispatches (again every pair of methods; the second thread runs to its end or is observed waiting for the collection's "
              "exec-once mutex before the first is released), then a later plain dispatch"
              % (2 if tier == "quick" else 3, "", OV_METHODS),
        evaluations=tot, distinct_nontrivial=nt, by_kind=by_kind,
        rule="(kind, listener list, method pair) enumerated once each; non-trivial when the ghost skipped at least one once-type listener in a "
             "dispatch that ran while another dispatch was in progress (re-entrant, or the second thread while the first is parked)",
        samples=samples, exhaustive=True, label=LABEL, contract_failures=nfail, known_finding_cases=known_hits, wall_s=round(time.time() - t0, 1))
    run.coverage.setdefault("bounded", []).append(blk)
    return blk


def ov_replay(inp):
    keep = []
    r, _ = ov_run_one(inp["kind"], inp["regs"], inp["methods"], keep)
    if r.get("inconclusive"):
        print(f"REPLAY-INCONCLUSIVE {OV_FUNCTION} {r['inconclusive']}")
        return 2
    if r.get("failure"):
        f = r["failure"]
        print(f"REPLAY-FAILS {OV_FUNCTION} kind={f['kind']} regs={f['regs']} methods={f['methods']} what={f['what']} expected={f['expected']} got={f['got']}")
        return 1
    print(f"REPLAY-PASSES {OV_FUNCTION} kind={inp['kind']} regs={inp['regs']} methods={inp['methods']}")
    return 0


def replay(data):
    inp = data["input"]
    if "regs" in inp:
        return ov_replay(inp)
    keep = []
    s, f, trace = run_history(inp["ops"], keep)
    if f is not None:
        print(f"REPLAY-FAILS {f['function']} ops={inp['ops']} at={f['input'].get('failing_op')} expected={f['input'].get('expected')} got={f['input'].get('got')}")
        return 1
    print(f"REPLAY-PASSES ops={inp['ops']} trace={trace}")
    return 0
