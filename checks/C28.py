"""C28 — event listeners fire exactly as registered: class-level collection inheritance (update_subclass) under proof,
the registration/dispatch histories as the bounded complement."""
import importlib
import contracts.events  # noqa: F401
from pyvc.contract import FUNCS
from vlib.proof import run_proofs
from vlib.bounded import run_bounded

LEVEL = "proof"
KEYS = [k for k, c in FUNCS.items() if "C28" in c.props and c.proof and not c.abstract]


def run(run, tier, seed, args):
    run_proofs(run, KEYS, tier, update_baseline=args.update_baseline, source_root=args.source_root)
    if not args.source_root:
        run_bounded(run, [k for k in KEYS if FUNCS[k].harness], tier)
        importlib.import_module("checks.C28_bounded").bounded(run, tier, seed)
    run.assumptions += [
        "getattr(target, '_sa_propagate_class_events', True) is true (ordinary event targets); the _empty_collection arm is not under proof",
        "the _clslevel WeakKeyDictionary is modelled as a dict (no entry disappears during the call)",
        "under proof: _ClsLevelDispatch.update_subclass; _ListenerCollection / _EventKey / registry / exec_once are covered by the bounded complement only; concurrent exec-once is not decided",
    ]
