"""C28 — event listeners fire exactly as registered: class-level collection inheritance (update_subclass) and the exec-once
family of _CompoundListener (monitor with interference: at most one dispatch through exec_once whatever the other threads do)
under proof, the registration/dispatch histories (incl. overlapping dispatches on real threads) as the bounded complement."""
import importlib
import contracts.events  # noqa: F401
import contracts.events_once  # noqa: F401
import contracts.events_listeners  # noqa: F401
from pyvc.contract import FUNCS
from vlib.proof import run_proofs
from vlib.bounded import run_bounded

LEVEL = "proof"
KEYS = [k for k, c in FUNCS.items() if "C28" in c.props and c.proof and not c.abstract]


def run(run, tier, seed, args):
    run_proofs(run, KEYS, tier, update_baseline=args.update_baseline, source_root=args.source_root)
    if not args.source_root:
        run_bounded(run, [k for k in KEYS if FUNCS[k].harness], tier)
        importlib.import_module("checks.C28_bounded").bounded(run, tier, seed)
    run.assumptions += [
        "getattr(target, '_sa_propagate_class_events', True) is true (ordinary event targets); the _empty_collection arm is not under proof",
        "the _clslevel WeakKeyDictionary is modelled as a dict (no entry disappears during the call)",
        "under proof: _ClsLevelDispatch.update_subclass; _CompoundListener._exec_once_impl / exec_once / exec_once_unless_exception in the monitor reading (DESIGN §11.3): shared flag _exec_once and two ghost counters, invariant `ok + final <= 1 and _exec_once == (ok + final == 1)` proved at every release of the exec-once mutex and assumed at every acquisition, counters monotone (rely/guarantee); the dispatch itself (self(*args, **kw)) is an abstract callee that may raise",
        "_CompoundListener.__call__ (every class-level then every instance-level listener once, in sequence order; ghost call log), _ListenerCollection.append / insert / remove and _EventKey.append_to_list / prepend_to_list / remove_from_list are under proof; the registry bookkeeping (_stored_in_collection: nested weak-key dictionaries) is an assumed contract",
        "_JoinedListener, util.only_once (closure) and _exec_w_sync_on_first_run are covered by the bounded complement only; the mutex is whatever _get_exec_once_mutex() returns (its lazy creation under mini_gil is not under proof)",
    ]
