"""C38 — bounded complement (run-time contracts, NOT proof): instrumented relationship collections vs the builtin types.

Functions under contract (real code, ``sqlalchemy.orm.collections``): every method / operator that ``InstrumentedList``,
``InstrumentedSet`` and ``KeyFuncDict`` (``attribute_keyed_dict``) expose from list / set / dict — the decorated ones
(``_list_decorators``, ``_set_decorators``, ``_dict_decorators``) *and* the ones inherited un-decorated — exercised on
collections owned by a mapped parent (in memory, no database), plus ``KeyFuncDict.set / remove``.

Contract, evaluated on the real call with the builtin list / set / dict executed side by side on the same item objects:

  contents            the collection holds the same objects (list: same order; dict: same keys in the same order) as the builtin
  exception           same exception type (none if the builtin raises none)
  returns             same return value (``self`` where the builtin returns itself; new containers by contents)
  events              builtin succeeded: the append / remove events fired are exactly  remove(x) for every item removed and
                      append(x) for every item added (multisets by identity; for ``l[i] = v``, ``l[a:b:c] = vs`` and
                      ``d[k] = v`` positionally: remove every replaced item, append every assigned item — DESIGN App. B.5)
  events-on-failure   builtin raised: no append / remove event at all (``ev' == ev``)

The method list is obtained by reflection: every callable name in dir(list) / dir(set) / dir(dict) must either be in the
argument catalogue or in the explicit object-protocol exclusion list — otherwise the run stops with a harness error, so an
un-decorated mutator (``list.__imul__``, ``dict.__ior__``) cannot be missed.

``bounded(run, tier, seed)`` appends one block to ``run.coverage["bounded"]`` and reports through ``run``.
"""
import collections
import json
import operator

EXCLUDED = {"__init__", "__new__", "__init_subclass__", "__subclasshook__", "__class__", "__class_getitem__", "__getattribute__", "__setattr__",
            "__delattr__", "__dir__", "__reduce__", "__reduce_ex__", "__getstate__", "__sizeof__", "__format__", "__repr__", "__str__", "fromkeys"}
_REPR_NOTE = "__repr__/__str__/__format__ print item addresses (same on both sides, nothing to compare); fromkeys is an alternate constructor"

_ENV = {}


def env():
    """three mapped relationships + an event log; built once per process"""
    if _ENV:
        return _ENV
    from sqlalchemy import Column, ForeignKey, Integer, String, event
    from sqlalchemy.orm import declarative_base, relationship
    from sqlalchemy.orm.collections import attribute_keyed_dict
    Base = declarative_base()

    class VP(Base):
        __tablename__ = "verif_c38_p"
        id = Column(Integer, primary_key=True)
        clist = relationship("VC")
        cset = relationship("VD", collection_class=set)
        cdict = relationship("VE", collection_class=attribute_keyed_dict("name"))

    class VC(Base):
        __tablename__ = "verif_c38_c"
        id = Column(Integer, primary_key=True)
        pid = Column(ForeignKey("verif_c38_p.id"))

    class VD(Base):
        __tablename__ = "verif_c38_d"
        id = Column(Integer, primary_key=True)
        pid = Column(ForeignKey("verif_c38_p.id"))

    class VE(Base):
        __tablename__ = "verif_c38_e"
        id = Column(Integer, primary_key=True)
        pid = Column(ForeignKey("verif_c38_p.id"))
        name = Column(String)
    log = []
    for attr in (VP.clist, VP.cset, VP.cdict):
        event.listen(attr, "append", lambda t, v, i: log.append(("A", v)))
        event.listen(attr, "remove", lambda t, v, i: log.append(("R", v)))
    names = ["x", "y", "z", "x", "w", "y"]          # dict pool: 0..2 the start values, 3 = another object named x, 4 named w, 5 another named y
    _ENV.update(P=VP, log=log,
                pools=dict(list=[VC(id=i) for i in range(6)], set=[VD(id=i) for i in range(6)], dict=[VE(id=i, name=n) for i, n in enumerate(names)]),
                attr=dict(list="clist", set="cset", dict="cdict"), base=dict(list=list, set=set, dict=dict))
    return _ENV


def _idfn(x):
    return -getattr(x, "id", 0)


def build(desc, kind, self_obj, pool, coll_type):
    k = desc[0]
    if k == "int":
        return desc[1]
    if k == "none":
        return None
    if k == "slice":
        return slice(*desc[1])
    if k == "item":
        return pool[desc[1]]
    if k == "key":
        return desc[1]
    if k == "self":
        return self_obj
    if k == "fn":
        return _idfn
    if k == "pairs":
        return [(a, pool[b]) for a, b in desc[1]]
    if k == "iterpairs":
        return iter([(a, pool[b]) for a, b in desc[1]])
    if k == "dict":
        return {a: pool[b] for a, b in desc[1]}
    items = [pool[i] for i in desc[1]]
    if k == "list":
        return list(items)
    if k == "tuple":
        return tuple(items)
    if k == "iter":
        return iter(items)
    if k == "set":
        return set(items)
    if k == "frozenset":
        return frozenset(items)
    if k == "coll":                                  # an unattached collection of the instrumented class (InstrumentedSet / InstrumentedList)
        return coll_type(items)
    raise ValueError(desc)


# ----------------------------------------------------------------------------------------------- catalogues
def catalogue(kind, tier):
    """-> (start sizes, [(method, args, kwargs)])"""
    thorough = tier == "thorough"
    ops = []

    def add(m, *args, **kw):
        ops.append((m, list(args), kw))
    if kind == "list":
        sizes = [0, 1, 2, 3, 4, 5] if thorough else [0, 1, 2, 3]
        lim = 7 if thorough else 5
        ints = list(range(-lim, lim + 1))
        bounds = [None] + ints
        steps = [None, -3, -2, -1, 0, 1, 2, 3]
        slices = [["slice", [a, b, c]] for a in bounds for b in bounds for c in steps]
        values = [["list", []], ["list", [4]], ["list", [4, 5]], ["list", [0]], ["iter", [4, 5]], ["tuple", [5, 4]], ["self"], ["item", 4], ["coll", [4]]]
        for x in (0, 1, 3, 4):
            for m in ("append", "remove", "count", "index", "__contains__"):
                add(m, ["item", x])
        add("remove", ["item", 5])
        for i in ints:
            add("pop", ["int", i])
            add("__getitem__", ["int", i])
            add("__delitem__", ["int", i])
            for x in (4, 0):
                add("insert", ["int", i], ["item", x])
                add("__setitem__", ["int", i], ["item", x])
        for s in slices:
            add("__getitem__", s)
            add("__delitem__", s)
            for v in values:
                add("__setitem__", s, v)
        for v in values:
            add("extend", v)
            add("__iadd__", v)
            add("__add__", v)
        for k in (-1, 0, 1, 2, 3):
            add("__mul__", ["int", k])
            add("__rmul__", ["int", k])
            add("__imul__", ["int", k])
        for m in ("pop", "clear", "copy", "reverse", "sort", "__iter__", "__len__", "__reversed__"):
            add(m)
        add("sort", key=["fn"])
        add("sort", key=["fn"], reverse=["int", 1])
        for m in ("__eq__", "__ne__", "__lt__", "__le__", "__gt__", "__ge__"):
            for v in (["list", []], ["list", [0]], ["list", [0, 1]], ["list", [0, 1, 2]], ["self"], ["tuple", [0]]):
                add(m, v)
        return sizes, ops
    if kind == "set":
        sizes = [0, 1, 2, 3]
        conts = [[], [0], [4], [0, 4], [0, 1], [4, 5], [0, 1, 4], [1, 2, 5], [0, 1, 2], [0, 1, 2, 3]]
        kinds = ("set", "frozenset", "list", "tuple", "iter", "coll")
        its = [[k, c] for c in conts for k in kinds] + [["self"], ["list", [4, 4, 0]], ["int", 3], ["none"]]
        for x in (0, 2, 4):
            for m in ("add", "remove", "discard", "__contains__"):
                add(m, ["item", x])
        for m in ("pop", "clear", "copy", "__iter__", "__len__"):
            add(m)
        multi = ("update", "intersection_update", "difference_update", "union", "intersection", "difference")
        single = ("symmetric_difference_update", "symmetric_difference", "isdisjoint", "issubset", "issuperset",
                  "__or__", "__and__", "__sub__", "__xor__", "__ior__", "__iand__", "__isub__", "__ixor__",
                  "__ror__", "__rand__", "__rsub__", "__rxor__", "__eq__", "__ne__", "__le__", "__lt__", "__ge__", "__gt__")
        for m in multi + single:
            for a in its:
                add(m, a)
        pairs = [(["set", [0, 4]], ["list", [1, 5]]), (["iter", [0]], ["frozenset", [4]]), (["set", []], ["set", []]), (["list", [0, 1]], ["set", [1, 2]])]
        for m in multi:
            add(m)
            for a, b in pairs:
                add(m, a, b)
        return sizes, ops
    # dict (KeyFuncDict keyed on .name): pool 0:x 1:y 2:z 3:x' 4:w 5:y'
    sizes = [0, 1, 2, 3]
    keys = ["x", "y", "w"]
    for k in keys + ["z"]:
        for m in ("__getitem__", "__delitem__", "pop", "get", "__contains__", "setdefault"):
            add(m, ["key", k])
        for v in (3, 4, 0, 5):
            add("__setitem__", ["key", k], ["item", v])
            add("setdefault", ["key", k], ["item", v])
            add("pop", ["key", k], ["item", v])
            add("get", ["key", k], ["item", v])
        add("pop", ["key", k], ["none"])
    maps = [[], [["x", 3]], [["w", 4]], [["x", 0]], [["x", 3], ["w", 4]], [["y", 5], ["x", 0]], [["w", 4], ["y", 1], ["x", 3]]]
    for mp in maps:
        for form in ("dict", "pairs", "iterpairs"):
            add("update", [form, mp])
        add("update", **{k: ["item", v] for k, v in mp})
        add("update", ["dict", mp[:1]], **{k: ["item", v] for k, v in mp[1:]})
        add("__ior__", ["dict", mp])
        add("__or__", ["dict", mp])
        add("__ror__", ["dict", mp])
        for m in ("__eq__", "__ne__", "__lt__", "__le__", "__gt__", "__ge__"):
            add(m, ["dict", mp])
    add("__ior__", ["pairs", [["w", 4]]])
    add("update", ["int", 3])
    add("update", ["dict", []], ["dict", []])
    for m in ("popitem", "clear", "copy", "keys", "values", "items", "__iter__", "__len__", "__reversed__", "update"):
        add(m)
    for v in (0, 1, 3, 4, 5):
        add("set", ["item", v])                      # KeyFuncDict API: d[keyfunc(v)] = v
        add("remove", ["item", v])                   # KeyFuncDict API: del d[keyfunc(v)] (the stored value must be v)
    return sizes, ops


OPERATOR_FORM = {n for n in dir(operator) if n.startswith("__") and n.endswith("__")}
_RBIN = {"__ror__": operator.or_, "__rand__": operator.and_, "__rsub__": operator.sub, "__rxor__": operator.xor, "__rmul__": operator.mul}


def _call(obj, name, args, kwargs):
    try:
        if name in _RBIN and not kwargs and len(args) == 1:
            return None, _RBIN[name](args[0], obj)
        if name in OPERATOR_FORM and not kwargs:
            return None, getattr(operator, name)(obj, *args)
        return None, getattr(obj, name)(*args, **kwargs)
    except Exception as e:      # noqa: BLE001 - the type is part of the contract
        return type(e).__name__, None


def _ids(kind, c):
    if kind == "list":
        return [id(x) for x in list.__iter__(c)] if isinstance(c, list) else [id(x) for x in c]
    if kind == "set":
        return sorted(id(x) for x in c)
    return [(k, id(v)) for k, v in dict.items(c)]


def _label(pool, x):
    for i, p in enumerate(pool):
        if p is x:
            return i
    return repr(x) if isinstance(x, (int, str, bool, type(None), float)) else "<" + type(x).__name__ + ">"


def _norm_ret(kind, ret, obj, pool):
    if ret is obj:
        return "<self>"
    if ret is NotImplemented:
        return "<NotImplemented>"
    if isinstance(ret, (list, tuple)):
        return [type(ret).__name__ if not isinstance(ret, list) else "list"] + [_label(pool, x) if not isinstance(x, tuple) else [_label(pool, y) for y in x] for x in ret]
    if isinstance(ret, (set, frozenset)):
        return ["frozenset" if isinstance(ret, frozenset) else "set"] + sorted(str(_label(pool, x)) for x in ret)
    if isinstance(ret, dict):
        return ["dict"] + [[k, _label(pool, v)] for k, v in ret.items()]
    if isinstance(ret, (int, str, bool, float, type(None))):
        return ret
    if any(ret is p for p in pool):
        return ["item", _label(pool, ret)]
    try:
        items = list(ret)                                # iterators / views
        return [type(ret).__name__] + [_label(pool, x) if not isinstance(x, tuple) else [_label(pool, y) for y in x] for x in items]
    except TypeError:
        return "<" + type(ret).__name__ + ">"


def kwbuild(kw, kind, self_obj, pool, ct):
    return {k: build(d, kind, self_obj, pool, ct) for k, d in kw.items()}


def evaluate(kind, n, name, args, kwargs):
    """one case on the real mapped collection and on the builtin -> (failed clauses, facts)"""
    e = env()
    pool, log, base = e["pools"][kind], e["log"], e["base"][kind]
    p = e["P"]()
    if kind == "dict":
        start = {x.name: x for x in pool[:n]}
    else:
        start = base(pool[:n])
    setattr(p, e["attr"][kind], start)
    coll = getattr(p, e["attr"][kind])
    ct = type(coll) if kind != "dict" else dict
    model = base(start)
    old_items = list(model.values()) if kind == "dict" else list(pool[:n])
    old_model = dict(model) if kind == "dict" else list(model)
    del log[:]
    # KeyFuncDict.set / remove have no builtin name: the builtin counterpart is keyed assignment / deletion
    if kind == "dict" and name in ("set", "remove"):
        v = pool[args[0][1]]
        if name == "set":
            em, rm = _call(model, "__setitem__", [v.name, v], {})
        else:
            if v.name in model and model[v.name] is not v:
                em, rm = "InvalidRequestError", None
            else:
                em, rm = _call(model, "__delitem__", [v.name], {})
    elif kind == "set" and name == "pop" and not args and not kwargs:
        # set.pop() removes an ARBITRARY member: the builtin's choice is not part of the contract.  Contract: the returned
        # object was a member, exactly it is removed (one remove event); KeyError on an empty set.
        ec0, rc0 = _call(coll, name, [], {})
        if ec0 is None and any(rc0 is x for x in model):
            model.remove(rc0)
            em, rm = None, rc0
        else:
            em, rm = _call(model, name, [], {})
        _precomputed = (ec0, rc0)
    else:
        em, rm = _call(model, name, [build(d, kind, model, pool, base) for d in args], kwbuild(kwargs, kind, model, pool, base))
    if kind == "set" and name == "pop" and not args and not kwargs:
        ec, rc = _precomputed
    else:
        ec, rc = _call(coll, name, [build(d, kind, coll, pool, ct) for d in args], kwbuild(kwargs, kind, coll, pool, ct))
    events = list(log)
    del log[:]
    failed = []
    if _ids(kind, coll) != _ids(kind, model):
        failed.append("contents")
    if ec != em:
        failed.append("exception")
    nr_c, nr_m = _norm_ret(kind, rc, coll, pool), _norm_ret(kind, rm, model, pool)
    if kind == "set" and name in ("__iter__",) and isinstance(nr_c, list) and isinstance(nr_m, list):
        nr_c, nr_m = [nr_c[0]] + sorted(map(str, nr_c[1:])), [nr_m[0]] + sorted(map(str, nr_m[1:]))   # set iteration order is arbitrary
    if ec is None and em is None and nr_c != nr_m:
        failed.append("returns")
    # expected events
    new_items = list(model.values()) if kind == "dict" else list(model)
    if em is not None:
        exp = []
    else:
        exp = None
        if kind == "list" and name == "__setitem__" and len(args) == 2:
            idx = build(args[0], kind, None, pool, base)
            if isinstance(idx, slice):
                rng = range(*idx.indices(len(old_model)))
                step = idx.step if idx.step is not None else 1
                replaced = old_model[idx] if step != 1 else old_model[rng.start:max(rng.start, rng.stop)]
                val = args[1]
                vals = list(old_model) if val[0] == "self" else [pool[i] for i in val[1]] if val[0] in ("list", "tuple", "iter", "coll") else None
                if vals is not None:
                    exp = [("R", x) for x in replaced] + [("A", x) for x in vals]
            else:
                exp = [("R", old_model[idx])] + [("A", build(args[1], kind, None, pool, base))]
        elif kind == "dict" and name in ("__setitem__", "set") and (name == "set" or len(args) == 2):
            if name == "set":
                v = pool[args[0][1]]
                k = v.name
            else:
                k, v = args[0][1], build(args[1], kind, None, pool, base)
            exp = ([("R", old_model[k])] if k in old_model else []) + [("A", v)]
        if exp is None:
            oc = collections.Counter(id(x) for x in old_items)
            nc = collections.Counter(id(x) for x in new_items)
            byid = {id(x): x for x in old_items + new_items}
            exp = [("R", byid[i]) for i, c in (oc - nc).items() for _ in range(c)] + [("A", byid[i]) for i, c in (nc - oc).items() for _ in range(c)]
    got = sorted((k, id(v)) for k, v in events)
    want = sorted((k, id(v)) for k, v in exp)
    if got != want:
        failed.append("events-on-failure" if em is not None else "events")
    facts = dict(builtin=dict(exception=em, returns=nr_m, contents=[_label(pool, x) for x in new_items] if kind != "dict" else [[k, _label(pool, v)] for k, v in model.items()]),
                 collection=dict(type=type(coll).__name__, exception=ec, returns=nr_c,
                                 contents=[_label(pool, x) for x in (coll.values() if kind == "dict" else coll)] if kind != "dict" else [[k, _label(pool, v)] for k, v in dict.items(coll)],
                                 events=[[k, _label(pool, v)] for k, v in events]),
                 expected_events=[[k, _label(pool, v)] for k, v in exp], start=n,
                 changed=_ids(kind, model) != _ids(kind, base(start)) if kind != "dict" else list(model.items()) != list(start.items()))
    return failed, facts


CLASSNAME = dict(list="InstrumentedList", set="InstrumentedSet", dict="KeyFuncDict")


def describe(kind, n, name, args, kwargs):
    """JSON-able input + derived facts that the known-finding regexes can key on"""
    d = dict(collection=CLASSNAME[kind], size=n, method=name, args=args, kwargs=kwargs)
    if kind == "list" and args and args[0][0] == "slice":
        a, b, c = args[0][1]
        d["slice_class"] = dict(step="zero" if c == 0 else "negative" if (c or 1) < 0 else "one" if (c or 1) == 1 else "positive>1",
                                start_below_minus_len=a is not None and a < -n, stop_below_minus_len=b is not None and b < -n,
                                start_above_len=a is not None and a > n, stop_above_len=b is not None and b > n)
    return d


def run_all(tier):
    e = env()
    out = dict(evaluations=0, nontrivial=0, fails=[], samples=[], per_kind={})
    for kind in ("list", "set", "dict"):
        base = e["base"][kind]
        sizes, ops = catalogue(kind, tier)
        names = {m for m, _a, _k in ops}
        missing = sorted(nm for nm in dir(base) if callable(getattr(base, nm, None)) and nm not in EXCLUDED and nm not in names)
        if missing:
            raise RuntimeError(f"argument catalogue incomplete: {base.__name__} methods {missing} are neither exercised nor excluded")
        mutators = collections.Counter()
        n_eval = 0
        for n in sizes:
            for name, args, kwargs in ops:
                n_eval += 1
                failed, facts = evaluate(kind, n, name, args, kwargs)
                if facts["changed"] or facts["builtin"]["exception"] or facts["collection"]["events"]:
                    out["nontrivial"] += 1
                if facts["changed"]:
                    mutators[name] += 1
                    if len(out["samples"]) < 9 and n_eval % 997 < 25 and n >= 2:
                        out["samples"].append(dict(describe(kind, n, name, args, kwargs), builtin_contents=facts["builtin"]["contents"], events=facts["collection"]["events"]))
                for clause in failed:
                    out["fails"].append((f"{CLASSNAME[kind]}.{name}", clause, describe(kind, n, name, args, kwargs), facts))
        out["evaluations"] += n_eval
        inst = type(getattr(e["P"](), e["attr"][kind]))
        out["per_kind"][kind] = dict(collection_class=inst.__name__, evaluations=n_eval, sizes=sizes, operations=len(ops),
                                     mutators_found={m: dict(changing_cases=c, decorated=bool(getattr(getattr(inst, m, None), "_sa_instrumented", False)))
                                                     for m, c in sorted(mutators.items())})
    return out


def bounded(run, tier, seed):
    import sqlalchemy
    try:
        out = run_all(tier)
    except Exception as ex:     # noqa: BLE001
        run.crashes.append(f"C38_bounded harness: {type(ex).__name__}: {ex}")
        return
    lim = 7 if tier == "thorough" else 5
    block = dict(
        label="bounded (not proof)", exhaustive=True,
        scope=f"InstrumentedList on 0..{5 if tier == 'thorough' else 3} items: every int index / insert position / pop index in -{lim}..{lim}; every slice with bounds in "
              f"-{lim}..{lim} or None and step in (None,-3..3) for get / del / set x 9 assigned values (empty, 1-2 new items, an existing item, iterator, tuple, "
              f"the collection itself, a non-iterable, another InstrumentedList); append/remove/extend/+=/+/*/*=/reverse/sort/clear/copy/comparisons; "
              f"InstrumentedSet on 0..3 items: every set method and operator (also reflected and in-place) x 64 operands (set/frozenset/list/tuple/iterator/"
              f"InstrumentedSet over 10 contents, itself, non-iterables), 0- and 2-operand forms; KeyFuncDict (attribute_keyed_dict) on 0..3 items: "
              f"[]=, del, pop, popitem, setdefault, update (dict / pairs / iterator / keywords / both), |=, |, clear, copy, views, set(), remove(); "
              f"all on collections owned by a mapped parent, in memory",
        evaluations=out["evaluations"], distinct_nontrivial=out["nontrivial"],
        rule="each (collection class, start size, method, argument tuple) of the catalogue is run once (distinct by construction); non-trivial = the builtin "
             "changed its contents, raised, or the collection fired an event",
        samples=out["samples"], per_kind=out["per_kind"], excluded_names=sorted(EXCLUDED), excluded_note=_REPR_NOTE,
        contract_failures=len(out["fails"]), sqlalchemy=sqlalchemy.__file__)
    run.coverage.setdefault("bounded", []).append(block)
    for kind, pk in out["per_kind"].items():
        if len(pk["mutators_found"]) < 6:
            run.crashes.append(f"C38_bounded vacuity guard: only {sorted(pk['mutators_found'])} changed a {kind}")
    known, new = {}, {}
    for function, clause, inp, facts in out["fails"]:
        ij = json.dumps(inp, sort_keys=True, default=repr)
        k = run.match_known(function=function, clause=clause, input=ij)
        if k is not None:
            known.setdefault(k["what"], [k, 0, (function, clause, inp, facts)])[1] += 1
        else:
            new.setdefault((function, clause), []).append((inp, facts))
    for what, (k, cnt, (function, clause, inp, facts)) in known.items():
        run.known_finding(k, f"bounded: {cnt} failing cases, e.g. {function} [{clause}] size={inp['size']} args={inp['args']}: builtin {facts['builtin']['exception'] or facts['builtin']['contents']}, "
                             f"collection {facts['collection']['exception'] or facts['collection']['contents']} events {facts['collection']['events']}")
    for (function, clause), lst in sorted(new.items()):
        inp, facts = min(lst, key=lambda t: (t[0]["size"], len(json.dumps(t[0], default=repr))))
        run.violation(f"{function}-{clause}-bounded", dict(function=function, clause=clause, input=inp, facts=facts, failing_inputs_in_this_class=len(lst),
                                                            reason="bounded run-time contract check on the real instrumented collection (C38_bounded)"))
    run.assumptions += [
        "C38 bounded: items are mapped instances compared by identity; None / non-mapped values as collection members are outside",
        "C38 bounded: InstrumentedDict itself cannot be a relationship collection (no appender); the dict contract is evaluated on KeyFuncDict (attribute_keyed_dict)",
        "C38 bounded: event *order* and the pre-remove hook are not compared, only the multiset of append/remove events; backref / history effects outside (C37, C36)",
    ]


def replay(data):
    inp = data["input"]
    kind = {v: k for k, v in CLASSNAME.items()}[inp["collection"]]
    failed, facts = evaluate(kind, inp["size"], inp["method"], inp["args"], inp.get("kwargs", {}))
    clause = data.get("clause")
    if clause in failed or (not clause and failed):
        print(f"REPLAY-FAILS {data.get('function')} clause={clause} input={json.dumps(inp)} facts={json.dumps(facts, default=repr)}")
        return 1
    print(f"REPLAY-PASSES {data.get('function')} clause={clause} input={json.dumps(inp)} (clauses failing now: {failed})")
    return 0
