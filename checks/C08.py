"""C08 - LIKE-based string operators with autoescape=True match literal (substring / prefix / suffix) semantics.

Functions under contract (real code, /repo/lib/sqlalchemy):
  sql/operators.py   _escaped_like_impl, reached through the twelve operator functions
                     startswith_op endswith_op contains_op istartswith_op iendswith_op icontains_op and their not_ forms
                     (what ColumnOperators.startswith(..., autoescape=True) etc. call)
  sql/compiler.py    SQLCompiler.visit_{,not_}{,i}{contains,startswith,endswith}_op_binary (pattern assembly
                     '%' || x || '%', lower() wrapping of both sides for the i-forms), visit_like_op_binary /
                     visit_not_like_op_binary (ESCAPE clause), on the SQLite dialect

Contract K.  requires: `other`, `s` are str; escape is None (default "/") or one character not in {%, _}.
  Let expr = OP(column, other, escape=escape, autoescape=True), e = expr.right.value (the bound operand the real
  function produced), esc = expr.modifiers["escape"].
  ensures[spec]    like_match(W(e), s, esc)  <=>  PY(s, other)
                   W = e+"%" / "%"+e / "%"+e+"%",  PY = str.startswith / str.endswith / `other in s`;
                   for the i-forms both pattern and s are ASCII-lowercased and PY is applied to the lowercased strings;
                   not_ forms must produce the same e / esc as the positive form (their verdict is the complement).
                   like_match is the spec function of SQL LIKE ... ESCAPE (rtc/strspec.py).
  ensures[backend] the SQL text the real compiler emits for expr, executed by the in-process sqlite3 with
                   PRAGMA case_sensitive_like=ON on a table holding every s of the scope, selects exactly the rows
                   {s | PY(s, other)} (complement for the not_ forms).
  ensures[receiver] the operator may be applied to anything that implements ColumnOperators.operate(); every such receiver
                   forwards the operator AND its keyword arguments (escape=, autoescape=) down to the column's comparator.
                   For each receiver R of the catalogue below that stands for the string column t.s (possibly through a
                   relationship), `select(<id of R's row>).where(OP(R, other, escape=escape, autoescape=True))`, executed
                   through a real Engine on SQLite (case_sensitive_like=ON; compiled cache on, so all operands after the
                   first run on a cache hit), returns exactly the ids of the rows whose string s satisfies PY(s, other)
                   (complement for the not_ forms; every parent row has exactly one related string, so EXISTS / NOT EXISTS
                   criteria of association proxies have the same literal meaning).  A receiver whose API refuses the
                   operator (NotImplementedError / TypeError / InvalidRequestError when the criterion is built) is skipped.
     receivers  Core:  column("s", String), column("s") without a type, literal_column, Table column, alias column,
                       subquery column, label, cast, type_coerce to a TypeDecorator(String), type_coerce to a String subclass
                       with its own comparator_factory, func.coalesce(s, s), correlated scalar subquery
                ORM:   mapped attribute, attribute of aliased(), column_property, synonym, hybrid_property,
                       an unbound mapped_column() construct (MappedColumn.operate)
                ext:   association proxy -> column through many-to-one and through one-to-many, association proxy ->
                       hybrid_property
  ensures[evaluator] the ORM decides the same question in Python when a bulk UPDATE / DELETE is synchronized with
                   synchronize_session="evaluate" (what the default "auto" tries first): after
                   session.execute(update(T).where(OP(T.s, other, escape=escape, autoescape=True)).values(flag=K)) the objects
                   already loaded in the session that carry flag == K are exactly those whose s satisfies PY(s, other)
                   (complement for the not_ forms) - the same rows that carry flag == K in the database.  An operator the
                   evaluator refuses ("Could not evaluate current criteria in Python") is skipped.
  The spec function like_match is itself cross-checked against sqlite3's LIKE on all (pattern, string, escape)
  triples of the quick scope (a disagreement is a checker error, exit 3, not a violation).

Scope Bd (exhaustive): alphabet { % _ / \\ ' a A }; other and s range over ALL strings of length 0..3 (quick, 400
  each) / 0..4 (thorough, 2801 each); escape in { default "/", "\\", "^" }; all 12 operators.
  quick: 12*3*400*400 = 5 760 000 (op, escape, other, s) cases; thorough: 12*3*2801*2801 = 282 441 636.
  receivers: 21 receivers x 12 operators x 3 escapes x other in ALL strings of length 0..2 (quick, 57) / 0..3 (thorough, 400)
  x s in ALL strings of length 0..3 (400 rows; each row also the single related row of one parent per relationship).
  evaluator: 12 operators x 3 escapes x other in ALL strings of length 0..2 (57) x the 57 (quick) / 400 (thorough) objects whose s
  ranges over ALL strings of length 0..2 / 0..3, all loaded in one Session.
"""
import sqlite3
import warnings

from sqlalchemy import (Column, ForeignKey, Integer, String, cast, column, create_engine, event, exc, func, insert, literal_column, select,
                        type_coerce, update)
from sqlalchemy.dialects import sqlite
from sqlalchemy.ext.associationproxy import association_proxy
from sqlalchemy.ext.hybrid import hybrid_property
from sqlalchemy.orm import Session, aliased, column_property, declarative_base, mapped_column, relationship, synonym
from sqlalchemy.pool import StaticPool
from sqlalchemy.sql import operators
from sqlalchemy.types import TypeDecorator

from rtc import strspec as S

LEVEL = "exploration"

ALPHABET = "%_/\\'aA"
ESCAPES = (None, "\\", "^")
KINDS = ("startswith", "endswith", "contains")
COL = column("s", String)
DIALECT = sqlite.dialect()
OPS = [(neg + i + k + "_op", k, bool(i), bool(neg)) for k in KINDS for i in ("", "i") for neg in ("", "not_")]


def _py(kind, s, other):
    if kind == "startswith":
        return s.startswith(other)
    if kind == "endswith":
        return s.endswith(other)
    return other in s


def _wrap(kind, e):
    if kind == "startswith":
        return e + "%"
    if kind == "endswith":
        return "%" + e
    return "%" + e + "%"


def _build(opname, other, escape):
    """the real operator function and the real compiler; returns (bound operand, escape char, sql, params)"""
    kw = {} if escape is None else {"escape": escape}
    expr = getattr(operators, opname)(COL, other, autoescape=True, **kw)
    compiled = expr.compile(dialect=DIALECT)
    params = [compiled.params[k] for k in compiled.positiontup]
    return expr.right.value, expr.modifiers.get("escape"), str(compiled), params


def _connect(rows):
    con = sqlite3.connect(":memory:")
    con.execute("PRAGMA case_sensitive_like=ON")
    con.execute("CREATE TABLE t (s TEXT NOT NULL)")
    con.executemany("INSERT INTO t (s) VALUES (?)", [(r,) for r in rows])
    return con


def _fail(clause, opname, escape, other, s, expected, actual, **extra):
    return dict(function="sqlalchemy.sql.operators." + opname, clause=clause,
                input=dict(op=opname, escape=escape, other=other, s=s), expected=expected, actual=actual, **extra)


def _work(task):
    others, maxlen = task
    rows = S.strings(ALPHABET, maxlen)
    rowset = set(rows)
    lower = {r: r.lower() for r in rows}
    con = _connect(rows)
    n_backend = n_spec = 0
    discriminating = 0
    rewritten = 0
    fails = []
    samples = []
    for other in others:
        for escape in ESCAPES:
            pos = {}
            for opname, kind, ci, neg in OPS:
                e, esc, sql, params = _build(opname, other, escape)
                if e != other:
                    rewritten += 1
                if ci:
                    lo = other.lower()
                    want = {r for r in rows if _py(kind, lower[r], lo)}
                else:
                    want = {r for r in rows if _py(kind, r, other)}
                # ---- ensures[spec]
                if not neg:
                    pos[(kind, ci)] = (e, esc)
                    pat = _wrap(kind, e.lower() if ci else e)
                    for r in rows:
                        got = S.like_match(pat, lower[r] if ci else r, esc)
                        n_spec += 1
                        if got != (r in want) and len(fails) < 40:
                            fails.append(_fail("spec", opname, escape, other, r, r in want, got, bound=e, escape_used=esc, pattern=pat))
                elif pos[(kind, ci)] != (e, esc) and len(fails) < 40:
                    fails.append(_fail("spec-negated-form-differs", opname, escape, other, "", list(pos[(kind, ci)]), [e, esc]))
                # ---- ensures[backend]
                if neg:
                    want = rowset - want
                got = {r[0] for r in con.execute("SELECT s FROM t WHERE " + sql, params)}
                n_backend += len(rows)
                if got != want:
                    for r in sorted(got ^ want)[:3]:
                        if len(fails) < 40:
                            fails.append(_fail("backend", opname, escape, other, r, r in want, r in got, bound=e, escape_used=esc, sql=sql))
                # how many verdicts depend on the escaping at all: same SQL with the raw operand as the pattern
                try:
                    raw = {r[0] for r in con.execute("SELECT s FROM t WHERE " + sql, [other])}
                    discriminating += len(raw ^ want)
                except sqlite3.Error:
                    pass
                if len(samples) < 3 and e != other and not neg:
                    samples.append(dict(op=opname, escape=escape, other=other, bound=e, escape_used=esc, sql=sql,
                                        rows_matched=len(got), rows=len(rows)))
    con.close()
    return dict(n_backend=n_backend, n_spec=n_spec, discriminating=discriminating, rewritten=rewritten, fails=fails, samples=samples)


# ------------------------------------------------------------------------------------------------ ensures[receiver]

class _PassThrough(TypeDecorator):
    impl = String
    cache_ok = True


class _MyString(String):
    """a String subclass with a user-defined comparator (adds nothing; operate() is the inherited one)"""

    class comparator_factory(String.Comparator):
        __slots__ = ()


_ENV = {}


def _receiver_env():
    """the mapping and the receiver catalogue: name -> (expression that receives the operator, id column selected)"""
    if _ENV:
        return _ENV
    Base = declarative_base()

    class Owner(Base):  # one-to-many side: an owner's single item
        __tablename__ = "owner"
        id = Column(Integer, primary_key=True)
        items = relationship("T")
        texts = association_proxy("items", "s")

    class T(Base):
        __tablename__ = "t"
        id = Column(Integer, primary_key=True)
        s = Column(String, nullable=False)
        owner_id = Column(ForeignKey("owner.id"))
        flag = Column(Integer)
        s_prop = column_property(cast(s, String))
        s_syn = synonym("s")

        @hybrid_property
        def s_hyb(self):
            return self.s

    class Holder(Base):  # many-to-one side
        __tablename__ = "holder"
        id = Column(Integer, primary_key=True)
        t_id = Column(ForeignKey("t.id"))
        item = relationship(T)
        text = association_proxy("item", "s")
        text_hyb = association_proxy("item", "s_hyb")

    t = T.__table__
    al = t.alias("a")
    sq = select(t).subquery()
    t2 = t.alias("t2")
    A = aliased(T)
    _ENV.update(
        base=Base, T=T, t=t, owner=Owner.__table__, holder=Holder.__table__,
        receivers={
            "column": (column("s", String), t.c.id),
            "untyped-column": (column("s"), t.c.id),
            "literal_column": (literal_column("s", String), t.c.id),
            "table-column": (t.c.s, t.c.id),
            "alias-column": (al.c.s, al.c.id),
            "subquery-column": (sq.c.s, sq.c.id),
            "label": (t.c.s.label("x"), t.c.id),
            "cast": (cast(t.c.s, String), t.c.id),
            "type_coerce-typedecorator": (type_coerce(t.c.s, _PassThrough), t.c.id),
            "type_coerce-custom-comparator": (type_coerce(t.c.s, _MyString), t.c.id),
            "func.coalesce": (func.coalesce(t.c.s, t.c.s), t.c.id),
            "scalar-subquery": (select(t2.c.s).where(t2.c.id == t.c.id).scalar_subquery(), t.c.id),
            "orm-attribute": (T.s, T.id),
            "orm-aliased-attribute": (A.s, A.id),
            "orm-column_property": (T.s_prop, T.id),
            "orm-synonym": (T.s_syn, T.id),
            "orm-hybrid_property": (T.s_hyb, T.id),
            "orm-mapped_column-construct": (mapped_column("s", String), t.c.id),
            "association_proxy-many-to-one": (Holder.text, Holder.id),
            "association_proxy-one-to-many": (Owner.texts, Owner.id),
            "association_proxy-to-hybrid": (Holder.text_hyb, Holder.id),
        })
    return _ENV


def _receiver_engine(rows):
    env = _receiver_env()
    eng = create_engine("sqlite://", poolclass=StaticPool)

    @event.listens_for(eng, "connect")
    def _cs(dbapi_conn, rec):
        dbapi_conn.execute("PRAGMA case_sensitive_like=ON")

    env["base"].metadata.create_all(eng)
    with eng.begin() as conn:
        ids = [dict(id=i) for i in range(1, len(rows) + 1)]
        conn.execute(insert(env["owner"]), ids)
        conn.execute(insert(env["t"]), [dict(id=i, s=r, owner_id=i) for i, r in enumerate(rows, 1)])
        conn.execute(insert(env["holder"]), [dict(id=i, t_id=i) for i in range(1, len(rows) + 1)])
    return eng


def _receiver_case(conn, name, opname, other, escape):
    """ids selected by the real statement, or None when the API refuses the operator on this receiver; also the SQL text"""
    recv, idcol = _receiver_env()["receivers"][name]
    kw = {} if escape is None else {"escape": escape}
    try:
        crit = getattr(operators, opname)(recv, other, autoescape=True, **kw)
        stmt = select(idcol).where(crit)
    except (NotImplementedError, TypeError, exc.InvalidRequestError, exc.ArgumentError):
        return None, None
    return {r[0] for r in conn.execute(stmt)}, stmt


def _work_receivers(task):
    others, maxlen = task
    rows = S.strings(ALPHABET, maxlen)
    lower = [r.lower() for r in rows]
    allids = set(range(1, len(rows) + 1))
    names = list(_receiver_env()["receivers"])
    n = discriminating = refused = 0
    fails, samples = [], []
    per_receiver = dict.fromkeys(names, 0)
    with warnings.catch_warnings():
        warnings.simplefilter("ignore")
        eng = _receiver_engine(rows)
        with eng.connect() as conn:
            for other in others:
                lo = other.lower()
                want_by = {}
                for opname, kind, ci, neg in OPS:
                    pos = {i + 1 for i in range(len(rows)) if _py(kind, lower[i] if ci else rows[i], lo if ci else other)}
                    want_by[opname] = allids - pos if neg else pos
                # what the same operator selects when nothing is escaped (the raw operand as LIKE pattern), measured on the
                # plain column: a verdict is non-trivial when it differs from that
                raw = {}
                for opname, kind, ci, neg in OPS:
                    sql = "SELECT id FROM t WHERE %s(%s LIKE %s)" % ("NOT " if neg else "", "lower(s)" if ci else "s",
                                                                     {"startswith": "? || '%'", "endswith": "'%' || ?", "contains": "'%' || ? || '%'"}[kind])
                    raw[opname] = {r[0] for r in conn.exec_driver_sql(sql, (lo if ci else other,))}
                for escape in ESCAPES:
                    for name in names:
                        for opname, kind, ci, neg in OPS:
                            got, stmt = _receiver_case(conn, name, opname, other, escape)
                            if got is None:
                                refused += 1
                                continue
                            want = want_by[opname]
                            n += len(rows)
                            per_receiver[name] += 1
                            discriminating += len(raw[opname] ^ want)
                            if got != want and len(fails) < 40:
                                i = sorted(got ^ want)[0]
                                fails.append(_fail("receiver", opname, escape, other, rows[i - 1], i in want, i in got, receiver=name,
                                                   rows_differing=len(got ^ want), sql=str(stmt.compile(eng))))
                            elif len(samples) < 2 and name.startswith("association_proxy") and raw[opname] != want and not neg and escape:
                                samples.append(dict(receiver=name, op=opname, escape=escape, other=other, sql=str(stmt.compile(eng)),
                                                    rows_matched=len(got), rows=len(rows)))
        eng.dispose()
    for f in fails:
        f["input"]["receiver"] = f.pop("receiver")
    return dict(n=n, discriminating=discriminating, refused=refused, fails=fails, samples=samples, per_receiver=per_receiver)


# ------------------------------------------------------------------------------------------------ ensures[evaluator]

def _evaluator_case(sess, objs, T, k, opname, other, escape):
    """(ids of in-session objects marked, ids of database rows marked) by one bulk UPDATE synchronized by evaluation;
    (None, None) when the evaluator refuses the criteria"""
    kw = {} if escape is None else {"escape": escape}
    crit = getattr(operators, opname)(T.s, other, autoescape=True, **kw)
    try:
        sess.execute(update(T).where(crit).values(flag=k), execution_options={"synchronize_session": "evaluate"})
    except exc.InvalidRequestError:
        return None, None
    t = T.__table__
    in_db = {r[0] for r in sess.connection().execute(select(t.c.id).where(t.c.flag == k))}
    return {o.id for o in objs if o.flag == k}, in_db


def _work_evaluator(task):
    others, maxlen = task
    rows = S.strings(ALPHABET, maxlen)
    lower = [r.lower() for r in rows]
    allids = set(range(1, len(rows) + 1))
    T = _receiver_env()["T"]
    n = refused = nontrivial = k = 0
    fails = []
    by_op = {}
    with warnings.catch_warnings():
        warnings.simplefilter("ignore")
        eng = _receiver_engine(rows)
        with Session(eng, autoflush=False) as sess:
            objs = list(sess.execute(select(T).order_by(T.id)).scalars())
            for other in others:
                lo = other.lower()
                for escape in ESCAPES:
                    for opname, kind, ci, neg in OPS:
                        k += 1
                        got, in_db = _evaluator_case(sess, objs, T, k, opname, other, escape)
                        if got is None:
                            refused += 1
                            continue
                        pos = {i + 1 for i in range(len(rows)) if _py(kind, lower[i] if ci else rows[i], lo if ci else other)}
                        want = allids - pos if neg else pos
                        n += len(rows)
                        by_op[opname] = by_op.get(opname, 0) + 1
                        nontrivial += any(c in other for c in "%_" + (escape or "/"))
                        if got != want or in_db != want:  # every failing update is kept (at most 12 * 3 * len(others)): the count must not depend on the number of workers
                            i = sorted((got ^ want) or (in_db ^ want))[0]
                            f = _fail("evaluator", opname, escape, other, rows[i - 1], i in want, dict(session=i in got, database=i in in_db),
                                      objects_differing=len(got ^ want), rows_differing=len(in_db ^ want))
                            f["function"] = "orm.evaluator (synchronize_session='evaluate') " + opname
                            f["input"]["backend"] = "orm-evaluator"
                            fails.append(f)
            sess.rollback()
        eng.dispose()
    return dict(n=n, refused=refused, nontrivial=nontrivial, fails=fails, by_op=by_op)


def _crosscheck(task):
    """spec function vs sqlite3: every pattern of the chunk x every string x every escape"""
    pats, maxlen = task
    rows = S.strings(ALPHABET, maxlen)
    con = _connect(rows)
    n = 0
    mism = []
    for p in pats:
        for esc in ("/", "\\", "^"):
            got = {r[0] for r in con.execute("SELECT s FROM t WHERE s LIKE ? ESCAPE ?", (p, esc))}
            for r in rows:
                n += 1
                if S.like_match(p, r, esc) != (r in got) and len(mism) < 5:
                    mism.append((p, r, esc, r in got))
    con.close()
    return n, mism


def run(run, tier, seed, args):
    import sqlalchemy
    maxlen = 3 if tier == "quick" else 4
    strs = S.strings(ALPHABET, maxlen)
    nj = S.jobs()
    # cross-check of the spec function (always on the quick scope: 400 x 400 x 3)
    cc = S.pmap(_crosscheck, [(c, 3) for c in S.chunks(S.strings(ALPHABET, 3), nj)])
    cc_n = sum(c[0] for c in cc)
    cc_mism = [m for c in cc for m in c[1]]
    if cc_mism:
        run.crashes.append("spec function like_match disagrees with sqlite3 LIKE: %r" % (cc_mism[:3],))
    res = S.pmap(_work, [(c, maxlen) for c in S.chunks(strs, nj * 4)])
    recv_others = S.strings(ALPHABET, 2 if tier == "quick" else 3)
    rres = S.pmap(_work_receivers, [(c, 3) for c in S.chunks(recv_others, nj * 2)])
    ev_others = S.strings(ALPHABET, 2)
    eres = S.pmap(_work_evaluator, [(c, 2 if tier == "quick" else 3) for c in S.chunks(ev_others, nj)])
    F = S.Findings(run)
    F.extend(sorted((f for r in res + rres + eres for f in r["fails"]),      # smallest failing input first
                    key=lambda f: (len(f["input"]["other"]) + len(f["input"]["s"]), f["input"]["op"], f["input"]["other"])))
    F.finish()
    n_backend = sum(r["n_backend"] for r in res)
    n_spec = sum(r["n_spec"] for r in res)
    expected_cases = len(OPS) * len(ESCAPES) * len(strs) * len(strs)
    if n_backend != expected_cases:
        run.crashes.append("enumeration incomplete: %d of %d cases" % (n_backend, expected_cases))
    names = list(_receiver_env()["receivers"])
    per_receiver = {k: sum(r["per_receiver"][k] for r in rres) for k in names}
    expected_stmts = len(OPS) * len(ESCAPES) * len(recv_others)
    short = {k: v for k, v in per_receiver.items() if v != expected_stmts}
    if short:
        run.crashes.append("receiver enumeration incomplete (operator refused?): %r of %d statements each" % (short, expected_stmts))
    n_recv = sum(r["n"] for r in rres)
    run.coverage.update(
        evaluations=n_backend + n_recv + sum(r["n"] for r in eres),
        distinct_nontrivial=sum(r["discriminating"] for r in res) + sum(r["discriminating"] for r in rres),
        receiver_evaluations=n_recv,
        evaluator_evaluations=sum(r["n"] for r in eres),
        evaluator_updates_by_operator={k: sum(r["by_op"].get(k, 0) for r in eres) for k in sorted({k for r in eres for k in r["by_op"]})},
        evaluator_updates_refused=sum(r["refused"] for r in eres),
        evaluator_updates_with_operand_needing_escape=sum(r["nontrivial"] for r in eres),
        receiver_statements_executed=per_receiver,
        receiver_statements_refused=sum(r["refused"] for r in rres),
        receiver_samples=[x for r in rres for x in r["samples"]][:3],
        rule="every (operator, escape, other, s) of the scope is one case (all distinct by construction: exhaustive product). "
             "Non-trivial = the verdict depends on the escaping: the same compiled SQL run with the *raw* operand as pattern "
             "selects/rejects row s differently from the literal semantics (measured on sqlite3, row by row). ensures[receiver]: one "
             "case = (receiver, operator, escape, other, row), the statement executed through a real Engine; non-trivial by the same "
             "measure (the operator with the raw operand and no ESCAPE on the plain column decides the row differently).",
        operands_rewritten_by_real_function=sum(r["rewritten"] for r in res),
        spec_evaluations=n_spec,
        like_match_vs_sqlite_triples=cc_n,
        like_match_vs_sqlite_mismatches=len(cc_mism),
        samples=[s for r in res for s in r["samples"]][:6],
        exhaustive=True,
        scope="alphabet %r; other, s: all strings of length 0..%d (%d each); escape in default '/', '\\', '^'; 12 operators "
              "(startswith/endswith/contains, i-forms, not_ forms); autoescape=True; receivers %s x 12 operators x 3 escapes x other: all "
              "strings of length 0..%d (%d) x rows: all strings of length 0..3 (400)"
              % (ALPHABET, maxlen, len(strs), names, 2 if tier == "quick" else 3, len(recv_others)),
        sqlalchemy_tree=sqlalchemy.__file__, sqlite_version=sqlite3.sqlite_version,
    )
    run.assumptions += [
        "SQLite's LIKE (in-process sqlite3, PRAGMA case_sensitive_like=ON) stands for 'a backend'; that PostgreSQL / MySQL / "
        "MSSQL / Oracle implement LIKE ... ESCAPE as the spec function like_match does is an assumed contract (checked for SQLite only)",
        "i-forms: lower() on both sides, ASCII only (SQLite's lower() is ASCII); non-ASCII case folding is outside",
        "escape characters '%' and '_' are outside the precondition (the real function special-cases them); an explicit escape "
        "without autoescape leaves escaping to the caller and has no literal-semantics contract",
        "MySQL's default NO_BACKSLASH_ESCAPES=off changes how a '\\' ESCAPE literal is lexed: string-literal lexing is C05's subject, outside here",
        "Python str.startswith / str.endswith / `in` are the definition of prefix / suffix / substring",
        "receivers: an association proxy reached through aliased() is outside (on the unchanged tree its EXISTS is not correlated to the "
        "alias for ANY operator, == included - not a matter of LIKE escaping); proxies of proxies, hybrid properties with a custom "
        "Comparator class and operands that are closure variables of lambda statements refuse the operator (NotImplementedError / "
        "TypeError) and are outside; collection proxies with zero or "
        "several related rows (EXISTS = any) are outside: every parent has exactly one related string",
    ]


def replay(data):
    inp = data["input"]
    opname, escape, other, s = inp["op"], inp["escape"], inp["other"], inp["s"]
    kind = next(k for k in KINDS if k in opname)
    ci = opname.replace("not_", "").startswith("i")
    neg = opname.startswith("not_")
    if inp.get("backend") == "orm-evaluator":
        with warnings.catch_warnings():
            warnings.simplefilter("ignore")
            eng = _receiver_engine([s])
            T = _receiver_env()["T"]
            with Session(eng, autoflush=False) as sess:
                objs = list(sess.execute(select(T)).scalars())
                got, in_db = _evaluator_case(sess, objs, T, 1, opname, other, escape)
                sess.rollback()
            eng.dispose()
        want = (_py(kind, s.lower(), other.lower()) if ci else _py(kind, s, other)) != neg
        bad = got is not None and ((1 in got) != want or (1 in in_db) != want)
        print("%s C08 update(T).where(%s(T.s, %r, escape=%r, autoescape=True)) synchronize_session='evaluate', object / row with s=%r: "
              "object marked=%s, database row marked=%s (literal semantics: %s)"
              % ("REPLAY-FAILS" if bad else "REPLAY-PASSES", opname, other, escape, s, None if got is None else 1 in got,
                 None if got is None else 1 in in_db, want))
        return 1 if bad else 0
    if "receiver" in inp:
        with warnings.catch_warnings():
            warnings.simplefilter("ignore")
            eng = _receiver_engine([s])
            with eng.connect() as conn:
                got, stmt = _receiver_case(conn, inp["receiver"], opname, other, escape)
            sql = None if stmt is None else str(stmt.compile(eng))
            eng.dispose()
        want = (_py(kind, s.lower(), other.lower()) if ci else _py(kind, s, other)) != neg
        bad = got is None or (1 in got) != want
        print("%s C08 %s(<%s>, %r, escape=%r, autoescape=True) on the row with string %r: sql=%r; row selected=%s (literal semantics: %s)"
              % ("REPLAY-FAILS" if bad else "REPLAY-PASSES", opname, inp["receiver"], other, escape, s, sql, None if got is None else 1 in got, want))
        return 1 if bad else 0
    e, esc, sql, params = _build(opname, other, escape)
    want = _py(kind, s.lower(), other.lower()) if ci else _py(kind, s, other)
    spec = S.like_match(_wrap(kind, e.lower() if ci else e), s.lower() if ci else s, esc)
    con = _connect([s])
    got = bool(con.execute("SELECT count(*) FROM t WHERE " + sql, params).fetchone()[0])
    con.close()
    bad = (spec != want) or (got != (want != neg))
    print("%s C08 %s(column, %r, escape=%r, autoescape=True) on row %r: bound=%r escape=%r sql=%r; literal semantics=%s, "
          "like_match(spec)=%s, sqlite row selected=%s (expected %s)"
          % ("REPLAY-FAILS" if bad else "REPLAY-PASSES", opname, other, escape, s, e, esc, sql, want, spec, got, want != neg))
    return 1 if bad else 0
