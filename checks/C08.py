"""C08 - LIKE-based string operators with autoescape=True match literal (substring / prefix / suffix) semantics.

Functions under contract (real code, /repo/lib/sqlalchemy):
  sql/operators.py   _escaped_like_impl, reached through the twelve operator functions
                     startswith_op endswith_op contains_op istartswith_op iendswith_op icontains_op and their not_ forms
                     (what ColumnOperators.startswith(..., autoescape=True) etc. call)
  sql/compiler.py    SQLCompiler.visit_{,not_}{,i}{contains,startswith,endswith}_op_binary (pattern assembly
                     '%' || x || '%', lower() wrapping of both sides for the i-forms), visit_like_op_binary /
                     visit_not_like_op_binary (ESCAPE clause), on the SQLite dialect

Contract K.  requires: `other`, `s` are str; escape is None (default "/") or one character not in {%, _}.
  Let expr = OP(column, other, escape=escape, autoescape=True), e = expr.right.value (the bound operand the real
  function produced), esc = expr.modifiers["escape"].
  ensures[spec]    like_match(W(e), s, esc)  <=>  PY(s, other)
                   W = e+"%" / "%"+e / "%"+e+"%",  PY = str.startswith / str.endswith / `other in s`;
                   for the i-forms both pattern and s are ASCII-lowercased and PY is applied to the lowercased strings;
                   not_ forms must produce the same e / esc as the positive form (their verdict is the complement).
                   like_match is the spec function of SQL LIKE ... ESCAPE (rtc/strspec.py).
  ensures[backend] the SQL text the real compiler emits for expr, executed by the in-process sqlite3 with
                   PRAGMA case_sensitive_like=ON on a table holding every s of the scope, selects exactly the rows
                   {s | PY(s, other)} (complement for the not_ forms).
  The spec function like_match is itself cross-checked against sqlite3's LIKE on all (pattern, string, escape)
  triples of the quick scope (a disagreement is a checker error, exit 3, not a violation).

Scope Bd (exhaustive): alphabet { % _ / \\ ' a A }; other and s range over ALL strings of length 0..3 (quick, 400
  each) / 0..4 (thorough, 2801 each); escape in { default "/", "\\", "^" }; all 12 operators.
  quick: 12*3*400*400 = 5 760 000 (op, escape, other, s) cases; thorough: 12*3*2801*2801 = 282 441 636.
"""
import sqlite3

from sqlalchemy import String, column
from sqlalchemy.dialects import sqlite
from sqlalchemy.sql import operators

from rtc import strspec as S

LEVEL = "exploration"

ALPHABET = "%_/\\'aA"
ESCAPES = (None, "\\", "^")
KINDS = ("startswith", "endswith", "contains")
COL = column("s", String)
DIALECT = sqlite.dialect()
OPS = [(neg + i + k + "_op", k, bool(i), bool(neg)) for k in KINDS for i in ("", "i") for neg in ("", "not_")]


def _py(kind, s, other):
    if kind == "startswith":
        return s.startswith(other)
    if kind == "endswith":
        return s.endswith(other)
    return other in s


def _wrap(kind, e):
    if kind == "startswith":
        return e + "%"
    if kind == "endswith":
        return "%" + e
    return "%" + e + "%"


def _build(opname, other, escape):
    """the real operator function and the real compiler; returns (bound operand, escape char, sql, params)"""
    kw = {} if escape is None else {"escape": escape}
    expr = getattr(operators, opname)(COL, other, autoescape=True, **kw)
    compiled = expr.compile(dialect=DIALECT)
    params = [compiled.params[k] for k in compiled.positiontup]
    return expr.right.value, expr.modifiers.get("escape"), str(compiled), params


def _connect(rows):
    con = sqlite3.connect(":memory:")
    con.execute("PRAGMA case_sensitive_like=ON")
    con.execute("CREATE TABLE t (s TEXT NOT NULL)")
    con.executemany("INSERT INTO t (s) VALUES (?)", [(r,) for r in rows])
    return con


def _fail(clause, opname, escape, other, s, expected, actual, **extra):
    return dict(function="sqlalchemy.sql.operators." + opname, clause=clause,
                input=dict(op=opname, escape=escape, other=other, s=s), expected=expected, actual=actual, **extra)


def _work(task):
    others, maxlen = task
    rows = S.strings(ALPHABET, maxlen)
    rowset = set(rows)
    lower = {r: r.lower() for r in rows}
    con = _connect(rows)
    n_backend = n_spec = 0
    discriminating = 0
    rewritten = 0
    fails = []
    samples = []
    for other in others:
        for escape in ESCAPES:
            pos = {}
            for opname, kind, ci, neg in OPS:
                e, esc, sql, params = _build(opname, other, escape)
                if e != other:
                    rewritten += 1
                if ci:
                    lo = other.lower()
                    want = {r for r in rows if _py(kind, lower[r], lo)}
                else:
                    want = {r for r in rows if _py(kind, r, other)}
                # ---- ensures[spec]
                if not neg:
                    pos[(kind, ci)] = (e, esc)
                    pat = _wrap(kind, e.lower() if ci else e)
                    for r in rows:
                        got = S.like_match(pat, lower[r] if ci else r, esc)
                        n_spec += 1
                        if got != (r in want) and len(fails) < 40:
                            fails.append(_fail("spec", opname, escape, other, r, r in want, got, bound=e, escape_used=esc, pattern=pat))
                elif pos[(kind, ci)] != (e, esc) and len(fails) < 40:
                    fails.append(_fail("spec-negated-form-differs", opname, escape, other, "", list(pos[(kind, ci)]), [e, esc]))
                # ---- ensures[backend]
                if neg:
                    want = rowset - want
                got = {r[0] for r in con.execute("SELECT s FROM t WHERE " + sql, params)}
                n_backend += len(rows)
                if got != want:
                    for r in sorted(got ^ want)[:3]:
                        if len(fails) < 40:
                            fails.append(_fail("backend", opname, escape, other, r, r in want, r in got, bound=e, escape_used=esc, sql=sql))
                # how many verdicts depend on the escaping at all: same SQL with the raw operand as the pattern
                try:
                    raw = {r[0] for r in con.execute("SELECT s FROM t WHERE " + sql, [other])}
                    discriminating += len(raw ^ want)
                except sqlite3.Error:
                    pass
                if len(samples) < 3 and e != other and not neg:
                    samples.append(dict(op=opname, escape=escape, other=other, bound=e, escape_used=esc, sql=sql,
                                        rows_matched=len(got), rows=len(rows)))
    con.close()
    return dict(n_backend=n_backend, n_spec=n_spec, discriminating=discriminating, rewritten=rewritten, fails=fails, samples=samples)


def _crosscheck(task):
    """spec function vs sqlite3: every pattern of the chunk x every string x every escape"""
    pats, maxlen = task
    rows = S.strings(ALPHABET, maxlen)
    con = _connect(rows)
    n = 0
    mism = []
    for p in pats:
        for esc in ("/", "\\", "^"):
            got = {r[0] for r in con.execute("SELECT s FROM t WHERE s LIKE ? ESCAPE ?", (p, esc))}
            for r in rows:
                n += 1
                if S.like_match(p, r, esc) != (r in got) and len(mism) < 5:
                    mism.append((p, r, esc, r in got))
    con.close()
    return n, mism


def run(run, tier, seed, args):
    import sqlalchemy
    maxlen = 3 if tier == "quick" else 4
    strs = S.strings(ALPHABET, maxlen)
    nj = S.jobs()
    # cross-check of the spec function (always on the quick scope: 400 x 400 x 3)
    cc = S.pmap(_crosscheck, [(c, 3) for c in S.chunks(S.strings(ALPHABET, 3), nj)])
    cc_n = sum(c[0] for c in cc)
    cc_mism = [m for c in cc for m in c[1]]
    if cc_mism:
        run.crashes.append("spec function like_match disagrees with sqlite3 LIKE: %r" % (cc_mism[:3],))
    res = S.pmap(_work, [(c, maxlen) for c in S.chunks(strs, nj * 4)])
    F = S.Findings(run)
    F.extend(sorted((f for r in res for f in r["fails"]),      # smallest failing input first
                    key=lambda f: (len(f["input"]["other"]) + len(f["input"]["s"]), f["input"]["op"], f["input"]["other"])))
    F.finish()
    n_backend = sum(r["n_backend"] for r in res)
    n_spec = sum(r["n_spec"] for r in res)
    expected_cases = len(OPS) * len(ESCAPES) * len(strs) * len(strs)
    if n_backend != expected_cases:
        run.crashes.append("enumeration incomplete: %d of %d cases" % (n_backend, expected_cases))
    run.coverage.update(
        evaluations=n_backend,
        distinct_nontrivial=sum(r["discriminating"] for r in res),
        rule="every (operator, escape, other, s) of the scope is one case (all distinct by construction: exhaustive product). "
             "Non-trivial = the verdict depends on the escaping: the same compiled SQL run with the *raw* operand as pattern "
             "selects/rejects row s differently from the literal semantics (measured on sqlite3, row by row).",
        operands_rewritten_by_real_function=sum(r["rewritten"] for r in res),
        spec_evaluations=n_spec,
        like_match_vs_sqlite_triples=cc_n,
        like_match_vs_sqlite_mismatches=len(cc_mism),
        samples=[s for r in res for s in r["samples"]][:6],
        exhaustive=True,
        scope="alphabet %r; other, s: all strings of length 0..%d (%d each); escape in default '/', '\\', '^'; 12 operators "
              "(startswith/endswith/contains, i-forms, not_ forms); autoescape=True" % (ALPHABET, maxlen, len(strs)),
        sqlalchemy_tree=sqlalchemy.__file__, sqlite_version=sqlite3.sqlite_version,
    )
    run.assumptions += [
        "SQLite's LIKE (in-process sqlite3, PRAGMA case_sensitive_like=ON) stands for 'a backend'; that PostgreSQL / MySQL / "
        "MSSQL / Oracle implement LIKE ... ESCAPE as the spec function like_match does is an assumed contract (checked for SQLite only)",
        "i-forms: lower() on both sides, ASCII only (SQLite's lower() is ASCII); non-ASCII case folding is outside",
        "escape characters '%' and '_' are outside the precondition (the real function special-cases them); an explicit escape "
        "without autoescape leaves escaping to the caller and has no literal-semantics contract",
        "MySQL's default NO_BACKSLASH_ESCAPES=off changes how a '\\' ESCAPE literal is lexed: string-literal lexing is C05's subject, outside here",
        "Python str.startswith / str.endswith / `in` are the definition of prefix / suffix / substring",
    ]


def replay(data):
    inp = data["input"]
    opname, escape, other, s = inp["op"], inp["escape"], inp["other"], inp["s"]
    kind = next(k for k in KINDS if k in opname)
    ci = opname.replace("not_", "").startswith("i")
    neg = opname.startswith("not_")
    e, esc, sql, params = _build(opname, other, escape)
    want = _py(kind, s.lower(), other.lower()) if ci else _py(kind, s, other)
    spec = S.like_match(_wrap(kind, e.lower() if ci else e), s.lower() if ci else s, esc)
    con = _connect([s])
    got = bool(con.execute("SELECT count(*) FROM t WHERE " + sql, params).fetchone()[0])
    con.close()
    bad = (spec != want) or (got != (want != neg))
    print("%s C08 %s(column, %r, escape=%r, autoescape=True) on row %r: bound=%r escape=%r sql=%r; literal semantics=%s, "
          "like_match(spec)=%s, sqlite row selected=%s (expected %s)"
          % ("REPLAY-FAILS" if bad else "REPLAY-PASSES", opname, other, escape, s, e, esc, sql, want, spec, got, want != neg))
    return 1 if bad else 0
