"""C12 — bulk INSERT .. RETURNING / insertmanyvalues: one row per parameter set, in parameter order (bounded run-time contract check).

Functions under contract (real code, imported from sqlalchemy; nothing copied):
  F1  SQLCompiler._deliver_insertmanyvalues_batches            (sql/compiler.py: batch slicing + statement / parameter rewriting)
  F2  DefaultDialect._deliver_insertmanyvalues_batches          (engine/default.py: re-ordering of RETURNING rows by sentinel)
  F3  Connection._exec_insertmany_context, end to end on SQLite (engine/base.py)

Contract of F1, over the ghost `out` = list of yielded _InsertManyValuesBatch  (requires len(parameters) >= 1):
  E1  concat(b.batch for b in out) == list(parameters)                       (same objects, same order: every set exactly once)
  E2  forall b: 1 <= len(b.batch) <= B  and  b.current_batch_size == len(b.batch),
      B = batch_size, reduced to (max_params - params_outside_VALUES) // params_per_row when the dialect sets
      insertmanyvalues_max_parameters;  only the last batch may be shorter than B;  row-at-a-time when the generator says "downgraded"
  E3  b.batchnum == 1, 2, ... ;  b.total_batches == len(out) == ceil(len(parameters) / B)
  E4  with max_params: number of bound values of b.replaced_parameters <= max_params
  E5  b.replaced_parameters carries exactly the batch's values, in order, at the VALUES positions, and the parameters outside VALUES
      unchanged (positional: left ++ rows ++ right;  named: key__<i> -> batch[i][key]);  b.replaced_statement has exactly one
      placeholder per bound value (numeric styles: $1..$N / :1..:N, each once) and VALUES counters 0..len-1 when embedded
  E6  b.sentinel_values[i] == sentinel(compiled_parameters[offset + i])

Contract of F2 (sort_by_parameter_order=True), over a stub "server" that answers each batch with one RETURNING row per
parameter set *in any order* (every permutation of <= 3 rows; reversal / rotation / swap beyond):
  E7  context._insertmanyvalues_rows == [row_of(parameters[i]) for i in range(n)]      (n-th row belongs to n-th parameter set)
  without sort_by_parameter_order: same multiset.

Contract of F3 on in-memory SQLite through an execution context whose fetchall_for_returning() permutes each batch's rows:
  E8  len(result rows) == n; sorted: rows[i].x == parameters[i].x (and rows[i].id == parameters[i].id when the key is given);
      stored table rows == parameters (+ defaults), each exactly once; returned (id, x) pairs == stored (id, x) pairs;
      inserted_primary_key_rows[i] belongs to parameters[i].

Generative composition (E9).  returning() / return_defaults() are generative and additive; the statement asks for parameter
order when ANY of the calls that built it passed sort_by_parameter_order=True (the flag is only ever switched on):
  E9a  stmt._sort_by_parameter_order == (some call passed True)                      (frame of the generative methods)
  E9b  F2 (stub server, every dialect) and F3 (SQLite, permuting context) hold with `sort` = "some call passed True", for the
       statement built by each composition: one call; two calls with the flag on the first / last / both / neither; a
       columns-less returning(sort_by_parameter_order=True) before / after / between the calls that give the columns; an
       explicit False after a True; values() before / after / between; return_defaults() with the flag on the first / last
       call and with supplemental_cols (checked through inserted_primary_key_rows / returned_defaults_rows / the rewound rows);
       the return_defaults compositions also right after insert(t).return_defaults(sort_by_parameter_order=True) went through
       the same compiled cache (part execute-sqlite-cache)
  E9c  ORM bulk INSERT on SQLite (same permuting context): Session.execute / Session.scalars of insert(Model) with
       .returning(Model | columns) built by the same compositions and a list of parameter sets - the n-th entity / row
       belongs to the n-th parameter set; Session.bulk_insert_mappings(return_defaults=True), bulk_save_objects(
       return_defaults=True) and add_all() + flush(): the primary key written back to the n-th mapping / object is the
       stored key of ITS row.

Parameter sets with non-uniform keys (E10).  The property quantifies over every list of parameter sets; a Core executemany
requires like-keyed sets (the first set decides the statement), the ORM paths do not: orm/persistence.py
_emit_insert_statements groups the list into maximal runs of like-keyed sets, executes one executemany per run and splices the
results.  Key profile = per parameter set the subset of optional keys it carries: `d` (column with a Python-side default)
and, where the primary key is otherwise generated (autoinc, client_uuid), `id` (given keys never collide with generated ones).
  E10  for every key profile over n sets (all (2^|optional|)^n of them) and each ORM path of PROFILE_PATHS (Session.execute /
       scalars with RETURNING columns / entity, flag given / composed / absent; bulk_insert_mappings, bulk_save_objects,
       add_all + flush): every parameter set is stored exactly once with its own id / x / d (default 5 when d is omitted);
       the returned rows / entities / written-back keys are the stored ones, and with parameter order requested the n-th
       belongs to the n-th parameter set - whatever the number of runs (recorded as key_runs).
"""
import itertools
import json
import math
import multiprocessing
import re
import time
import uuid
import warnings

LEVEL = "exploration"

SLICE_DIALECTS = ["sqlite:qmark", "sqlite:numeric", "sqlite:named", "postgresql:pyformat", "postgresql:numeric_dollar", "postgresql:format",
                  "mariadb:qmark", "mariadb:format", "mssql:qmark", "mssql:named"]
STMT_SHAPES = ["plain", "returning_bind", "sql_expr_value"]
SENTINELS = ["autoinc", "client_pk", "insert_sentinel", "unsorted"]
PAGES = range(1, 9)
MAXP = [None, 7, 10]

_ENV = {}


def make_dialect(spec, max_params=None):
    key = ("d", spec, max_params)
    if key in _ENV:
        return _ENV[key]
    warnings.simplefilter("ignore")
    name, ps = spec.split(":")
    if name == "sqlite":
        from sqlalchemy.dialects.sqlite import pysqlite
        d = pysqlite.dialect(paramstyle=ps)
    elif name == "postgresql":
        from sqlalchemy.dialects.postgresql import psycopg2, asyncpg, pg8000
        d = {"pyformat": psycopg2, "numeric_dollar": asyncpg, "format": pg8000}[ps].dialect()
    elif name == "mariadb":
        from sqlalchemy.dialects.mysql import mariadbconnector, pymysql
        d = (mariadbconnector if ps == "qmark" else pymysql).dialect(**({} if ps == "qmark" else {"is_mariadb": True}))
        d.server_version_info = (10, 6, 0)
        d.insert_returning = True
    elif name == "mssql":
        from sqlalchemy.dialects.mssql import pyodbc
        d = pyodbc.dialect(paramstyle=ps)
    else:
        raise AssertionError(spec)
    assert d.paramstyle == ps, (spec, d.paramstyle)
    if max_params is not None:
        d.insertmanyvalues_max_parameters = max_params
    _ENV[key] = d
    return d


def make_table(sentinel):
    from sqlalchemy import MetaData, Table, Column, Integer, insert_sentinel
    m = MetaData()
    if sentinel in ("autoinc", "unsorted"):
        t = Table("t", m, Column("id", Integer, primary_key=True), Column("x", Integer), Column("d", Integer))
    elif sentinel == "client_pk":
        t = Table("t", m, Column("id", Integer, primary_key=True, autoincrement=False), Column("x", Integer), Column("d", Integer))
    elif sentinel == "insert_sentinel":
        t = Table("t", m, Column("id", Integer, primary_key=True, autoincrement=False), Column("x", Integer), Column("d", Integer), insert_sentinel("sn"))
    else:
        raise AssertionError(sentinel)
    return t


def make_statement(t, shape, sentinel, composition=None):
    from sqlalchemy import insert, bindparam, func
    sort = sentinel != "unsorted"
    if composition is not None:
        return compose(composition, insert(t), t.c.id, t.c.x, t.c.d)[0]
    if shape == "plain":
        return insert(t).returning(t.c.id, t.c.x, sort_by_parameter_order=sort)
    if shape == "returning_bind":
        return insert(t).returning(t.c.id, (t.c.x + bindparam("q", 7)).label("e"), sort_by_parameter_order=sort)
    if shape == "sql_expr_value":
        return insert(t).values(d=func.abs(bindparam("d"))).returning(t.c.id, t.c.x, sort_by_parameter_order=sort)
    raise AssertionError(shape)


def _compositions():
    """name -> (build(insert_stmt, id, x, d) -> stmt, some call passed sort_by_parameter_order=True, kind)
    id / x / d: the column (or ORM attribute) objects; every `returning` composition returns exactly (id, x)"""
    S = dict(sort_by_parameter_order=True)
    return {
        "single-flag": (lambda i, id, x, d: i.returning(id, x, **S), True, "returning"),
        "single-noflag": (lambda i, id, x, d: i.returning(id, x), False, "returning"),
        "flag-first": (lambda i, id, x, d: i.returning(id, **S).returning(x), True, "returning"),
        "flag-last": (lambda i, id, x, d: i.returning(id).returning(x, **S), True, "returning"),
        "flag-both": (lambda i, id, x, d: i.returning(id, **S).returning(x, **S), True, "returning"),
        "flag-neither": (lambda i, id, x, d: i.returning(id).returning(x), False, "returning"),
        "flag-only-first": (lambda i, id, x, d: i.returning(**S).returning(id, x), True, "returning"),
        "flag-only-last": (lambda i, id, x, d: i.returning(id, x).returning(**S), True, "returning"),
        "flag-only-middle-of-3": (lambda i, id, x, d: i.returning(id).returning(**S).returning(x), True, "returning"),
        "flag-first-of-3": (lambda i, id, x, d: i.returning(id, **S).returning().returning(x), True, "returning"),
        "flag-then-explicit-false": (lambda i, id, x, d: i.returning(id, **S).returning(x, sort_by_parameter_order=False), True, "returning"),
        "values-before": (lambda i, id, x, d: i.values(d=6).returning(id, x, **S), True, "returning"),
        "values-after": (lambda i, id, x, d: i.returning(id, x, **S).values(d=6), True, "returning"),
        "values-between": (lambda i, id, x, d: i.returning(id, **S).values(d=6).returning(x), True, "returning"),
        "return_defaults-flag": (lambda i, id, x, d: i.return_defaults(**S), True, "return_defaults"),
        "return_defaults-noflag": (lambda i, id, x, d: i.return_defaults(), False, "return_defaults"),
        "return_defaults-flag-first": (lambda i, id, x, d: i.return_defaults(id, **S).return_defaults(d), True, "return_defaults"),
        "return_defaults-flag-last": (lambda i, id, x, d: i.return_defaults(id).return_defaults(d, **S), True, "return_defaults"),
        "return_defaults-supplemental": (lambda i, id, x, d: i.return_defaults(supplemental_cols=[x], **S), True, "return_defaults+rows"),
        "return_defaults-supplemental-flag-first": (lambda i, id, x, d: i.return_defaults(**S).return_defaults(supplemental_cols=[x]), True, "return_defaults+rows"),
    }


COMPOSITIONS = _compositions()
RETURNING_COMPOSITIONS = [k for k, v in COMPOSITIONS.items() if v[2] == "returning"]


def compose(composition, ins, id_, x, d):
    build, requested, kind = COMPOSITIONS[composition]
    return build(ins, id_, x, d), requested, kind


def param_sets(sentinel, n):
    out = []
    for i in range(n):
        p = {"x": 10 * i + 1, "d": 5}
        if sentinel in ("client_pk", "insert_sentinel"):
            p["id"] = 100 + 7 * ((i * 3) % n) + i       # not monotonic in i
        if sentinel == "insert_sentinel":
            p["sn"] = 900 - i
        out.append(p)
    return out


def compile_case(spec, shape, sentinel, n, max_params, composition=None):
    d = make_dialect(spec, max_params)
    t = make_table(sentinel)
    stmt = make_statement(t, shape, sentinel, composition)
    psets = param_sets(sentinel, n)
    if composition is not None and composition.startswith("values-"):
        psets = [{k: v for k, v in p.items() if k != "d"} for p in psets]
    compiled = stmt.compile(dialect=d, column_keys=sorted(psets[0]), for_executemany=True)
    cps = [compiled.construct_params(p, escape_names=False) for p in psets]
    if compiled.positional:
        params = [tuple(cp[k] for k in compiled.positiontup) for cp in cps]
    else:
        esc = compiled.escaped_bind_names or {}
        params = [{esc.get(k, k): v for k, v in cp.items()} for cp in cps]
    return d, t, compiled, cps, params


def values_names(compiled):
    names = set()
    for e in compiled._insertmanyvalues.insert_crud_params:
        names.update(e[3])
    return names


def placeholders(compiled, statement, nparams, keys):
    """number of placeholders in the statement, per paramstyle -> (ok, detail)"""
    ps = compiled.dialect.paramstyle
    if ps == "qmark":
        return statement.count("?") == nparams, f"{statement.count('?')} '?' for {nparams} values"
    if ps == "format":
        return statement.count("%s") == nparams, f"{statement.count('%s')} '%s' for {nparams} values"
    if ps in ("numeric", "numeric_dollar"):
        ch = "$" if ps == "numeric_dollar" else ":"
        found = sorted(int(x) for x in re.findall(re.escape(ch) + r"(\d+)", statement))
        return found == list(range(1, nparams + 1)), f"numbered placeholders {found} for {nparams} values"
    tmpl = {"named": ":%s", "pyformat": "%%(%s)s"}[ps]
    bad = [k for k in keys if len(re.findall(re.escape(tmpl % k) + r"(?![A-Za-z0-9_])", statement)) != 1]
    return not bad, f"placeholders not exactly once: {bad}"


def check_slicing(spec, shape, sentinel, n, page, max_params):
    """drive F1 directly; -> (failures, evaluations, info)"""
    d, t, compiled, cps, params = compile_case(spec, shape, sentinel, n, max_params)
    imv = compiled._insertmanyvalues
    if imv is None:
        return None
    sort = sentinel != "unsorted"
    desc = dict(part="slicing", dialect=spec, statement_shape=shape, sentinel=sentinel, rows=n, page_size=page, max_parameters=max_params)
    fails = []

    def fail(clause, **kw):
        fails.append(dict(desc, clause=clause, **kw))
    try:
        out = list(compiled._deliver_insertmanyvalues_batches(str(compiled), params, cps, None, page, sort, None))
    except Exception as e:  # noqa: BLE001
        fail("no-exception", got=f"{type(e).__name__}: {e}"[:200])
        return fails, 1, {}
    vnames = values_names(compiled)
    per_row = len(imv.insert_crud_params)
    total = len(compiled.bind_names)
    B = page
    if max_params:
        B = min(B, (max_params - (total - per_row)) // per_row)
    downgraded = bool(out) and out[0].is_downgraded     # the generator's own statement that it fell back to row-at-a-time
    if downgraded:
        B = 1
    evals = 0
    # E1
    flat = [p for b in out for p in b.batch]
    evals += 1
    if len(flat) != len(params) or any(a is not b for a, b in zip(flat, params)):
        fail("E1 concat(batches) == parameters", expected_rows=n, got_rows=len(flat), got_index=[next((i for i, p in enumerate(params) if p is q), None) for q in flat])
    # E2 / E3
    evals += 1
    sizes = [len(b.batch) for b in out]
    if any(s < 1 or s > B for s in sizes) or any(s != B for s in sizes[:-1]) or any(b.current_batch_size != len(b.batch) for b in out):
        fail("E2 batch sizes", B=B, sizes=sizes, current_batch_size=[b.current_batch_size for b in out])
    evals += 1
    want_total = math.ceil(n / B)
    if [b.batchnum for b in out] != list(range(1, len(out) + 1)) or any(b.total_batches != len(out) for b in out) or len(out) != want_total:
        fail("E3 batch numbers", batchnum=[b.batchnum for b in out], total_batches=[b.total_batches for b in out], expected_batches=want_total)
    sent = None
    if imv.sentinel_param_keys:
        import operator
        sent = operator.itemgetter(*imv.sentinel_param_keys)
    offset = 0
    for b in out:
        k = len(b.batch)
        rp = b.replaced_parameters
        single = downgraded or imv.is_default_expr
        # E4
        if max_params and not single:
            evals += 1
            if len(rp) > max_params:
                fail("E4 max parameters", batchnum=b.batchnum, bound_values=len(rp), max_parameters=max_params)
        # E5
        evals += 1
        if single:
            if rp is not b.batch[0] and rp != b.batch[0]:
                fail("E5 replaced parameters (row at a time)", batchnum=b.batchnum, got=repr(rp)[:200])
        elif compiled.positional:
            pos = [i for i, nm in enumerate(compiled.positiontup) if nm in vnames]
            lo, hi = min(pos), max(pos) + 1
            want = tuple(b.batch[0][:lo]) + tuple(v for row in b.batch for v in row[lo:hi]) + tuple(b.batch[0][hi:])
            if tuple(rp) != want:
                fail("E5 replaced parameters (positional)", batchnum=b.batchnum, expected=list(want), got=list(rp))
            ok, detail = placeholders(compiled, b.replaced_statement, len(want), None)
            evals += 1
            if not ok:
                fail("E5 placeholders", batchnum=b.batchnum, detail=detail, statement=b.replaced_statement[:300])
        else:
            esc = compiled.escaped_bind_names or {}
            vkeys = {esc.get(x, x) for x in vnames}
            want = {kk: v for kk, v in b.batch[0].items() if kk not in vkeys}
            for i, row in enumerate(b.batch):
                for kk in vkeys:
                    want[f"{kk}__{i}"] = row[kk]
            if dict(rp) != want:
                fail("E5 replaced parameters (named)", batchnum=b.batchnum, expected=want, got=dict(rp))
            ok, detail = placeholders(compiled, b.replaced_statement, len(want), list(want))
            evals += 1
            if not ok:
                fail("E5 placeholders", batchnum=b.batchnum, detail=detail, statement=b.replaced_statement[:300])
        if imv.embed_values_counter and not single:
            evals += 1
            counters = [int(x) for x in re.findall(r", (\d+)\)", b.replaced_statement)]
            if counters != list(range(k)):
                fail("E5 VALUES counters", batchnum=b.batchnum, got=counters, expected=list(range(k)))
        # E6
        if sent is not None:
            evals += 1
            want_s = [sent(cp) for cp in cps[offset:offset + k]]
            if list(b.sentinel_values) != want_s:
                fail("E6 sentinel values", batchnum=b.batchnum, expected=want_s, got=list(b.sentinel_values))
        offset += k
    info = dict(batches=len(out), downgraded=downgraded, B=B, positional=compiled.positional, sentinel_keys=imv.sentinel_param_keys,
                implicit_sentinel=imv.implicit_sentinel, embed_counter=imv.embed_values_counter)
    return fails, evals, info


# ------------------------------------------------------------------------------------------------ F2 with a stub server
def perms_for(k, which):
    """the `which`-th permutation for a batch of k rows (all k! for k <= 3; identity, reversed, rotations, a swap beyond)"""
    if k <= 3:
        ps = list(itertools.permutations(range(k)))
    else:
        ident = list(range(k))
        ps = [tuple(ident), tuple(reversed(ident)), tuple(ident[1:] + ident[:1]), tuple(ident[-1:] + ident[:-1]),
              tuple([1, 0] + ident[2:]), tuple(ident[:-2] + [k - 1, k - 2])]
    return ps[which % len(ps)]


N_PERMS = 6


class _StubCursor:
    def __init__(self, ncols):
        self.description = [("c%d" % i, None, None, None, None, None, None) for i in range(ncols)]


class _StubContext:
    def __init__(self, compiled, cps, page, row_for, which):
        self.compiled = compiled
        self.compiled_parameters = cps
        self.execution_options = {"insertmanyvalues_page_size": page}
        self._insertmanyvalues_rows = None
        self._row_for = row_for
        self._which = which
        self.current_batch = None

    def fetchall_for_returning(self, cursor):
        rows = [self._row_for(p) for p in self.current_batch.batch]
        pi = perms_for(len(rows), self._which)
        return [rows[i] for i in pi]


def check_reorder_stub(spec, sentinel, n, page, which, composition=None):
    d, t, compiled, cps, params = compile_case(spec, "plain", sentinel, n, None, composition)
    imv = compiled._insertmanyvalues
    if imv is None:
        return None
    sort = sentinel != "unsorted"
    desc = dict(part="reorder-stub", dialect=spec, sentinel=sentinel, rows=n, page_size=page, permutation=which)
    if composition is not None:
        sort = COMPOSITIONS[composition][1]
        desc["composition"] = composition
    e9a = None
    if composition is not None and bool(compiled.statement._sort_by_parameter_order) != sort:
        e9a = dict(desc, clause="E9a _sort_by_parameter_order == some call asked for it", expected=sort, got=compiled.statement._sort_by_parameter_order)
    nsent = imv.num_sentinel_columns
    index_of = {id(p): i for i, p in enumerate(params)}
    counter = itertools.count(1)
    assigned = {}

    def row_for(p):
        """what a server returns for one parameter set: (id, x) + sentinel columns; autoincrement ids grow in VALUES order"""
        i = index_of[id(p)]
        cp = cps[i]
        if sentinel in ("autoinc", "unsorted"):
            if i not in assigned:
                assigned[i] = next(counter)
            rid = assigned[i]
        else:
            rid = cp["id"]
        row = (rid, cp["x"])
        if nsent:
            if imv.implicit_sentinel:
                row += (rid,)
            else:
                row += tuple(cp[k] for k in imv.sentinel_param_keys)
        return row
    ctx = _StubContext(compiled, cps, page, row_for, which)
    cursor = _StubCursor(2 + nsent)
    fails = [e9a] if e9a else []
    try:
        gen = d._deliver_insertmanyvalues_batches(None, cursor, str(compiled), params, None, ctx)
        nb = 0
        for b in gen:
            # the server inserts the batch in VALUES order (assigns ids) before any row is fetched
            for p in b.batch:
                row_for(p)
            ctx.current_batch = b
            nb += 1
        got = list(ctx._insertmanyvalues_rows)
    except Exception as e:  # noqa: BLE001
        fails.append(dict(desc, clause="no-exception", got=f"{type(e).__name__}: {e}"[:200]))
        return fails, 1, {}
    want = [row_for(p) for p in params]
    if sort:
        ok = got == want
    else:
        ok = sorted(got) == sorted(want)
    if not ok:
        fails.append(dict(desc, clause="E7 n-th returned row belongs to n-th parameter set" if sort else "E7 same rows", expected=[list(r) for r in want], got=[list(r) for r in got]))
    nontrivial = perms_for(min(n, page), which) != tuple(range(min(n, page)))
    return fails, 1, dict(batches=nb, nontrivial=nontrivial and sort, implicit=imv.implicit_sentinel, nsent=nsent)


# ------------------------------------------------------------------------------------------------ F3 on SQLite
EXEC_STYLES = ["autoinc", "client_uuid", "insert_sentinel", "explicit_pk", "upsert_explicit_pk", "unsorted_autoinc"]
_PERM = {"which": 0}


def exec_engine(style, page):
    key = ("e", style, page)
    if key in _ENV:
        return _ENV[key]
    warnings.simplefilter("ignore")
    from sqlalchemy import create_engine, MetaData, Table, Column, Integer, Uuid, insert_sentinel
    e = create_engine("sqlite://", insertmanyvalues_page_size=page)
    m = MetaData()
    if style in ("autoinc", "unsorted_autoinc"):
        t = Table("t", m, Column("id", Integer, primary_key=True), Column("x", Integer), Column("d", Integer, default=5))
    elif style == "client_uuid":
        t = Table("t", m, Column("id", Uuid, primary_key=True, default=uuid.uuid4), Column("x", Integer), Column("d", Integer, default=5))
    elif style == "insert_sentinel":
        t = Table("t", m, Column("id", Integer, primary_key=True, autoincrement=False), Column("x", Integer), Column("d", Integer, default=5), insert_sentinel("sn"))
    else:
        t = Table("t", m, Column("id", Integer, primary_key=True, autoincrement=False), Column("x", Integer), Column("d", Integer, default=5))
    m.create_all(e)
    base = e.dialect.execution_ctx_cls

    def fetchall_for_returning(self, cursor, _o=base.fetchall_for_returning):
        rows = list(_o(self, cursor))
        pi = perms_for(len(rows), _PERM["which"])
        return [rows[i] for i in pi]
    e.dialect.execution_ctx_cls = type("PermutingContext", (base,), {"fetchall_for_returning": fetchall_for_returning})
    _ENV[key] = (e, t, e.connect())
    return _ENV[key]


def check_exec(style, n, page, sort, which):
    from sqlalchemy import insert, select, delete
    from sqlalchemy.dialects import sqlite as sqlite_d
    e, t, conn = exec_engine(style, page)
    desc = dict(part="execute-sqlite", style=style, rows=n, page_size=page, sort_by_parameter_order=sort, permutation=which)
    _PERM["which"] = which
    explicit = style in ("explicit_pk", "insert_sentinel", "upsert_explicit_pk")
    params = [dict({"id": 100 + 7 * ((i * 3) % n) + i} if explicit else {}, x=10 * i + 1) for i in range(n)]
    fails = []
    try:
        conn.execute(delete(t))
        pre = {}
        if style == "upsert_explicit_pk":
            for p in params[::2]:
                conn.execute(insert(t).values(id=p["id"], x=-1, d=99))
                pre[p["id"]] = True
            stmt = sqlite_d.insert(t)
            stmt = stmt.on_conflict_do_update(index_elements=[t.c.id], set_={"x": stmt.excluded.x})
        else:
            stmt = insert(t)
        res = conn.execute(stmt.returning(t.c.id, t.c.x, sort_by_parameter_order=sort), params)
        got = [tuple(r) for r in res.all()]
        stored = [tuple(r) for r in conn.execute(select(t.c.id, t.c.x, t.c.d).order_by(t.c.x)).all()]
        conn.commit()
    except Exception as ex:  # noqa: BLE001
        try:
            conn.rollback()
        except Exception:  # noqa: BLE001
            pass
        fails.append(dict(desc, clause="no-exception", got=f"{type(ex).__name__}: {ex}"[:200]))
        return fails, 1, {}
    evals = 0
    evals += 1
    if len(got) != n:
        fails.append(dict(desc, clause="E8 one returned row per parameter set", expected=n, got=[list(map(str, r)) for r in got]))
    evals += 1
    want_d = [99 if p.get("id") in pre else 5 for p in params]
    if [r[1] for r in stored] != [p["x"] for p in params] or [r[2] for r in stored] != want_d or (explicit and [r[0] for r in stored] != [p["id"] for p in params]):
        fails.append(dict(desc, clause="E8 stored rows == parameter sets (+ defaults), each once", expected=[[p.get("id"), p["x"]] for p in params], got=[list(map(str, r)) for r in stored]))
    evals += 1
    if sorted(got, key=lambda r: r[1]) != sorted([(r[0], r[1]) for r in stored], key=lambda r: r[1]):
        fails.append(dict(desc, clause="E8 returned (id, x) == stored (id, x)", expected=[list(map(str, r[:2])) for r in stored], got=[list(map(str, r)) for r in got]))
    if sort:
        evals += 1
        if [r[1] for r in got] != [p["x"] for p in params] or (explicit and [r[0] for r in got] != [p["id"] for p in params]):
            fails.append(dict(desc, clause="E8 n-th returned row belongs to n-th parameter set", expected=[[p.get("id"), p["x"]] for p in params], got=[list(map(str, r)) for r in got]))
    k = min(n, page)
    nontrivial = sort and perms_for(k, which) != tuple(range(k)) and k > 1
    return fails, evals, dict(nontrivial=nontrivial)


def check_pk_rows(style, n, page, which):
    """inserted_primary_key_rows of an executemany without explicit RETURNING (implicit returning through insertmanyvalues)"""
    from sqlalchemy import insert, select, delete
    e, t, conn = exec_engine(style, page)
    desc = dict(part="execute-sqlite-ipk", style=style, rows=n, page_size=page, permutation=which)
    _PERM["which"] = which
    explicit = style in ("explicit_pk", "insert_sentinel")
    params = [dict({"id": 100 + 7 * ((i * 3) % n) + i} if explicit else {}, x=10 * i + 1) for i in range(n)]
    fails = []
    try:
        conn.execute(delete(t))
        res = conn.execute(insert(t).return_defaults(sort_by_parameter_order=True), params)
        ipk = [tuple(r) for r in res.inserted_primary_key_rows]
        stored = {r[1]: r[0] for r in conn.execute(select(t.c.id, t.c.x)).all()}
        conn.commit()
    except Exception as ex:  # noqa: BLE001
        try:
            conn.rollback()
        except Exception:  # noqa: BLE001
            pass
        fails.append(dict(desc, clause="no-exception", got=f"{type(ex).__name__}: {ex}"[:200]))
        return fails, 1, {}
    want = [(stored.get(p["x"]),) for p in params]
    if ipk != want:
        fails.append(dict(desc, clause="E8 n-th inserted primary key belongs to n-th parameter set", expected=[list(map(str, w)) for w in want], got=[list(map(str, r)) for r in ipk]))
    return fails, 1, dict(nontrivial=min(n, page) > 1 and perms_for(min(n, page), which) != tuple(range(min(n, page))))



# ------------------------------------------------------------------------------------------------ E9: generative composition on SQLite
COMPOSED_STYLES = ["autoinc", "client_uuid", "insert_sentinel", "explicit_pk"]


def _params_for(style, n):
    explicit = style in ("explicit_pk", "insert_sentinel")
    return [dict({"id": 100 + 7 * ((i * 3) % n) + i} if explicit else {}, x=10 * i + 1) for i in range(n)], explicit


def _order_clauses(desc, fails, what, got_x, got_id, params, stored, requested):
    """got_x / got_id: per returned item, in returned order; stored: x -> id"""
    n = len(params)
    if len(got_x) != n:
        fails.append(dict(desc, clause="E9 one %s per parameter set" % what, expected=n, got=[str(v) for v in got_x]))
        return
    if sorted(zip(map(str, got_id), got_x), key=lambda r: r[1]) != sorted(((str(i), x) for x, i in stored.items()), key=lambda r: r[1]):
        fails.append(dict(desc, clause="E9 returned %s == stored rows" % what, expected=sorted([str(i), x] for x, i in stored.items()),
                          got=[[str(i), x] for i, x in zip(got_id, got_x)]))
    elif requested and (got_x != [p["x"] for p in params] or [str(i) for i in got_id] != [str(stored[p["x"]]) for p in params]):
        fails.append(dict(desc, clause="E9 n-th %s belongs to n-th parameter set" % what, expected=[[str(stored[p["x"]]), p["x"]] for p in params],
                          got=[[str(i), x] for i, x in zip(got_id, got_x)]))


def check_exec_composed(style, n, page, composition, which, warm_cache=False):
    """warm_cache: first execute insert(t).return_defaults(sort_by_parameter_order=True) through the same (fresh) compiled
    cache - the statement under test differs from it only by what its generative calls added"""
    from sqlalchemy import insert, select, delete
    e, t, conn = exec_engine(style, page)
    desc = dict(part="execute-sqlite-cache" if warm_cache else "execute-sqlite-composed", style=style, rows=n, page_size=page, composition=composition, permutation=which)
    _PERM["which"] = which
    params, explicit = _params_for(style, n)
    fails = []
    evals = 1
    stmt, requested, kind = compose(composition, insert(t), t.c.id, t.c.x, t.c.d)
    if bool(stmt._sort_by_parameter_order) != requested:
        fails.append(dict(desc, clause="E9a _sort_by_parameter_order == some call asked for it", expected=requested, got=stmt._sort_by_parameter_order))
    opts = {}
    if warm_cache:
        opts = {"compiled_cache": {}}
    elif kind == "return_defaults+rows":
        # a compiled cache of its own (shared by the cases of this composition): see the execute-sqlite-cache part
        opts = {"compiled_cache": _ENV.setdefault(("cache", style, page, composition), {})}
    try:
        conn.execute(delete(t))
        if warm_cache:
            conn.execute(insert(t).return_defaults(sort_by_parameter_order=True), [dict(p, x=-p["x"], **({"id": -p["id"]} if "id" in p else {})) for p in params],
                         execution_options=opts)
            conn.execute(delete(t))
        res = conn.execute(stmt, params, execution_options=opts)
        rows = ipk = None
        if kind != "return_defaults":
            rows = res.all()
        if kind != "returning":
            ipk = [r[0] for r in res.inserted_primary_key_rows]
            rd = res.returned_defaults_rows
        stored_rows = conn.execute(select(t.c.id, t.c.x, t.c.d)).all()
        conn.commit()
    except Exception as ex:  # noqa: BLE001
        try:
            conn.rollback()
        except Exception:  # noqa: BLE001
            pass
        fails.append(dict(desc, clause="no-exception", got=f"{type(ex).__name__}: {ex}"[:200]))
        return fails, 1, {}
    stored = {r[1]: r[0] for r in stored_rows}
    evals += 1
    want_d = 6 if composition.startswith("values-") else 5
    if sorted(stored) != [p["x"] for p in params] or any(r[2] != want_d for r in stored_rows) or (explicit and any(stored[p["x"]] != p["id"] for p in params)):
        fails.append(dict(desc, clause="E9 stored rows == parameter sets (+ defaults), each once", expected=[[p.get("id"), p["x"], want_d] for p in params],
                          got=[list(map(str, r)) for r in stored_rows]))
        return fails, evals, {}
    if kind == "returning":
        evals += 1
        _order_clauses(desc, fails, "row", [r[1] for r in rows], [r[0] for r in rows], params, stored, requested)
    else:
        evals += 1
        # inserted_primary_key_rows: the x each key belongs to is known from the table
        by_id = {str(i): x for x, i in stored.items()}
        _order_clauses(desc, fails, "inserted primary key", [by_id.get(str(i)) for i in ipk], ipk, params, stored, requested)
        if kind == "return_defaults+rows":
            evals += 1
            _order_clauses(desc, fails, "rewound row", [r._mapping["x"] for r in rows], [stored.get(r._mapping["x"]) for r in rows], params, stored, requested)
        elif rd is not None and composition in ("return_defaults-flag-first", "return_defaults-flag-last") and not explicit:
            evals += 1
            _order_clauses(desc, fails, "returned_defaults row", [by_id.get(str(r._mapping["id"])) for r in rd], [r._mapping["id"] for r in rd], params, stored, requested)
    k = min(n, page)
    return fails, evals, dict(nontrivial=requested and k > 1 and perms_for(k, which) != tuple(range(k)))


PROFILE_PATHS = ["execute-cols:single-flag", "execute-cols:single-noflag", "execute-cols:flag-only-last", "execute-entity-flag", "execute-entity-noflag",
                 "scalars-entity-flag", "bulk_insert_mappings-return_defaults", "bulk_save_objects-return_defaults", "add_all-flush"]
ORM_PATHS = (["execute-cols:" + c for c in RETURNING_COMPOSITIONS]
             + ["execute-entity-flag", "execute-entity-flag-only-first", "execute-entity-flag-only-last", "execute-entity-noflag", "scalars-entity-flag",
                "bulk_insert_mappings-return_defaults", "bulk_save_objects-return_defaults", "add_all-flush"])


def orm_model(style, page):
    key = ("model", style, page)
    if key not in _ENV:
        from sqlalchemy.orm import registry
        e, t, conn = exec_engine(style, page)

        class M:
            def __init__(self, **kw):
                for k, v in kw.items():
                    setattr(self, k, v)
        registry().map_imperatively(M, t)
        _ENV[key] = M
    return _ENV[key]


GENERATED_KEY_STYLES = ("autoinc", "client_uuid")       # the primary key may be given or left to the default, per parameter set


def optional_keys(style):
    """keys a parameter set may carry or omit: d (Python-side default 5); id where the key is otherwise generated"""
    return ["d", "id"] if style in GENERATED_KEY_STYLES else ["d"]


def profiled_params(style, key_profile):
    """parameter sets whose i-th member carries x (+ id when the style has no key generation) plus exactly key_profile[i]"""
    n = len(key_profile)
    params, explicit = _params_for(style, n)
    for i, (p, present) in enumerate(zip(params, key_profile)):
        assert set(present) <= set(optional_keys(style)), (style, present)
        if "d" in present:
            p["d"] = 50 + i
        if "id" in present:
            # autoincrement: given keys decrease, generated ones continue above the largest key in the table - never equal
            p["id"] = 1000 - 10 * i if style == "autoinc" else uuid.UUID(int=1000 + i)
    return params, explicit


def key_runs(params):
    """number of maximal runs of consecutive parameter sets with the same key set"""
    return len([1 for _ in itertools.groupby(params, key=lambda p: tuple(sorted(p)))])


def check_orm(style, n, page, path, which, key_profile=None):
    from sqlalchemy import insert, select, delete
    from sqlalchemy.orm import Session
    e, t, conn = exec_engine(style, page)
    M = orm_model(style, page)
    desc = dict(part="orm-sqlite", style=style, rows=n, page_size=page, path=path, permutation=which)
    _PERM["which"] = which
    if key_profile is None:
        params, explicit = _params_for(style, n)
    else:
        params, explicit = profiled_params(style, key_profile)
        desc.update(key_profile=[list(k) for k in key_profile], key_runs=key_runs(params))
    fails = []
    evals = 1
    S = dict(sort_by_parameter_order=True)
    stmt = None
    requested = True
    if path.startswith("execute-cols:"):
        stmt, requested, _ = compose(path.split(":")[1], insert(M), M.id, M.x, M.d)
    elif path in ("execute-entity-flag", "scalars-entity-flag"):
        stmt = insert(M).returning(M, **S)
    elif path == "execute-entity-flag-only-first":
        stmt = insert(M).returning(**S).returning(M)
    elif path == "execute-entity-flag-only-last":
        stmt = insert(M).returning(M).returning(**S)
    elif path == "execute-entity-noflag":
        stmt, requested = insert(M).returning(M), False
    if stmt is not None and bool(stmt._sort_by_parameter_order) != requested:
        fails.append(dict(desc, clause="E9a _sort_by_parameter_order == some call asked for it", expected=requested, got=stmt._sort_by_parameter_order))
    try:
        conn.execute(delete(t))
        conn.commit()
        with Session(bind=conn) as sess:
            if path.startswith("execute-cols:"):
                rows = sess.execute(stmt, params).all()
                got_x, got_id = [r[1] for r in rows], [r[0] for r in rows]
            elif path.startswith("execute-entity"):
                objs = sess.execute(stmt, params).scalars().all()
                got_x, got_id = [o.x for o in objs], [o.id for o in objs]
            elif path == "scalars-entity-flag":
                objs = sess.scalars(stmt, params).all()
                got_x, got_id = [o.x for o in objs], [o.id for o in objs]
            elif path == "bulk_insert_mappings-return_defaults":
                maps = [dict(p) for p in params]
                sess.bulk_insert_mappings(M, maps, return_defaults=True)
                got_x, got_id = [m["x"] for m in maps], [m.get("id") for m in maps]
            elif path == "bulk_save_objects-return_defaults":
                objs = [M(**p) for p in params]
                sess.bulk_save_objects(objs, return_defaults=True)
                got_x, got_id = [o.x for o in objs], [o.id for o in objs]
            elif path == "add_all-flush":
                objs = [M(**p) for p in params]
                sess.add_all(objs)
                sess.flush()
                got_x, got_id = [o.x for o in objs], [o.id for o in objs]
            else:
                raise AssertionError(path)
            stored_rows = sess.execute(select(t.c.id, t.c.x, t.c.d)).all()
            sess.commit()
        conn.commit()
    except Exception as ex:  # noqa: BLE001
        try:
            conn.rollback()
        except Exception:  # noqa: BLE001
            pass
        fails.append(dict(desc, clause="no-exception", got=f"{type(ex).__name__}: {ex}"[:300]))
        return fails, 1, {}
    stored = {r[1]: r[0] for r in stored_rows}
    evals += 1
    if key_profile is not None:
        stored_d = {r[1]: r[2] for r in stored_rows}
        if sorted(stored) != [p["x"] for p in params] or any(stored[p["x"]] != p["id"] for p in params if "id" in p) or any(stored_d[p["x"]] != p.get("d", 5) for p in params):
            fails.append(dict(desc, clause="E9 stored rows == parameter sets (+ defaults), each once", expected=[[str(p["id"]) if "id" in p else None, p["x"], p.get("d", 5)] for p in params],
                              got=[list(map(str, r)) for r in stored_rows]))
            return fails, evals, {}
        evals += 1
        _order_clauses(desc, fails, "mapping / object / row", got_x, got_id, params, stored, requested)
        return fails, evals, dict(nontrivial=requested and desc["key_runs"] > 1, key_runs=desc["key_runs"])
    if sorted(stored) != [p["x"] for p in params] or (explicit and any(stored[p["x"]] != p["id"] for p in params)):
        fails.append(dict(desc, clause="E9 stored rows == parameter sets (+ defaults), each once", expected=[[p.get("id"), p["x"]] for p in params],
                          got=[list(map(str, r)) for r in stored_rows]))
        return fails, evals, {}
    evals += 1
    _order_clauses(desc, fails, "mapping / object / row", got_x, got_id, params, stored, requested)
    k = min(n, page)
    return fails, evals, dict(nontrivial=requested and k > 1 and perms_for(k, which) != tuple(range(k)))


# ------------------------------------------------------------------------------------------------ driver
def run_case(case):
    part = case["part"]
    if part == "slicing":
        return check_slicing(case["dialect"], case["statement_shape"], case["sentinel"], case["rows"], case["page_size"], case["max_parameters"])
    if part == "reorder-stub":
        return check_reorder_stub(case["dialect"], case["sentinel"], case["rows"], case["page_size"], case["permutation"], case.get("composition"))
    if part in ("execute-sqlite-composed", "execute-sqlite-cache"):
        return check_exec_composed(case["style"], case["rows"], case["page_size"], case["composition"], case["permutation"], part == "execute-sqlite-cache")
    if part == "orm-sqlite":
        return check_orm(case["style"], case["rows"], case["page_size"], case["path"], case["permutation"], case.get("key_profile"))
    if part == "execute-sqlite":
        return check_exec(case["style"], case["rows"], case["page_size"], case["sort_by_parameter_order"], case["permutation"])
    if part == "execute-sqlite-ipk":
        return check_pk_rows(case["style"], case["rows"], case["page_size"], case["permutation"])
    raise AssertionError(part)


def all_cases(tier):
    cases = []
    maxrows = 10 if tier == "thorough" else 7
    pages = range(1, 12) if tier == "thorough" else PAGES
    for spec in SLICE_DIALECTS:
        for shape in STMT_SHAPES:
            for sentinel in SENTINELS:
                for n in range(1, maxrows + 1):
                    for page in pages:
                        for mp in MAXP:
                            cases.append(dict(part="slicing", dialect=spec, statement_shape=shape, sentinel=sentinel, rows=n, page_size=page, max_parameters=mp))
    for spec in SLICE_DIALECTS:
        for sentinel in SENTINELS:
            for n in range(1, maxrows + 1):
                for page in (1, 2, 3, 5, 100):
                    for which in range(N_PERMS):
                        cases.append(dict(part="reorder-stub", dialect=spec, sentinel=sentinel, rows=n, page_size=page, permutation=which))
    for style in EXEC_STYLES:
        for n in range(1, maxrows + 1):
            for page in (1, 2, 3, 5, 100):
                for which in range(N_PERMS):
                    sorts = (False,) if style == "unsorted_autoinc" else (True, False)
                    for sort in sorts:
                        cases.append(dict(part="execute-sqlite", style=style, rows=n, page_size=page, sort_by_parameter_order=sort, permutation=which))
                    if style in ("autoinc", "client_uuid", "explicit_pk", "insert_sentinel"):
                        cases.append(dict(part="execute-sqlite-ipk", style=style, rows=n, page_size=page, permutation=which))
    # E9: generative composition
    comp_rows = range(1, maxrows + 1) if tier == "thorough" else (1, 2, 3, 5, 7)
    for spec in SLICE_DIALECTS:
        for sentinel in ("autoinc", "client_pk", "insert_sentinel"):
            for composition in RETURNING_COMPOSITIONS:
                for n in comp_rows:
                    for page in (2, 3, 100):
                        for which in ((1, 2, 4) if tier != "thorough" else range(N_PERMS)):
                            cases.append(dict(part="reorder-stub", dialect=spec, sentinel=sentinel, rows=n, page_size=page, permutation=which, composition=composition))
    for style in COMPOSED_STYLES:
        for n in comp_rows:
            for page in (2, 3, 100):
                for which in range(N_PERMS):
                    for composition in COMPOSITIONS:
                        cases.append(dict(part="execute-sqlite-composed", style=style, rows=n, page_size=page, composition=composition, permutation=which))
                    for path in ORM_PATHS:
                        cases.append(dict(part="orm-sqlite", style=style, rows=n, page_size=page, path=path, permutation=which))
        # E10: parameter sets with non-uniform keys (ORM paths only: Core executemany requires like-keyed parameter sets)
        opt = optional_keys(style)
        subsets = [[k for k, b in zip(opt, bits) if b] for bits in itertools.product((0, 1), repeat=len(opt))]
        maxn = (4 if len(opt) == 1 else 3) + (1 if tier == "thorough" else 0)
        for n in range(2, maxn + 1):
            for profile in itertools.product(subsets, repeat=n):
                for page in (2, 100):
                    for which in ((1, 2) if tier != "thorough" else (0, 1, 2, 4)):
                        for path in PROFILE_PATHS:
                            cases.append(dict(part="orm-sqlite", style=style, rows=n, page_size=page, path=path, permutation=which, key_profile=[list(k) for k in profile]))
        for composition in COMPOSITIONS:
            if COMPOSITIONS[composition][2] != "returning":
                for n, page in ((1, 2), (3, 2), (3, 100)):
                    cases.append(dict(part="execute-sqlite-cache", style=style, rows=n, page_size=page, composition=composition, permutation=1))
    return cases


def _work(cases):
    evals = ncases = skipped = nontriv = profile_cases = profile_nontriv = 0
    fails = {}
    nfails = 0
    parts = {}
    for case in cases:
        r = run_case(case)
        if r is None:
            skipped += 1
            continue
        f, ev, info = r
        ncases += 1
        evals += ev
        if "key_profile" in case:
            profile_cases += 1
            profile_nontriv += bool(info.get("nontrivial"))
        parts[case["part"]] = parts.get(case["part"], 0) + 1
        if case["part"] == "slicing":
            if info.get("batches", 0) > 1 and not info.get("downgraded"):
                nontriv += 1
        elif info.get("nontrivial"):
            nontriv += 1
        for x in f:
            nfails += 1
            cls = (x["part"], x.get("dialect", x.get("style")), x["clause"], x.get("sentinel"), x.get("composition", x.get("path")), "key_profile" in x)
            lst = fails.setdefault(cls, [])
            if len(lst) < 2:
                lst.append(x)
    return dict(evals=evals, cases=ncases, skipped=skipped, nontrivial=nontriv, fails=[x for l in fails.values() for x in l], nfails=nfails, parts=parts,
                profile_cases=profile_cases, profile_nontrivial=profile_nontriv)


FUNCTION_OF = {"slicing": "SQLCompiler._deliver_insertmanyvalues_batches", "reorder-stub": "DefaultDialect._deliver_insertmanyvalues_batches",
               "execute-sqlite": "Connection._exec_insertmany_context", "execute-sqlite-ipk": "Connection._exec_insertmany_context",
               "execute-sqlite-composed": "UpdateBase.returning / return_defaults + Connection._exec_insertmany_context",
               "execute-sqlite-cache": "UpdateBase.return_defaults cache key + Connection._exec_insertmany_context",
               "orm-sqlite": "ORM bulk INSERT (orm/bulk_persistence.py, orm/persistence.py) + Connection._exec_insertmany_context"}


def run(run, tier, seed, args):
    t0 = time.time()
    cases = all_cases(tier)
    nproc = min(16, multiprocessing.cpu_count())
    # engines are per (style, page): keep the SQLite cases of one configuration together
    cases.sort(key=lambda c: (c["part"], c.get("style", c.get("dialect")), c["page_size"]))
    chunk = max(1, len(cases) // (nproc * 6))
    tasks = [cases[i:i + chunk] for i in range(0, len(cases), chunk)]
    with multiprocessing.get_context("fork").Pool(nproc) as pool:
        results = pool.map(_work, tasks)
    evals = sum(r["evals"] for r in results)
    ncases = sum(r["cases"] for r in results)
    nontriv = sum(r["nontrivial"] for r in results)
    nfails = sum(r["nfails"] for r in results)
    parts = {}
    for r in results:
        for k, v in r["parts"].items():
            parts[k] = parts.get(k, 0) + v
    fails = sorted((x for r in results for x in r["fails"]), key=lambda x: (x["rows"], x["page_size"], json.dumps(x, sort_keys=True, default=repr)))
    seen = set()
    for x in fails:
        dj = json.dumps(x, sort_keys=True, default=repr)
        fn = FUNCTION_OF[x["part"]]
        k = run.match_known(function=fn, input=dj)
        if k is not None:
            run.known_finding(k, "bounded insertmanyvalues scope")
            continue
        cls = (x["part"], x["clause"], x.get("dialect", x.get("style")), x.get("composition", x.get("path")))
        if x["clause"].startswith("E9a"):
            cls = ("E9a",)          # a property of the statement object: one replay is enough, keep room for the behavioural clauses
        elif "composition" in x or "path" in x:
            cls = (x["part"], x["clause"], "key_profile" in x)
        if cls in seen or len(seen) >= 10:
            continue
        seen.add(cls)
        run.violation("C12-%s-%08d" % (x["part"], abs(hash(dj)) % 10 ** 8),
                      dict(function=fn, input=x, expected=x.get("expected"), actual=x.get("got"), reason="insertmanyvalues contract clause failed: " + x["clause"]))
    samples = []
    for case in (dict(part="slicing", dialect="postgresql:numeric_dollar", statement_shape="returning_bind", sentinel="autoinc", rows=5, page_size=2, max_parameters=None),
                 dict(part="reorder-stub", dialect="mssql:qmark", sentinel="autoinc", rows=5, page_size=3, permutation=1),
                 dict(part="execute-sqlite", style="client_uuid", rows=5, page_size=3, sort_by_parameter_order=True, permutation=1),
                 dict(part="execute-sqlite-composed", style="autoinc", rows=5, page_size=3, composition="flag-only-middle-of-3", permutation=1),
                 dict(part="orm-sqlite", style="client_uuid", rows=5, page_size=3, path="execute-cols:flag-first", permutation=1),
                 dict(part="orm-sqlite", style="autoinc", rows=3, page_size=2, path="execute-entity-flag", permutation=1, key_profile=[["d"], [], ["d", "id"]])):
        r = run_case(case)
        samples.append(dict(case=case, contract_failures=len(r[0]), clauses_evaluated=r[1], info={k: (list(v) if isinstance(v, tuple) else v) for k, v in r[2].items()}))
    if ncases == 0 or parts.get("slicing", 0) == 0 or parts.get("reorder-stub", 0) == 0 or parts.get("execute-sqlite", 0) == 0 \
            or sum(r.get("profile_nontrivial", 0) for r in results) == 0:
        run.crashes.append("C12: a part of the scope did not run (vacuity guard): %r" % parts)
    maxrows = 10 if tier == "thorough" else 7
    run.coverage.update(
        evaluations=evals, cases=ncases, cases_per_part=parts, distinct_nontrivial=nontriv,
        rule="cases enumerated exhaustively over the stated grid, each distinct by construction; one evaluation = one contract clause on one real call; "
             "non-trivial = slicing case with more than one multi-row batch, or re-ordering case (stub, SQLite Core, SQLite ORM) whose permutation of "
             "the first batch is not the identity while the statement asks for parameter order; a key-profile case (E10) is non-trivial when "
             "the parameter list has at least two runs of like-keyed sets and parameter order is asked for (counted: key_profile_cases_nontrivial)",
        key_profile_cases=sum(r.get("profile_cases", 0) for r in results), key_profile_cases_nontrivial=sum(r.get("profile_nontrivial", 0) for r in results),
        samples=samples, exhaustive=True,
        scope="(F1) the real batch generator driven directly with INSERT..RETURNING compiled for %s x statement shapes %s x sentinel styles %s x "
              "rows 1..%d x page sizes 1..%d x insertmanyvalues_max_parameters in %s; (F2) the real dialect-level generator against a stub server returning "
              "each batch's rows permuted (all permutations of <= 3 rows, 6 fixed ones beyond) x the same dialects x sentinel styles x rows 1..%d x page "
              "sizes {1,2,3,5,100}; (F3) executemany INSERT..RETURNING and return_defaults on in-memory SQLite with a permuting execution context x styles %s x "
              "rows 1..%d x page sizes {1,2,3,5,100} x sort_by_parameter_order on/off; (E9) generative compositions %s: the returning ones against the "
              "stub server x dialects x sentinel styles {autoinc, client_pk, insert_sentinel}, all of them on SQLite x styles %s, and the ORM paths %s, "
              "x rows %s x page sizes {2,3,100} x permutations; (E10) ORM paths %s x styles %s x every key profile (per parameter set a subset of the "
              "optional keys: d everywhere, id too for %s) over 2..%d parameter sets (2..%d where id is optional) x page sizes {2,100} x permutations %s" % (
                  SLICE_DIALECTS, STMT_SHAPES, SENTINELS, maxrows, 11 if tier == "thorough" else 8, MAXP, maxrows,
                  EXEC_STYLES, maxrows, list(COMPOSITIONS), COMPOSED_STYLES, ORM_PATHS,
                  list(range(1, maxrows + 1)) if tier == "thorough" else [1, 2, 3, 5, 7],
                  PROFILE_PATHS, COMPOSED_STYLES, list(GENERATED_KEY_STYLES), 5 if tier == "thorough" else 4, 4 if tier == "thorough" else 3,
                  [0, 1, 2, 4] if tier == "thorough" else [1, 2]),
        contract_failures=nfails, wall_s=round(time.time() - t0, 1))
    run.assumptions += [
        "the server inserts what the statement says and generates autoincrement keys in VALUES order (what the sen_counter ORDER BY form asks for)",
        "requires len(parameters) >= 1 (the generator is only reached for an executemany)",
        "PostgreSQL / MariaDB / MSSQL only as dialect objects with a stub server; real execution on SQLite only",
        "parameter sets with non-uniform keys only through the ORM paths (a Core executemany requires like-keyed sets: documented precondition)",
        "outside: composite and non-integer sentinels on server dialects, setinputsizes, ORM bulk insert with joined-table inheritance / "
        "several tables per parameter set, ORM bulk UPDATE, on_conflict statements in the composition part",
    ]


def replay(data):
    case = data["input"]
    keys = {"slicing": ("part", "dialect", "statement_shape", "sentinel", "rows", "page_size", "max_parameters"),
            "reorder-stub": ("part", "dialect", "sentinel", "rows", "page_size", "permutation"),
            "execute-sqlite": ("part", "style", "rows", "page_size", "sort_by_parameter_order", "permutation"),
            "execute-sqlite-ipk": ("part", "style", "rows", "page_size", "permutation"),
            "execute-sqlite-composed": ("part", "style", "rows", "page_size", "composition", "permutation"),
            "execute-sqlite-cache": ("part", "style", "rows", "page_size", "composition", "permutation"),
            "orm-sqlite": ("part", "style", "rows", "page_size", "path", "permutation")}[case["part"]]
    if "composition" in case and case["part"] == "reorder-stub":
        keys += ("composition",)
    if "key_profile" in case:
        keys += ("key_profile",)
    c = {k: case[k] for k in keys}
    r = run_case(c)
    if r is None:
        print("REPLAY: not applicable", c)
        return 3
    if r[0]:
        for f in r[0][:5]:
            print(f"REPLAY-FAILS {data.get('function')} case={c} clause={f['clause']!r} expected={f.get('expected')} got={f.get('got', f.get('sizes'))}")
        return 1
    print("REPLAY-PASSES", c, r[2])
    return 0
