"""C52 — scoped_session gives each scope its own session: the ScopedRegistry container (sequential contract)."""
import contracts.registry  # noqa: F401
from pyvc.contract import FUNCS
from vlib.proof import run_proofs
from vlib.bounded import run_bounded

LEVEL = "proof"
KEYS = [k for k, c in FUNCS.items() if "C52" in c.props and c.proof and not c.abstract]
BOUNDED_KEYS = [k for k, c in FUNCS.items() if "C52" in c.props and not c.abstract]


def run(run, tier, seed, args):
    run_proofs(run, KEYS, tier, update_baseline=args.update_baseline, source_root=args.source_root)
    if not args.source_root:
        run_bounded(run, BOUNDED_KEYS, tier)
    run.assumptions += [
        "scopefunc is pure within one registry call (returns the same key each time it is called during that call); createfunc returns an arbitrary object",
        "dict operations are atomic in CPython and distinct threads use distinct keys: assumed, not checked (schedules are not explored)",
        "ThreadLocalRegistry (threading.local slot) and scoped_session.remove()/__call__ delegate to this container; they are not under proof",
    ]
