"""C52 — scoped_session gives each scope its own session: ScopedRegistry / ThreadLocalRegistry containers, scoped_session.__init__
and remove() under proof; real threads in the bounded complement."""
import contracts.registry  # noqa: F401
from pyvc.contract import FUNCS
from vlib.proof import run_proofs
from vlib.bounded import run_bounded

LEVEL = "proof"
KEYS = [k for k, c in FUNCS.items() if "C52" in c.props and c.proof and not c.abstract]
BOUNDED_KEYS = [k for k, c in FUNCS.items() if "C52" in c.props and not c.abstract]


def run(run, tier, seed, args):
    run_proofs(run, KEYS, tier, update_baseline=args.update_baseline, source_root=args.source_root)
    if not args.source_root:
        run_bounded(run, BOUNDED_KEYS, tier)
        from checks import C52_bounded
        C52_bounded.bounded(run, tier, seed)
    run.assumptions += [
        "scopefunc is pure within one registry call (returns the same key each time it is called during that call); createfunc returns an arbitrary object",
        "dict operations are atomic in CPython and distinct threads use distinct keys: assumed, not checked (schedules are not explored)",
        "threading.local(): each thread sees its own attribute namespace, which disappears with the thread (trusted CPython semantics; the proof treats the object as the current thread's view with a may-be-absent attribute `value`)",
        "Session.close() is outside the proof: a ghost flag `_g_closed` marks that it was called (assumed contract); scoped_session.__call__(**kw) is under proof for both registry kinds (keyword arguments opaque; the factory call inside __call__(**kw) is read sequentially); the generated proxy methods are bounded only",
    ]
